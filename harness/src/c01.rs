//! C01 — every Z80 instruction yields the architected register/flag/memory/IO result.
//! Also the shared machinery of C02 (interrupt/HALT/prefix sequencing) and C03 (bus cycles):
//! a harness-owned recording `Z80Bus`, the real-code runner, the line protocol of the Lean
//! driver `C01`, comparison, keying and shrinking.
//!
//! Real code: `rustzx_z80::Z80::emulate` driven through the public API + hooks H3
//! (`verif_set_active_prefix`, `verif_set_q`). The bus implements ONLY the required methods of
//! `Z80Bus`; `read/write/wait_loop/read_word/write_word` are the crate's provided methods, so a
//! change in bus.rs is visible in the recorded call sequence.
use crate::util::*;
use rustzx_z80::{IntMode, Prefix, Z80Bus, Z80};
use std::collections::{HashMap, VecDeque};
use std::panic::{catch_unwind, AssertUnwindSafe};

// ---------------------------------------------------------------------------------------------
// bus events
// ---------------------------------------------------------------------------------------------

#[derive(Clone, Copy, PartialEq, Eq, Debug)]
pub enum Ev {
    M(u16, usize),
    N(u16, usize),
    I(usize),
    R(u16, u8),
    W(u16, u8),
    Ior(u16, u8),
    Iow(u16, u8),
    K(u8),
    T,
    H(bool),
    P(u16),
}

impl Ev {
    pub fn text(&self) -> String {
        match *self {
            Ev::M(a, c) => format!("M{:04x}:{:x}", a, c),
            Ev::N(a, c) => format!("N{:04x}:{:x}", a, c),
            Ev::I(c) => format!("I{:x}", c),
            Ev::R(a, v) => format!("R{:04x}:{:02x}", a, v),
            Ev::W(a, v) => format!("W{:04x}:{:02x}", a, v),
            Ev::Ior(p, v) => format!("i{:04x}:{:02x}", p, v),
            Ev::Iow(p, v) => format!("o{:04x}:{:02x}", p, v),
            Ev::K(v) => format!("K{:02x}", v),
            Ev::T => "T".to_string(),
            Ev::H(b) => format!("H{}", if b { 1 } else { 0 }),
            Ev::P(a) => format!("P{:04x}", a),
        }
    }
}

/// T-states a textual event stands for (port cycles count 4)
pub fn ev_tstates(t: &str) -> u64 {
    let b = t.as_bytes();
    match b.first() {
        Some(b'M') | Some(b'N') => u64::from_str_radix(t.rsplit(':').next().unwrap_or("0"), 16).unwrap_or(0),
        Some(b'I') => u64::from_str_radix(&t[1..], 16).unwrap_or(0),
        Some(b'i') | Some(b'o') => 4,
        _ => 0,
    }
}

pub fn mem_default(seed: u32, a: u16) -> u8 {
    ((a as u64) * 167 + ((a as u64) / 256) * 29 + (seed as u64) * 59 + 53) as u8
}

pub fn io_default(seed: u32, p: u16, k: u32) -> u8 {
    (((p as u64) % 256) * 31 + ((p as u64) / 256) * 17 + (seed as u64) * 7 + (k as u64) * 13 + 90) as u8
}

/// The recording bus. Memory = default pattern of the seed + a sparse overlay.
pub struct RBus {
    pub seed: u32,
    pub mem: HashMap<u16, u8>,
    pub io: VecDeque<u8>,
    pub io_count: u32,
    pub int: bool,
    pub nmi: bool,
    pub busbyte: u8,
    pub log: Vec<Ev>,
}

impl RBus {
    pub fn peek(&self, a: u16) -> u8 {
        match self.mem.get(&a) {
            Some(v) => *v,
            None => mem_default(self.seed, a),
        }
    }
}

impl Z80Bus for RBus {
    fn read_internal(&mut self, addr: u16) -> u8 {
        let v = self.peek(addr);
        self.log.push(Ev::R(addr, v));
        v
    }
    fn write_internal(&mut self, addr: u16, data: u8) {
        self.mem.insert(addr, data);
        self.log.push(Ev::W(addr, data));
    }
    fn wait_mreq(&mut self, addr: u16, clk: usize) {
        self.log.push(Ev::M(addr, clk));
    }
    fn wait_no_mreq(&mut self, addr: u16, clk: usize) {
        self.log.push(Ev::N(addr, clk));
    }
    fn wait_internal(&mut self, clk: usize) {
        self.log.push(Ev::I(clk));
    }
    fn read_io(&mut self, port: u16) -> u8 {
        let v = match self.io.pop_front() {
            Some(v) => v,
            None => io_default(self.seed, port, self.io_count),
        };
        self.io_count += 1;
        self.log.push(Ev::Ior(port, v));
        v
    }
    fn write_io(&mut self, port: u16, data: u8) {
        self.log.push(Ev::Iow(port, data));
    }
    fn read_interrupt(&mut self) -> u8 {
        self.log.push(Ev::K(self.busbyte));
        self.busbyte
    }
    fn reti(&mut self) {
        self.log.push(Ev::T);
    }
    fn halt(&mut self, halted: bool) {
        self.log.push(Ev::H(halted));
    }
    fn int_active(&self) -> bool {
        self.int
    }
    fn nmi_active(&self) -> bool {
        self.nmi
    }
    fn pc_callback(&mut self, addr: u16) {
        self.log.push(Ev::P(addr));
    }
}

// ---------------------------------------------------------------------------------------------
// CPU state
// ---------------------------------------------------------------------------------------------

pub const PC: usize = 0;
pub const SP: usize = 1;
pub const AF: usize = 2;
pub const BC: usize = 3;
pub const DE: usize = 4;
pub const HL: usize = 5;
pub const AF_: usize = 6;
pub const BC_: usize = 7;
pub const DE_: usize = 8;
pub const HL_: usize = 9;
pub const IX: usize = 10;
pub const IY: usize = 11;
pub const IR: usize = 12;
pub const MP: usize = 13;
pub const W_NAMES: [&str; 14] = [
    "pc", "sp", "af", "bc", "de", "hl", "af'", "bc'", "de'", "hl'", "ix", "iy", "ir", "mp",
];

pub const FF_IFF1: u8 = 1;
pub const FF_IFF2: u8 = 2;
pub const FF_HALTED: u8 = 4;
pub const FF_SKIP: u8 = 8;

#[derive(Clone, PartialEq, Eq, Debug, Default)]
pub struct St {
    pub w: [u16; 14],
    pub q: u8,
    pub lq: u8,
    /// bit0 IFF1, bit1 IFF2, bit2 halted, bit3 skip_interrupt
    pub ff: u8,
    pub im: u8,
    /// 0 none, 1 CB, 2 DD, 3 ED, 4 FD
    pub ap: u8,
}

impl St {
    pub fn text(&self) -> String {
        let mut s = String::with_capacity(96);
        for w in &self.w {
            s.push_str(&format!("{:04x} ", w));
        }
        s.push_str(&format!("{:02x} {:02x} {:x} {:x} {:x}", self.q, self.lq, self.ff, self.im, self.ap));
        s
    }
    pub fn parse(t: &[&str]) -> Option<St> {
        if t.len() < 19 {
            return None;
        }
        let mut st = St::default();
        for i in 0..14 {
            st.w[i] = u16::from_str_radix(t[i], 16).ok()?;
        }
        st.q = u8::from_str_radix(t[14], 16).ok()?;
        st.lq = u8::from_str_radix(t[15], 16).ok()?;
        st.ff = u8::from_str_radix(t[16], 16).ok()?;
        st.im = u8::from_str_radix(t[17], 16).ok()?;
        st.ap = u8::from_str_radix(t[18], 16).ok()?;
        Some(st)
    }
    pub fn a(&self) -> u8 {
        (self.w[AF] >> 8) as u8
    }
    pub fn f(&self) -> u8 {
        self.w[AF] as u8
    }
    /// named fields for diffing and keying
    pub fn fields(&self) -> Vec<(&'static str, u32)> {
        let w = &self.w;
        vec![
            ("pc", w[PC] as u32),
            ("sp", w[SP] as u32),
            ("a", (w[AF] >> 8) as u32),
            ("f", (w[AF] & 0xFF) as u32),
            ("bc", w[BC] as u32),
            ("de", w[DE] as u32),
            ("hl", w[HL] as u32),
            ("af'", w[AF_] as u32),
            ("bc'", w[BC_] as u32),
            ("de'", w[DE_] as u32),
            ("hl'", w[HL_] as u32),
            ("ix", w[IX] as u32),
            ("iy", w[IY] as u32),
            ("i", (w[IR] >> 8) as u32),
            ("r", (w[IR] & 0xFF) as u32),
            ("mp", w[MP] as u32),
            ("q", self.q as u32),
            ("lastq", self.lq as u32),
            ("iff1", (self.ff & 1) as u32),
            ("iff2", ((self.ff >> 1) & 1) as u32),
            ("halted", ((self.ff >> 2) & 1) as u32),
            ("skip", ((self.ff >> 3) & 1) as u32),
            ("im", self.im as u32),
            ("prefix", self.ap as u32),
        ]
    }
}

fn prefix_of(ap: u8) -> Prefix {
    match ap {
        1 => Prefix::CB,
        2 => Prefix::DD,
        3 => Prefix::ED,
        4 => Prefix::FD,
        _ => Prefix::None,
    }
}

fn prefix_code(p: Prefix) -> u8 {
    match p {
        Prefix::None => 0,
        Prefix::CB => 1,
        Prefix::DD => 2,
        Prefix::ED => 3,
        Prefix::FD => 4,
    }
}

pub fn set_state(cpu: &mut Z80, st: &St) {
    let r = &mut cpu.regs;
    // alternate set first, then swap it away
    r.set_af(st.w[AF_]);
    r.set_bc(st.w[BC_]);
    r.set_de(st.w[DE_]);
    r.set_hl(st.w[HL_]);
    r.swap_af_alt();
    r.exx();
    r.set_af(st.w[AF]);
    r.set_bc(st.w[BC]);
    r.set_de(st.w[DE]);
    r.set_hl(st.w[HL]);
    r.set_pc(st.w[PC]);
    r.set_sp(st.w[SP]);
    r.set_ix(st.w[IX]);
    r.set_iy(st.w[IY]);
    r.set_i((st.w[IR] >> 8) as u8);
    r.set_r(st.w[IR] as u8);
    r.set_mem_ptr(st.w[MP]);
    r.verif_set_q(st.q, st.lq);
    r.set_iff1(st.ff & FF_IFF1 != 0);
    r.set_iff2(st.ff & FF_IFF2 != 0);
    cpu.halted = st.ff & FF_HALTED != 0;
    cpu.skip_interrupt = st.ff & FF_SKIP != 0;
    cpu.set_im(st.im % 3);
    cpu.verif_set_active_prefix(prefix_of(st.ap));
}

pub fn get_state(cpu: &mut Z80) -> St {
    let mut st = St::default();
    {
        let r = &mut cpu.regs;
        st.w[PC] = r.get_pc();
        st.w[SP] = r.get_sp();
        st.w[AF] = r.get_af();
        st.w[BC] = r.get_bc();
        st.w[DE] = r.get_de();
        st.w[HL] = r.get_hl();
        // alternate registers through an exx / ex af,af' round trip (get_h_alt/get_l_alt are
        // not used: they return H/L, DESIGN §9 #2)
        r.swap_af_alt();
        r.exx();
        st.w[AF_] = r.get_af();
        st.w[BC_] = r.get_bc();
        st.w[DE_] = r.get_de();
        st.w[HL_] = r.get_hl();
        r.swap_af_alt();
        r.exx();
        st.w[IX] = r.get_ix();
        st.w[IY] = r.get_iy();
        st.w[IR] = r.get_ir();
        st.w[MP] = r.get_mem_ptr();
        st.q = r.verif_q();
        st.lq = r.get_last_q();
        st.ff = (r.get_iff1() as u8) | ((r.get_iff2() as u8) << 1);
    }
    st.ff |= ((cpu.halted as u8) << 2) | ((cpu.skip_interrupt as u8) << 3);
    st.im = match cpu.get_im() {
        IntMode::Im0 => 0,
        IntMode::Im1 => 1,
        IntMode::Im2 => 2,
    };
    st.ap = prefix_code(cpu.verif_active_prefix());
    st
}

// ---------------------------------------------------------------------------------------------
// cases
// ---------------------------------------------------------------------------------------------

#[derive(Clone, Copy, PartialEq, Eq, Debug)]
pub struct Step {
    /// bit0 INT, bit1 NMI
    pub lines: u8,
    pub bus: u8,
}

#[derive(Clone, Debug)]
pub struct Case {
    pub st: St,
    pub seed: u32,
    pub io: Vec<u8>,
    /// overlay, later entries win
    pub mem: Vec<(u16, Vec<u8>)>,
    pub steps: Vec<Step>,
}

impl Case {
    pub fn mem_text(&self) -> String {
        if self.mem.is_empty() {
            return "-".into();
        }
        self.mem
            .iter()
            .map(|(a, bs)| {
                if bs.len() > 8 && bs.iter().all(|b| *b == bs[0]) {
                    format!("{:04x}*{:x}:{:02x}", a, bs.len(), bs[0])
                } else {
                    format!("{:04x}:{}", a, hex(bs))
                }
            })
            .collect::<Vec<_>>()
            .join(",")
    }
    pub fn first_line(&self, verb: &str) -> String {
        format!(
            "{} {} {:x} {:x} {:02x} {} {}",
            verb,
            self.st.text(),
            self.seed,
            self.steps[0].lines,
            self.steps[0].bus,
            if self.io.is_empty() { "-".to_string() } else { hex(&self.io) },
            self.mem_text()
        )
    }
    pub fn lines(&self) -> Vec<String> {
        let mut v = vec![self.first_line("x")];
        for s in &self.steps[1..] {
            v.push(format!("n {:x} {:02x}", s.lines, s.bus));
        }
        v
    }
    pub fn text(&self) -> String {
        self.lines().join(" ; ")
    }
    pub fn parse(text: &str) -> Option<Case> {
        let mut parts = text.split(';').map(|p| p.trim());
        let first: Vec<&str> = parts.next()?.split_whitespace().collect();
        if first.len() != 25 || (first[0] != "x" && first[0] != "c") {
            return None;
        }
        let st = St::parse(&first[1..20])?;
        let seed = u32::from_str_radix(first[20], 16).ok()?;
        let lines = u8::from_str_radix(first[21], 16).ok()?;
        let bus = u8::from_str_radix(first[22], 16).ok()?;
        let io = if first[23] == "-" { vec![] } else { unhex(first[23]) };
        let mut mem = vec![];
        if first[24] != "-" {
            for part in first[24].split(',') {
                let mut it = part.split(':');
                let head = it.next()?;
                let bytes = unhex(it.next()?);
                match head.split_once('*') {
                    Some((a, n)) => {
                        let a = u16::from_str_radix(a, 16).ok()?;
                        let n = usize::from_str_radix(n, 16).ok()?;
                        mem.push((a, vec![*bytes.first()?; n]));
                    }
                    None => mem.push((u16::from_str_radix(head, 16).ok()?, bytes)),
                }
            }
        }
        let mut steps = vec![Step { lines, bus }];
        for p in parts {
            let t: Vec<&str> = p.split_whitespace().collect();
            if t.len() == 3 && (t[0] == "n" || t[0] == "m") {
                steps.push(Step {
                    lines: u8::from_str_radix(t[1], 16).ok()?,
                    bus: u8::from_str_radix(t[2], 16).ok()?,
                });
            }
        }
        Some(Case { st, seed, io, mem, steps })
    }
    pub fn overlay(&self) -> HashMap<u16, u8> {
        let mut m = HashMap::new();
        for (a, bs) in &self.mem {
            for (k, b) in bs.iter().enumerate() {
                m.insert(a.wrapping_add(k as u16), *b);
            }
        }
        m
    }
    pub fn peek(&self, a: u16) -> u8 {
        let mut v = mem_default(self.seed, a);
        for (base, bs) in &self.mem {
            let off = a.wrapping_sub(*base) as usize;
            if off < bs.len() {
                v = bs[off];
            }
        }
        v
    }
}

/// The real CPU + bus of one case, stepped one `emulate` at a time.
pub struct Real {
    pub cpu: Z80,
    pub bus: RBus,
}

impl Real {
    pub fn new(case: &Case) -> Real {
        let mut cpu = Z80::default();
        set_state(&mut cpu, &case.st);
        Real {
            cpu,
            bus: RBus {
                seed: case.seed,
                mem: case.overlay(),
                io: case.io.iter().copied().collect(),
                io_count: 0,
                int: false,
                nmi: false,
                busbyte: 0xFF,
                log: vec![],
            },
        }
    }
    /// one `Z80::emulate`; `Err` = the real code panicked
    pub fn step(&mut self, s: &Step) -> Result<(St, Vec<String>), String> {
        self.bus.int = s.lines & 1 != 0;
        self.bus.nmi = s.lines & 2 != 0;
        self.bus.busbyte = s.bus;
        self.bus.log.clear();
        let cpu = &mut self.cpu;
        let bus = &mut self.bus;
        let r = catch_unwind(AssertUnwindSafe(|| cpu.emulate(bus)));
        match r {
            Ok(()) => Ok((get_state(&mut self.cpu), self.bus.log.iter().map(|e| e.text()).collect())),
            Err(e) => {
                let msg = if let Some(s) = e.downcast_ref::<&str>() {
                    s.to_string()
                } else if let Some(s) = e.downcast_ref::<String>() {
                    s.clone()
                } else {
                    "panic".to_string()
                };
                Err(msg)
            }
        }
    }
}

// ---------------------------------------------------------------------------------------------
// labels, comparison
// ---------------------------------------------------------------------------------------------

/// Which interrupt (if any) the step accepts according to the documented rule; used only to label.
pub fn accepts(st: &St, s: &Step) -> Option<&'static str> {
    if st.ff & FF_SKIP != 0 {
        return None;
    }
    if s.lines & 2 != 0 {
        return Some("nmi");
    }
    if s.lines & 1 != 0 && st.ff & FF_IFF1 != 0 {
        return Some(match st.im {
            0 => "int-im0",
            1 => "int-im1",
            _ => "int-im2",
        });
    }
    None
}

/// `<prefix bytes><opcode>` of the instruction at PC (pending prefix included), e.g. `ddcb46`.
pub fn op_label(st: &St, peek: &dyn Fn(u16) -> u8) -> String {
    let pc = st.w[PC];
    let mut s = String::new();
    let mut k = 0u16;
    let mut page = match st.ap {
        1 => 0xCB,
        2 => 0xDD,
        3 => 0xED,
        4 => 0xFD,
        _ => {
            let b = peek(pc);
            k = 1;
            if matches!(b, 0xCB | 0xDD | 0xED | 0xFD) {
                b
            } else {
                return format!("{:02x}", b);
            }
        }
    };
    s.push_str(&format!("{:02x}", page));
    if page == 0xDD || page == 0xFD {
        let b = peek(pc.wrapping_add(k));
        k += 1;
        if b == 0xCB {
            s.push_str("cb");
            // displacement, then the opcode
            s.push_str(&format!("{:02x}", peek(pc.wrapping_add(k + 1))));
            return s;
        }
        s.push_str(&format!("{:02x}", b));
        return s;
    }
    if page == 0xCB || page == 0xED {
        page = peek(pc.wrapping_add(k));
        s.push_str(&format!("{:02x}", page));
    }
    s
}

#[derive(Clone, Copy, PartialEq, Eq, Debug)]
pub enum Mode {
    C01,
    C02,
    C03,
}

impl Mode {
    pub fn id(self) -> &'static str {
        match self {
            Mode::C01 => "C01",
            Mode::C02 => "C02",
            Mode::C03 => "C03",
        }
    }
}

pub struct Diff {
    pub field: String,
    pub implementation: String,
    pub expected: String,
}

fn is_data(t: &str) -> bool {
    matches!(t.as_bytes()[0], b'R' | b'W' | b'i' | b'o' | b'K' | b'T' | b'H' | b'P')
}

/// (kind, address, clocks) view of an event; data transfers ride on their `M`
fn cycle_view(t: &str) -> Option<String> {
    match t.as_bytes()[0] {
        b'M' | b'N' | b'I' => Some(t.to_string()),
        b'i' | b'o' => Some(format!("{}:4", &t[..5])),
        _ => None,
    }
}

/// Compares what the property `mode` names. `loose` (C03, interrupt entry): only the T-state total
/// and the memory cycles, because the property fixes no order for the internal T-states there.
pub fn diff(mode: Mode, loose: bool, impl_st: &St, impl_ev: &[String], resp: &str) -> Option<Diff> {
    let (mst, mev) = match resp.split_once(" |") {
        Some((a, b)) => (a.trim(), b.trim()),
        None => {
            return Some(Diff { field: "driver".into(), implementation: String::new(), expected: resp.to_string() })
        }
    };
    let toks: Vec<&str> = mst.split(' ').collect();
    let model_st = match St::parse(&toks) {
        Some(s) => s,
        None => {
            return Some(Diff { field: "driver".into(), implementation: String::new(), expected: resp.to_string() })
        }
    };
    let model_ev: Vec<&str> = if mev.is_empty() { vec![] } else { mev.split(' ').collect() };
    if mode != Mode::C03 {
        if *impl_st != model_st {
            for ((n, a), (_, b)) in impl_st.fields().iter().zip(model_st.fields().iter()) {
                if a != b && !(mode == Mode::C02 && *n == "mp") {
                    return Some(Diff {
                        field: n.to_string(),
                        implementation: format!("{:x}", a),
                        expected: format!("{:x}", b),
                    });
                }
            }
        }
    }
    match mode {
        Mode::C01 => {
            let a: Vec<&str> = impl_ev.iter().map(|s| s.as_str()).filter(|t| is_data(t)).collect();
            let b: Vec<&str> = model_ev.iter().copied().filter(|t| is_data(t)).collect();
            if a != b {
                return Some(Diff { field: "accesses".into(), implementation: a.join(" "), expected: b.join(" ") });
            }
        }
        Mode::C02 => {
            let a: Vec<&str> = impl_ev.iter().map(|s| s.as_str()).collect();
            if a != model_ev {
                return Some(Diff { field: "trace".into(), implementation: a.join(" "), expected: model_ev.join(" ") });
            }
        }
        Mode::C03 => {
            let ta: u64 = impl_ev.iter().map(|t| ev_tstates(t)).sum();
            let tb: u64 = model_ev.iter().map(|t| ev_tstates(t)).sum();
            if ta != tb {
                return Some(Diff { field: "tstates".into(), implementation: ta.to_string(), expected: tb.to_string() });
            }
            let (a, b): (Vec<String>, Vec<String>) = if loose {
                (
                    impl_ev.iter().filter(|t| t.starts_with('M')).cloned().collect(),
                    model_ev.iter().filter(|t| t.starts_with('M')).map(|s| s.to_string()).collect(),
                )
            } else {
                (
                    impl_ev.iter().filter_map(|t| cycle_view(t)).collect(),
                    model_ev.iter().filter_map(|t| cycle_view(t)).collect(),
                )
            };
            if a != b {
                return Some(Diff { field: "cycles".into(), implementation: a.join(" "), expected: b.join(" ") });
            }
        }
    }
    None
}

pub struct Failure {
    pub step: usize,
    pub label: String,
    pub diff: Diff,
    /// the failing step as a one-step case (pre-state and memory as the real code had them)
    pub single: Case,
}

/// Runs a case on the real code and on the model; returns the first disagreement.
/// `on_step(step index, label, pre-state, impl post-state, impl events)` is called for every step the
/// real code completed.
pub fn run_case(
    model: &mut Model,
    mode: Mode,
    case: &Case,
    on_step: &mut dyn FnMut(usize, &str, &St, &St, &[String]),
) -> Option<Failure> {
    let answers = model.ask_many(&case.lines());
    check_case(mode, case, &answers, on_step)
}

pub fn check_case(
    mode: Mode,
    case: &Case,
    answers: &[String],
    on_step: &mut dyn FnMut(usize, &str, &St, &St, &[String]),
) -> Option<Failure> {
    let mut real = Real::new(case);
    let mut pre = case.st.clone();
    let mut failed: Option<Failure> = None;
    for (k, s) in case.steps.iter().enumerate() {
        let acc = accepts(&pre, s);
        let label = match acc {
            Some(a) => a.to_string(),
            None => op_label(&pre, &|a| real.bus.peek(a)),
        };
        let single = if failed.is_some() {
            None
        } else {
            Some(Case {
                st: pre.clone(),
                seed: case.seed,
                io: real.bus.io.iter().copied().collect(),
                mem: {
                    let mut v: Vec<(u16, Vec<u8>)> = real.bus.mem.iter().map(|(a, b)| (*a, vec![*b])).collect();
                    v.sort();
                    v
                },
                steps: vec![*s],
            })
        };
        match real.step(s) {
            Err(msg) => {
                if failed.is_some() {
                    return failed;
                }
                return Some(Failure {
                    step: k,
                    label,
                    diff: Diff { field: "panic".into(), implementation: msg, expected: answers[k].clone() },
                    single: single.unwrap(),
                });
            }
            Ok((post, evs)) => {
                let loose = mode == Mode::C03 && acc.is_some();
                // called for every step the real code completed, agreeing with the model or not
                on_step(k, &label, &pre, &post, &evs);
                if failed.is_none() {
                    if let Some(d) = diff(mode, loose, &post, &evs, &answers[k]) {
                        failed = Some(Failure { step: k, label, diff: d, single: single.unwrap() });
                        if mode != Mode::C02 {
                            return failed;
                        }
                        // C02: the real code keeps running so that the property's predicates are also
                        // evaluated on the boundaries behind the first divergence from the model
                    } else if mode == Mode::C02 && !answers[k].starts_with(&post.text()) {
                        // only the hidden MEMPTR differs (the subject of C01, not compared by C02): the two
                        // sides would carry different hidden state from here on, so the run ends here
                        return None;
                    }
                }
                pre = post;
            }
        }
    }
    failed
}

pub fn key_of(mode: Mode, f: &Failure) -> String {
    format!("{}/op={}/field={}", mode.id(), f.label, f.diff.field)
}

/// Makes the failing step small: zero registers, latches and control bits, pin the bytes the step
/// reads and drop the rest of the overlay, seed 0 — every candidate is re-run on the real code and
/// on the model and must fail with the same key.
pub fn shrink(model: &mut Model, mode: Mode, f: Failure) -> Failure {
    let key = key_of(mode, &f);
    let mut cur = f;
    let still = |model: &mut Model, c: &Case| -> Option<Failure> {
        let r = run_case(model, mode, c, &mut |_, _, _, _, _| {});
        match r {
            Some(f2) if key_of(mode, &f2) == key => Some(f2),
            _ => None,
        }
    };
    // pin what the step reads, drop every other overlay byte, default pattern of seed 0
    {
        let mut real = Real::new(&cur.single);
        let step = cur.single.steps[0];
        let before: Vec<(u16, u8)> = {
            let _ = real.step(&step);
            real.bus
                .log
                .iter()
                .filter_map(|e| if let Ev::R(a, v) = e { Some((*a, *v)) } else { None })
                .collect()
        };
        let mut cand = cur.single.clone();
        let mut pinned: Vec<(u16, Vec<u8>)> = vec![];
        for (a, _) in &before {
            if !pinned.iter().any(|(x, _)| x == a) {
                pinned.push((*a, vec![cur.single.peek(*a)]));
            }
        }
        cand.mem = pinned;
        cand.seed = 0;
        if let Some(f2) = still(model, &cand) {
            cur = f2;
            cur.single = cand;
        }
    }
    let mut changed = true;
    let mut rounds = 0;
    while changed && rounds < 4 {
        changed = false;
        rounds += 1;
        for i in 1..14 {
            let w = cur.single.st.w[i];
            for v in [0u16, w & 0x00FF, w & 0xFF00] {
                if v != w {
                    let mut cand = cur.single.clone();
                    cand.st.w[i] = v;
                    if let Some(f2) = still(model, &cand) {
                        cur = f2;
                        cur.single = cand;
                        changed = true;
                        break;
                    }
                }
            }
        }
        for which in 0..4 {
            let mut cand = cur.single.clone();
            match which {
                0 => cand.st.q = 0,
                1 => cand.st.lq = 0,
                2 => cand.st.im = 0,
                _ => cand.io.clear(),
            }
            if cand.st != cur.single.st || cand.io != cur.single.io {
                if let Some(f2) = still(model, &cand) {
                    cur = f2;
                    cur.single = cand;
                    changed = true;
                }
            }
        }
        for bit in [FF_IFF1, FF_IFF2, FF_HALTED, FF_SKIP] {
            if cur.single.st.ff & bit != 0 {
                let mut cand = cur.single.clone();
                cand.st.ff &= !bit;
                if let Some(f2) = still(model, &cand) {
                    cur = f2;
                    cur.single = cand;
                    changed = true;
                }
            }
        }
        // overlay entries the failure does not need (seed 0 pattern takes over)
        let mut i = 0;
        while i < cur.single.mem.len() {
            let mut cand = cur.single.clone();
            cand.mem.remove(i);
            if let Some(f2) = still(model, &cand) {
                cur = f2;
                cur.single = cand;
                changed = true;
            } else {
                i += 1;
            }
        }
        // operand bytes in memory towards zero (never the first byte at PC: it names the opcode)
        let n = cur.single.mem.len();
        for i in 0..n {
            let (a, bs) = cur.single.mem[i].clone();
            if bs.len() == 1 && bs[0] != 0 && a != cur.single.st.w[PC] {
                let mut cand = cur.single.clone();
                cand.mem[i].1[0] = 0;
                if let Some(f2) = still(model, &cand) {
                    cur = f2;
                    cur.single = cand;
                    changed = true;
                }
            }
        }
    }
    cur
}

pub fn record(model: &mut Model, rep: &mut Report, mode: Mode, f: Failure) {
    let key = key_of(mode, &f);
    if rep.has_key(&key) {
        rep.count("repeat_violations", key);
        return;
    }
    let f = shrink(model, mode, f);
    // what rustzx's own MEMPTR arithmetic (Variant.code of the model) predicts, for the report
    let code_variant = model.ask(&f.single.first_line("c"));
    let what = format!(
        "{} at pc={:04x}: {} is {} in rustzx, {} on the Z80 reference (state: {}; memory: {})",
        f.label,
        f.single.st.w[PC],
        f.diff.field,
        f.diff.implementation,
        f.diff.expected,
        f.single.st.text(),
        f.single.mem_text()
    );
    rep.violation(Violation {
        kind: Kind::SpecViolated,
        key,
        what,
        correspondence: format!(
            "corr.{}.z80.step (Z80::emulate vs ZxVerif.Z80.emulate Variant.hw on the recording bus); code-variant model says: {}",
            mode.id(),
            code_variant
        ),
        case: J::obj(vec![("text", J::s(f.single.text()))]),
        implementation: f.diff.implementation.clone(),
        expected: f.diff.expected.clone(),
    });
}

// ---------------------------------------------------------------------------------------------
// generators
// ---------------------------------------------------------------------------------------------

pub const PAGES: [&str; 7] = ["", "cb", "ed", "dd", "fd", "ddcb", "fdcb"];

pub fn edge8(rng: &mut Rng) -> u8 {
    if rng.chance(1, 2) {
        rng.u8()
    } else {
        *rng.pick(&[0x00, 0xFF, 0x7F, 0x80, 0x01, 0x0F, 0x10, 0xFE])
    }
}

pub fn edge16(rng: &mut Rng) -> u16 {
    ((edge8(rng) as u16) << 8) | edge8(rng) as u16
}

pub fn random_state(rng: &mut Rng) -> St {
    let mut st = St::default();
    for i in 0..14 {
        st.w[i] = edge16(rng);
    }
    if rng.chance(1, 12) {
        st.w[PC] = 0xFFFC + rng.below(4) as u16;
    }
    if rng.chance(1, 12) {
        st.w[SP] = *rng.pick(&[0x0000, 0x0001, 0x0002, 0xFFFF]);
    }
    st.q = if rng.bool() { st.f() } else { rng.u8() };
    st.lq = edge8(rng);
    st.ff = (rng.u8() & 3) | if rng.chance(1, 8) { FF_HALTED } else { 0 } | if rng.chance(1, 8) { FF_SKIP } else { 0 };
    st.im = rng.below(3) as u8;
    st.ap = 0;
    st
}

/// state kinds of the exhaustive sweep; the first nine force the timing/flag variants
pub const STATE_KINDS: [&str; 9] = [
    "f=00", "f=ff", "b=1", "b=2", "bc=1", "bc=2", "a=(hl)", "all-zero", "all-ff",
];

/// One single-step case for encoding (page, op) and state kind `kind` (>= 9: random).
pub fn sweep_case(rng: &mut Rng, page: usize, op: u8, kind: usize) -> Case {
    let mut st = random_state(rng);
    match kind {
        0 => st.w[AF] &= 0xFF00,
        1 => st.w[AF] |= 0x00FF,
        2 => st.w[BC] = 0x0100 | (st.w[BC] & 0xFF),
        3 => st.w[BC] = 0x0200 | (st.w[BC] & 0xFF),
        4 => st.w[BC] = 1,
        5 => st.w[BC] = 2,
        7 => {
            let pc = st.w[PC];
            st = St::default();
            st.w[PC] = pc;
        }
        8 => {
            let pc = st.w[PC];
            for i in 0..14 {
                st.w[i] = 0xFFFF;
            }
            st.w[PC] = pc;
            st.q = 0xFF;
            st.lq = 0xFF;
            st.ff = 3;
        }
        _ => {}
    }
    let d = match kind {
        7 => 0xFF,
        8 => 0x00,
        _ => edge8(rng),
    };
    let mut code: Vec<u8> = match page {
        0 => vec![op],
        1 => vec![0xCB, op],
        2 => vec![0xED, op],
        3 => vec![0xDD, op],
        4 => vec![0xFD, op],
        5 => vec![0xDD, 0xCB, d, op],
        _ => vec![0xFD, 0xCB, d, op],
    };
    let first_operand = code.len();
    if page == 3 || page == 4 {
        code.push(d);
    }
    while code.len() < first_operand + 3 {
        // all-zero registers meet FF operand bytes and vice versa (carries out of every byte)
        code.push(match kind {
            7 => 0xFF,
            8 => 0x00,
            _ => edge8(rng),
        });
    }
    // sometimes the prefix is pending from the previous call instead of sitting in memory
    if page >= 1 && kind % 6 == 5 {
        st.ap = match code[0] {
            0xCB => 1,
            0xDD => 2,
            0xED => 3,
            _ => 4,
        };
        code.remove(0);
        st.ff |= FF_SKIP;
    }
    let mut mem = vec![(st.w[PC], code)];
    if kind == 6 {
        // A = (HL) = (IX+d) = (IY+d): the "found" outcome of CPI/CPD/CPIR/CPDR, equal operands elsewhere
        let a = st.a();
        let dd = d as i8 as i16 as u16;
        mem.push((st.w[HL], vec![a]));
        mem.push((st.w[IX].wrapping_add(dd), vec![a]));
        mem.push((st.w[IY].wrapping_add(dd), vec![a]));
        // keep the instruction bytes on top
        let code = mem.remove(0);
        mem.push(code);
    }
    Case { st, seed: rng.next() as u32 & 0xFFFF, io: vec![edge8(rng)], mem, steps: vec![Step { lines: 0, bus: 0xFF }] }
}

/// a random instruction encoding (all seven pages)
pub fn random_instr(rng: &mut Rng) -> Vec<u8> {
    let op = rng.u8();
    let mut v = match rng.below(12) {
        0..=4 => vec![op],
        5 => vec![0xCB, op],
        6 | 7 => vec![0xED, if rng.bool() { 0x40 + (op & 0x7F) } else { op }],
        8 => vec![0xDD, op],
        9 => vec![0xFD, op],
        10 => vec![0xDD, 0xCB, edge8(rng), op],
        _ => vec![0xFD, 0xCB, edge8(rng), op],
    };
    for _ in 0..2 {
        v.push(edge8(rng));
    }
    v
}

/// random instruction sequence with carried state (no interrupts)
pub fn sequence_case(rng: &mut Rng) -> Case {
    let mut st = random_state(rng);
    st.ff &= !FF_HALTED;
    let mut code = vec![];
    let n = rng.range(2, 12) as usize;
    for _ in 0..n {
        code.extend(random_instr(rng));
    }
    let io: Vec<u8> = (0..rng.below(3)).map(|_| edge8(rng)).collect();
    Case {
        st: st.clone(),
        seed: rng.next() as u32 & 0xFFFF,
        io,
        mem: vec![(st.w[PC], code)],
        steps: vec![Step { lines: 0, bus: 0xFF }; n],
    }
}

/// Interrupt-entry cases (used by C03 for the 13/19/11 totals and by C02).
pub fn int_entry_case(rng: &mut Rng, im: u8, nmi: bool, halted: bool) -> Case {
    let mut st = random_state(rng);
    st.im = im;
    st.ff = FF_IFF1 | (rng.u8() & FF_IFF2) | if halted { FF_HALTED } else { 0 };
    st.ap = 0;
    let mut mem = vec![];
    if halted {
        mem.push((st.w[PC], vec![0x76]));
    }
    // a NOP at the three possible targets keeps the instruction part of the step at 4 T
    mem.push((0x0038, vec![0x00]));
    mem.push((0x0066, vec![0x00]));
    let bus = edge8(rng);
    let vec_addr = (st.w[IR] & 0xFF00) | bus as u16;
    let target = 0x4000 + (rng.u16() & 0x3FFF);
    mem.push((vec_addr, vec![target as u8]));
    mem.push((vec_addr.wrapping_add(1), vec![(target >> 8) as u8]));
    mem.push((target, vec![0x00]));
    Case {
        st,
        seed: rng.next() as u32 & 0xFFFF,
        io: vec![],
        mem,
        steps: vec![Step { lines: if nmi { 2 } else { 1 }, bus }],
    }
}

// ---------------------------------------------------------------------------------------------
// the shared sweep (C01 and C03 differ only in what `diff` compares)
// ---------------------------------------------------------------------------------------------

thread_local! {
    /// (label, T-states) classes seen so far, kept to check afterwards that every timing variant was reached
    static SEEN: std::cell::RefCell<std::collections::BTreeSet<String>> = std::cell::RefCell::new(Default::default());
}

/// every timing variant the property names must have been observed on the real code
fn variant_coverage(rep: &mut Report) {
    let mut want: Vec<String> = vec![];
    for op in ["edb0", "edb8", "edb1", "edb9", "edb2", "edba", "edb3", "edbb"] {
        want.push(format!("{} T=16", op));
        want.push(format!("{} T=21", op));
    }
    want.push("10 T=8".into());
    want.push("10 T=13".into());
    for op in [0x20u8, 0x28, 0x30, 0x38] {
        want.push(format!("{:02x} T=7", op));
        want.push(format!("{:02x} T=12", op));
    }
    for y in 0..8u8 {
        want.push(format!("{:02x} T=5", 0xC0 | (y << 3)));
        want.push(format!("{:02x} T=11", 0xC0 | (y << 3)));
        want.push(format!("{:02x} T=10", 0xC4 | (y << 3)));
        want.push(format!("{:02x} T=17", 0xC4 | (y << 3)));
    }
    for (l, t) in [("ddcb46", 20), ("fdcb7e", 20), ("ddcb06", 23), ("fdcbfe", 23), ("dd34", 23), ("fd36", 19), ("dd7e", 19),
        ("cb46", 12), ("cb06", 15), ("e3", 19), ("dde3", 23), ("nmi", 15), ("int-im0", 17), ("int-im1", 17), ("int-im2", 23)]
    {
        want.push(format!("{} T={}", l, t));
    }
    let missing: Vec<J> = SEEN.with(|s| {
        let s = s.borrow();
        want.iter().filter(|w| !s.contains(*w)).map(|w| J::s(w.clone())).collect()
    });
    if !missing.is_empty() {
        rep.notes.push("generator weakness: some timing variants were not reached in this run (see timing_variants_missing)".into());
    }
    rep.extra.push(("timing_variants_checked".into(), J::I(want.len() as i64)));
    rep.extra.push(("timing_variants_missing".into(), J::A(missing)));
}

pub fn run_batch(model: &mut Model, rep: &mut Report, mode: Mode, cases: &[Case], hist: &str) {
    let mut lines = vec![];
    for c in cases {
        lines.extend(c.lines());
    }
    let answers = model.ask_many(&lines);
    let mut k = 0;
    let mut failures = vec![];
    for c in cases {
        let n = c.steps.len();
        let r = check_case(mode, c, &answers[k..k + n], &mut |_, label, _pre, _post, evs| {
            rep.eval();
            let t: u64 = evs.iter().map(|e| ev_tstates(e)).sum();
            rep.class(format!("{} T={}", label, t));
            SEEN.with(|s| s.borrow_mut().insert(format!("{} T={}", label, t)));
            rep.count(hist, format!("T={:02}", t));
        });
        k += n;
        if let Some(f) = r {
            failures.push(f);
        }
    }
    for f in failures {
        record(model, rep, mode, f);
    }
}


const TABLE_NAMES: [(&str, usize); 8] = [
    ("HALF_CARRY_ADD_TABLE", 8),
    ("HALF_CARRY_SUB_TABLE", 8),
    ("OVERFLOW_ADD_TABLE", 8),
    ("OVERFLOW_SUB_TABLE", 8),
    ("PARITY_TABLE", 256),
    ("F3F5_TABLE", 256),
    ("SZF3F5_TABLE", 256),
    ("SZPF3F5_TABLE", 256),
];

/// `pub const NAME: [u8; N] = [ ... ];` out of tables/mod.rs; None if the text cannot be located
fn parse_table(src: &str, name: &str, n: usize) -> Option<Vec<u8>> {
    let head = format!("pub const {}: [u8; {}] = [", name, n);
    let start = src.find(&head)? + head.len();
    let end = start + src[start..].find("];")?;
    let mut vals = vec![];
    for tok in src[start..end].split(',') {
        let t = tok.trim();
        if t.is_empty() {
            continue;
        }
        let t = t.strip_prefix("0x").or_else(|| t.strip_prefix("0X"))?;
        vals.push(u8::from_str_radix(t, 16).ok()?);
    }
    if vals.len() == n {
        Some(vals)
    } else {
        None
    }
}

/// Textual tie (DESIGN 3b): the flag tables in the working tree against the committed Lean copy the
/// table theorems are proved about. A table that cannot be located is skipped (never an alarm);
/// a located table that differs makes the run add the exhaustive operand sweeps.
pub fn table_tie(rep: &mut Report, model: &mut Model) -> bool {
    let path = ".cache/repo/rustzx-z80/src/tables/mod.rs";
    let mut used = vec![];
    let mut skipped = vec![];
    let mut differing = vec![];
    let lean: Vec<Vec<u8>> = model.ask("t").split(' ').map(unhex).collect();
    match std::fs::read_to_string(path) {
        Ok(src) if lean.len() == 8 => {
            for (i, (name, n)) in TABLE_NAMES.iter().enumerate() {
                match parse_table(&src, name, *n) {
                    None => skipped.push(J::s(*name)),
                    Some(vals) => {
                        used.push(J::s(*name));
                        for k in 0..*n {
                            if lean[i].get(k) != Some(&vals[k]) {
                                differing.push(J::s(format!("{}[{}]", name, k)));
                            }
                        }
                    }
                }
            }
        }
        _ => {
            for (name, _) in TABLE_NAMES.iter() {
                skipped.push(J::s(*name));
            }
        }
    }
    let differs = !differing.is_empty();
    rep.extra.push((
        "extractor".into(),
        J::obj(vec![
            ("source", J::s(path)),
            ("used", J::A(used)),
            ("skipped", J::A(skipped)),
            ("differs_from_committed_copy", J::A(differing)),
        ]),
    ));
    if differs {
        rep.notes.push(
            "flag tables in the working tree differ from lean/ZxVerif/Extracted/Z80Tables.lean: the table theorems \
speak about the committed copy; exhaustive operand sweeps added to this run"
                .into(),
        );
    }
    differs
}

/// Exhaustive operand spaces of the table-driven instructions: 8 ALU ops x A x operand x carry,
/// INC/DEC x operand x F, CB rotates x operand x carry, DAA x A x (N,H,C), NEG x A, CPI x A x (HL),
/// ADC/SBC HL over boundary-rich 16-bit operands.
pub fn exhaustive_operands(model: &mut Model, rep: &mut Report, mode: Mode) {
    let base = |pc: u16| {
        let mut st = St::default();
        st.w[PC] = pc;
        st.w[SP] = 0xF000;
        st
    };
    let one = |st: St, code: Vec<u8>, extra: Vec<(u16, Vec<u8>)>| {
        let mut mem = extra;
        mem.push((st.w[PC], code));
        Case { st, seed: 0, io: vec![], mem, steps: vec![Step { lines: 0, bus: 0xFF }] }
    };
    let mut batch: Vec<Case> = vec![];
    let mut flush = |batch: &mut Vec<Case>, model: &mut Model, rep: &mut Report, force: bool| {
        if batch.len() >= 512 || (force && !batch.is_empty()) {
            run_batch(model, rep, mode, batch, "tstates_exhaustive_operands");
            batch.clear();
        }
    };
    for op in 0..8u8 {
        for a in 0..=255u8 {
            for b in 0..=255u8 {
                for c in 0..2u8 {
                    let mut st = base(0x8000);
                    st.w[AF] = ((a as u16) << 8) | c as u16;
                    st.w[BC] = (b as u16) << 8;
                    batch.push(one(st, vec![0x80 | (op << 3)], vec![]));
                    flush(&mut batch, model, rep, false);
                }
            }
        }
    }
    for x in 0..=255u8 {
        for f in [0x00u8, 0xFF, 0x01, 0xD7] {
            for opc in [0x04u8, 0x05] {
                let mut st = base(0x8000);
                st.w[AF] = f as u16;
                st.w[BC] = (x as u16) << 8;
                batch.push(one(st, vec![opc], vec![]));
            }
            for k in 0..8u8 {
                let mut st = base(0x8000);
                st.w[AF] = f as u16;
                st.w[BC] = (x as u16) << 8;
                batch.push(one(st, vec![0xCB, k << 3], vec![]));
            }
            for opc in [0x07u8, 0x0F, 0x17, 0x1F, 0x2F, 0x37, 0x3F] {
                let mut st = base(0x8000);
                st.w[AF] = ((x as u16) << 8) | f as u16;
                st.lq = f ^ 0x28;
                batch.push(one(st, vec![opc], vec![]));
            }
            flush(&mut batch, model, rep, false);
        }
        for nhc in 0..8u8 {
            let f = ((nhc & 1) * 0x01) | (((nhc >> 1) & 1) * 0x10) | (((nhc >> 2) & 1) * 0x02);
            let mut st = base(0x8000);
            st.w[AF] = ((x as u16) << 8) | f as u16;
            batch.push(one(st, vec![0x27], vec![]));
        }
        let mut st = base(0x8000);
        st.w[AF] = (x as u16) << 8;
        batch.push(one(st, vec![0xED, 0x44], vec![]));
        for m in 0..=255u8 {
            let mut st = base(0x8000);
            st.w[AF] = (x as u16) << 8;
            st.w[HL] = 0x9000;
            st.w[BC] = 0x0002;
            batch.push(one(st, vec![0xED, 0xA1], vec![(0x9000, vec![m])]));
            flush(&mut batch, model, rep, false);
        }
    }
    flush(&mut batch, model, rep, true);
}

/// 16-bit arithmetic at the operand boundaries where carry/half-carry/overflow/zero change — every
/// register-pair form of ADD/ADC/SBC HL (and ADD IX/IY), both carries. Runs in every tier: a random
/// operand pair hits e.g. HL + rr + CF = 0x10000 with probability 2^-16.
pub fn boundary16(model: &mut Model, rep: &mut Report, mode: Mode) {
    let edges: [u16; 14] = [
        0x0000, 0x0001, 0x00FF, 0x0100, 0x07FF, 0x0800, 0x0FFF, 0x1000, 0x7FFF, 0x8000, 0x8001, 0xEFFF, 0xF000, 0xFFFF,
    ];
    let mut batch: Vec<Case> = vec![];
    let mut codes: Vec<Vec<u8>> = vec![];
    for opc in [0x42u8, 0x52, 0x62, 0x72, 0x4A, 0x5A, 0x6A, 0x7A] {
        codes.push(vec![0xED, opc]);
    }
    for opc in [0x09u8, 0x19, 0x29, 0x39] {
        codes.push(vec![opc]);
        codes.push(vec![0xDD, opc]);
        codes.push(vec![0xFD, opc]);
    }
    for &h in edges.iter() {
        for &r in edges.iter() {
            for c in 0..2u16 {
                for code in &codes {
                    let mut st = St::default();
                    st.w[PC] = 0x8000;
                    st.w[AF] = c | if (h ^ r) & 1 == 1 { 0xFF00 } else { 0 };
                    st.w[HL] = h;
                    st.w[IX] = h;
                    st.w[IY] = h;
                    st.w[BC] = r;
                    st.w[DE] = r;
                    st.w[SP] = r;
                    batch.push(Case { st, seed: 0, io: vec![], mem: vec![(0x8000, code.clone())], steps: vec![Step { lines: 0, bus: 0xFF }] });
                }
            }
            if batch.len() >= 512 {
                run_batch(model, rep, mode, &batch, "tstates_boundary16");
                batch.clear();
            }
        }
    }
    if !batch.is_empty() {
        run_batch(model, rep, mode, &batch, "tstates_boundary16");
    }
}

pub fn sweep(o: &Opts, mode: Mode, rep: &mut Report, model: &mut Model) {
    boundary16(model, rep, mode);
    let mut rng = Rng::new(o.seed ^ 0xC01);
    let tables_differ = table_tie(rep, model);
    if o.thorough() || tables_differ {
        exhaustive_operands(model, rep, mode);
    }
    let random_states = o.n(13, 400) as usize;
    let kinds = STATE_KINDS.len() + random_states;
    // 1. all 1792 encodings x state kinds
    for page in 0..7 {
        for opn in 0..256usize {
            let mut cases = Vec::with_capacity(kinds);
            for kind in 0..kinds {
                cases.push(sweep_case(&mut rng, page, opn as u8, kind));
            }
            run_batch(model, rep, mode, &cases, "tstates_single_step");
            rep.count_n("encodings_by_page", if page == 0 { "none" } else { PAGES[page] }, 1);
        }
    }
    rep.sample(J::s(sweep_case(&mut rng, 2, 0xB0, 5).text()));
    rep.sample(J::s(sweep_case(&mut rng, 5, 0x46, 6).text()));
    // 2. instruction sequences with carried state
    let seqs = o.n(2000, 200_000);
    let mut batch = vec![];
    for s in 0..seqs {
        let c = sequence_case(&mut rng);
        rep.count("sequence_length", format!("{:02}", c.steps.len()));
        if s == 0 {
            rep.sample(J::s(c.text()));
        }
        batch.push(c);
        if batch.len() == 64 || s + 1 == seqs {
            run_batch(model, rep, mode, &batch, "tstates_in_sequences");
            batch.clear();
        }
    }
    // 2b. every encoding followed by SCF / CCF: the Q latch observed through the architected flags
    // (bits 5/3 of F after SCF/CCF are ((lastQ ^ F) | A) & 0x28), not only through the hook
    {
        let mut batch = vec![];
        for page in 0..7 {
            for opn in 0..256usize {
                for follow in [0x37u8, 0x3F] {
                    let mut c = sweep_case(&mut rng, page, opn as u8, 9);
                    c.st.ap = c.st.ap.min(4);
                    // where does the instruction leave PC? ask the real code, then plant SCF/CCF there
                    let mut probe = Real::new(&c);
                    if let Ok((post, _)) = probe.step(&c.steps[0]) {
                        if post.ap == 0 {
                            c.mem.insert(0, (post.w[PC], vec![follow]));
                            c.steps.push(Step { lines: 0, bus: 0xFF });
                        }
                    }
                    batch.push(c);
                }
                if batch.len() >= 128 {
                    run_batch(model, rep, mode, &batch, "tstates_followed_by_scf_ccf");
                    batch.clear();
                }
            }
        }
        run_batch(model, rep, mode, &batch, "tstates_followed_by_scf_ccf");
    }
    // 3. interrupt entry (cycle totals 13 / 19 / 11; HALT release)
    let mut cases = vec![];
    for _ in 0..o.n(40, 2000) {
        for im in 0..3u8 {
            for nmi in [false, true] {
                for halted in [false, true] {
                    cases.push(int_entry_case(&mut rng, im, nmi, halted));
                }
            }
        }
    }
    run_batch(model, rep, mode, &cases, "tstates_interrupt_entry");
    variant_coverage(rep);
    rep.extra.push(("encodings".into(), J::I(1792)));
    rep.extra.push(("states_per_encoding".into(), J::I(kinds as i64)));
    rep.extra.push(("sequences".into(), J::I(seqs as i64)));
    rep.extra.push(("model_requests".into(), J::I(model.requests as i64)));
}

pub fn replay(o: &Opts, mode: Mode, rep: &mut Report, model: &mut Model, text: &str) {
    match Case::parse(text) {
        Some(c) => {
            rep.sample(J::s(c.text()));
            let _ = o;
            let r = run_case(model, mode, &c, &mut |_, label, _, _, evs| {
                let t: u64 = evs.iter().map(|e| ev_tstates(e)).sum();
                rep.eval();
                rep.class(format!("{} T={}", label, t));
            });
            if let Some(f) = r {
                record(model, rep, mode, f);
            }
        }
        None => rep.notes.push(format!("cannot parse replay case: {}", text)),
    }
}

pub fn run(o: &Opts) -> Report {
    let mut rep = Report::new("C01");
    rep.rule = "all 1792 opcode encodings (256 x {none,CB,ED,DD,FD,DDCB,FDCB}) x 9 forced start states (F=00, F=FF, \
B=1, B=2, BC=1, BC=2, A=(HL)=(IX+d)=(IY+d), all registers 0, all registers FF) + seeded random states with \
boundary-biased registers/operands (some with the prefix pending from a previous call), one Z80::emulate each; then \
random instruction sequences (2-12 instructions of all pages, state carried on both sides), every encoding \
followed by SCF and by CCF (Q latch seen through F), and interrupt-entry steps. Compared per step: every register incl. alternates, I, R, IFF1/2, IM, MEMPTR, Q, lastQ, halted, \
skip_interrupt, pending prefix, and the ordered memory/port reads and writes with addresses and data. \
distinct/non-trivial = distinct (encoding or interrupt kind, T-states consumed) pairs observed on the real code \
in agreeing steps"
        .into();
    let mut model = Model::spawn(&o.model, "C01");
    if let Some(text) = &o.replay {
        replay(o, Mode::C01, &mut rep, &mut model, text);
        return rep;
    }
    sweep(o, Mode::C01, &mut rep, &mut model);
    rep
}
