//! C02 — interrupt, NMI, HALT and prefix sequencing follow the Z80 rules.
//! Uses the recording bus, real-code runner and Lean driver of C01 (harness/src/c01.rs) with scripted
//! INT/NMI line levels and interrupt bus bytes per instruction boundary. Two things are checked at
//! every boundary: (1) the real code's complete post-state and bus trace equal the reference model's,
//! (2) the property's own predicates hold on the real observations (independent of the model).
use crate::c01::*;
use crate::util::*;

/// instructions that matter for sequencing
const SEQ_ITEMS: [&[u8]; 30] = [
    &[0xFB],             // EI
    &[0xFB],
    &[0xF3],             // DI
    &[0x76],             // HALT
    &[0x76],
    &[0x00],
    &[0xDD],
    &[0xFD],
    &[0xDD, 0xDD],
    &[0xFD, 0xDD, 0xFD],
    &[0xDD, 0xFD, 0xED],
    &[0xED, 0x45],       // RETN and its seven mirrors (ED 4D = RETI)
    &[0xED, 0x4D],
    &[0xED, 0x55],
    &[0xED, 0x5D],
    &[0xED, 0x65],
    &[0xED, 0x6D],
    &[0xED, 0x75],
    &[0xED, 0x7D],
    &[0xED, 0x46],       // IM 0/1/2 and mirrors
    &[0xED, 0x56],
    &[0xED, 0x5E],
    &[0xED, 0x4E],
    &[0xED, 0x76],
    &[0xED, 0x7E],
    &[0xED, 0x57],       // LD A,I (PV = IFF2)
    &[0xED, 0x5F],       // LD A,R
    &[0xDD, 0x76],       // prefixed HALT
    &[0xC9],             // RET
    &[0x3C],             // INC A
];

fn seq_program(rng: &mut Rng, n: usize) -> Vec<u8> {
    let mut v = vec![];
    for _ in 0..n {
        if rng.chance(1, 6) {
            v.extend(random_instr(rng));
        } else {
            { let it: &[u8] = *rng.pick(&SEQ_ITEMS[..]); v.extend_from_slice(it); }
        }
    }
    v
}

/// memory furniture: short service routines at 0x0038 / 0x0066 and an IM 2 table at I = 0x80
fn furniture(rng: &mut Rng, mem: &mut Vec<(u16, Vec<u8>)>) {
    let isr = |rng: &mut Rng| -> Vec<u8> {
        let mut v = vec![];
        for _ in 0..rng.range(0, 2) {
            { let it: &[u8] = *rng.pick(&SEQ_ITEMS[..]); v.extend_from_slice(it); }
        }
        v.extend_from_slice(*rng.pick(&[&[0xFB, 0xED, 0x4D][..], &[0xED, 0x45][..], &[0xFB, 0xC9][..], &[0xC9][..]]));
        v
    };
    let a = isr(rng);
    let b = isr(rng);
    let c = isr(rng);
    mem.push((0x0038, a));
    mem.push((0x0066, b));
    mem.push((0x8000, vec![0x91; 258]));
    mem.push((0x9191, c));
}

fn schedule(rng: &mut Rng, n: usize) -> Vec<Step> {
    let mut v = vec![];
    let mut int = false;
    for _ in 0..n {
        if rng.chance(1, 3) {
            int = !int;
        }
        let nmi = rng.chance(1, 14);
        v.push(Step { lines: (int as u8) | ((nmi as u8) << 1), bus: edge8(rng) });
    }
    v
}

fn program_case(rng: &mut Rng) -> Case {
    let mut st = random_state(rng);
    st.w[PC] = 0x1000 + (rng.u16() % 0x6000);
    if rng.bool() {
        st.w[IR] = 0x8000 | (st.w[IR] & 0xFF);
    } else if rng.chance(1, 4) {
        st.w[IR] = 0xFF00 | (st.w[IR] & 0xFF);
    }
    if rng.chance(2, 3) {
        st.w[SP] = 0xA000 + (rng.u16() & 0x0FFF);
    }
    st.ff = rng.u8() & 0x0F;
    if rng.chance(1, 2) {
        st.ff &= !FF_HALTED;
    }
    st.im = rng.below(3) as u8;
    st.ap = if rng.chance(1, 5) { rng.range(1, 4) as u8 } else { 0 };
    if st.ap != 0 && rng.chance(4, 5) {
        st.ff |= FF_SKIP; // the reachable combination
    }
    let n = rng.range(4, 28) as usize;
    let mut mem = vec![];
    furniture(rng, &mut mem);
    let mut prog = seq_program(rng, n);
    if st.ff & FF_HALTED != 0 {
        prog.insert(0, 0x76);
    }
    mem.push((st.w[PC], prog));
    Case { st, seed: rng.next() as u32 & 0xFFFF, io: vec![], mem, steps: schedule(rng, n) }
}

/// Chains of three and more DD/FD prefixes (with an ED or CB in the end now and then) in front of an opcode, the
/// INT line active at every boundary, IFF1 set: nothing may be accepted before the chain's instruction is over.
fn chain_cases(rng: &mut Rng, n: usize) -> Vec<Case> {
    let mut v = vec![];
    for k in 0..n {
        let mut st = random_state(rng);
        st.w[PC] = 0x1000 + (rng.u16() % 0x6000);
        if rng.bool() {
            st.w[IR] = 0x8000 | (st.w[IR] & 0xFF);
        }
        st.w[SP] = 0xA000 + (rng.u16() & 0x0FFF);
        st.ff = 0x03; // IFF1, IFF2
        st.ap = 0;
        st.im = rng.below(3) as u8;
        let len = 3 + (k % 6);
        let mut code: Vec<u8> = (0..len).map(|_| if rng.bool() { 0xDD } else { 0xFD }).collect();
        match rng.below(6) {
            0 => code.extend_from_slice(&[0x00]),
            1 => code.extend_from_slice(&[0x21, 0x34, 0x12]),
            2 => code.extend_from_slice(&[0x34, 0x02]),
            3 => code.extend_from_slice(&[0xED, 0x44]),
            4 => code.extend_from_slice(&[0xCB, 0x01, 0x06]),
            _ => code.extend_from_slice(&[0xFB]),
        }
        code.extend_from_slice(&[0x00, 0x00, 0x3C, 0x00]);
        let mut mem = vec![];
        furniture(rng, &mut mem);
        mem.push((st.w[PC], code));
        // the line is held from the first boundary on in most cases, raised inside the chain in the others
        let rise = if rng.chance(2, 3) { 0 } else { rng.below(len as u64) as usize };
        let steps: Vec<Step> = (0..len + 4).map(|i| Step { lines: if i >= rise { 1 } else { 0 }, bus: edge8(rng) }).collect();
        v.push(Case { st, seed: rng.next() as u32 & 0xFFFF, io: vec![], mem, steps });
    }
    v
}

/// every control state x every line combination x a list of boundary instructions, one step each
fn matrix_cases(rng: &mut Rng) -> Vec<Case> {
    let firsts: [&[u8]; 14] = [
        &[0x00],
        &[0xFB],
        &[0xF3],
        &[0x76],
        &[0xDD, 0x00],
        &[0xFD, 0xDD],
        &[0xDD, 0xED],
        &[0xED, 0x45],
        &[0xED, 0x4D],
        &[0xED, 0x5E],
        &[0xCB, 0x47],
        &[0xDD, 0xCB, 0x01, 0x46],
        &[0xC9],
        &[0xED, 0x57],
    ];
    let mut v = vec![];
    for ff in 0..16u8 {
        for ap in 0..5u8 {
            for im in 0..3u8 {
                for lines in 0..4u8 {
                    for first in firsts.iter() {
                        let mut st = random_state(rng);
                        st.w[PC] = 0x1000 + (rng.u16() % 0x6000);
                        if rng.bool() {
                            st.w[IR] = 0x8000 | (st.w[IR] & 0xFF);
                        } else if rng.chance(1, 3) {
                            // the vector table at the very top of memory: with bus byte 0xFF the entry is 0xFFFF/0x0000
                            st.w[IR] = 0xFF00 | (st.w[IR] & 0xFF);
                        }
                        st.ff = ff;
                        st.ap = ap;
                        st.im = im;
                        let mut mem = vec![];
                        furniture(rng, &mut mem);
                        let mut code = first.to_vec();
                        if ff & FF_HALTED != 0 && rng.chance(3, 4) {
                            code = vec![0x76];
                        }
                        code.extend_from_slice(&[edge8(rng), edge8(rng)]);
                        mem.push((st.w[PC], code));
                        v.push(Case {
                            st,
                            seed: rng.next() as u32 & 0xFFFF,
                            io: vec![],
                            mem,
                            steps: vec![Step { lines, bus: edge8(rng) }],
                        });
                    }
                }
            }
        }
    }
    v
}

struct Acc {
    int: bool,
    nmi: bool,
    /// the two stack writes before the first opcode fetch: (addr, value)
    pushes: Vec<(u16, u8)>,
    /// address and byte of the first 4-T fetch
    fetch: Option<(u16, u8)>,
    /// bytes of the vector read after the interrupt acknowledge (IM 2)
    vector: Vec<u8>,
}

fn parse_addr_val(t: &str) -> (u16, u8) {
    let a = u16::from_str_radix(&t[1..5], 16).unwrap_or(0);
    let v = u8::from_str_radix(t.get(6..).unwrap_or("0"), 16).unwrap_or(0);
    (a, v)
}

/// what the real trace shows about interrupt acceptance
fn acceptance(evs: &[String]) -> Acc {
    let mut acc = Acc { int: false, nmi: false, pushes: vec![], fetch: None, vector: vec![] };
    let mut i = 0;
    let mut seen_k = false;
    while i < evs.len() {
        let t = &evs[i];
        if t.starts_with('M') && t.ends_with(":4") {
            let a = u16::from_str_radix(&t[1..5], 16).unwrap_or(0);
            let v = evs.get(i + 1).filter(|r| r.starts_with('R')).map(|r| parse_addr_val(r).1).unwrap_or(0);
            acc.fetch = Some((a, v));
            break;
        }
        if t.starts_with('W') {
            acc.pushes.push(parse_addr_val(t));
        }
        if t.starts_with('K') {
            seen_k = true;
        } else if seen_k && t.starts_with('R') {
            acc.vector.push(parse_addr_val(t).1);
        }
        if t == "I7" {
            acc.int = true;
        }
        i += 1;
    }
    // an NMI entry is five 1-T cycles, two stack writes, then the fetch at 0x0066, without the 7-T wait
    acc.nmi = !acc.int && acc.pushes.len() == 2 && matches!(acc.fetch, Some((0x0066, _)));
    acc
}

fn inc_r7(r: u8) -> u8 {
    (r.wrapping_add(1) & 0x7F) | (r & 0x80)
}

/// The property's predicates on one boundary of the real code. Returns (name, detail) of the first broken one.
fn predicates(label: &str, reachable: bool, pre: &St, s: &Step, post: &St, evs: &[String]) -> Option<(&'static str, String)> {
    let a = acceptance(evs);
    let iff1 = pre.ff & FF_IFF1 != 0;
    let skip = pre.ff & FF_SKIP != 0;
    let halted = pre.ff & FF_HALTED != 0;
    if a.int && !(iff1 && !skip && s.lines & 1 != 0) {
        return Some(("int-only-when-enabled", format!("INT accepted with iff1={} skip={} int-line={}", iff1, skip, s.lines & 1)));
    }
    if skip && (a.int || a.nmi) {
        return Some((
            "no-accept-after-ei-di-or-inside-prefix-chain",
            format!("{} accepted although the previous step was EI/DI or a DD/FD prefix (pending prefix {})", if a.int { "INT" } else { "NMI" }, pre.ap),
        ));
    }
    if reachable && pre.ap != 0 && (a.int || a.nmi) {
        // `reachable`: the pre-state was produced by running emulate (or satisfies the invariant
        // "pending prefix implies skip_interrupt"), not injected through the hooks
        return Some((
            "no-accept-inside-prefix-chain",
            format!("{} accepted between a prefix (pending {}) and its opcode", if a.int { "INT" } else { "NMI" }, pre.ap),
        ));
    }
    if a.int || a.nmi {
        let ret = pre.w[PC].wrapping_add(halted as u16);
        let sp = pre.w[SP];
        let want = vec![(sp.wrapping_sub(1), (ret >> 8) as u8), (sp.wrapping_sub(2), ret as u8)];
        if a.pushes != want {
            return Some(("pushes-next-instruction-address", format!("stack writes {:x?}, expected {:x?}", a.pushes, want)));
        }
        let target = if a.nmi {
            0x0066
        } else if pre.im < 2 {
            0x0038
        } else if a.vector.len() == 2 {
            u16::from_le_bytes([a.vector[0], a.vector[1]])
        } else {
            return Some(("im2-reads-vector", format!("vector bytes read: {:x?}", a.vector)));
        };
        let (fa, fb) = a.fetch.unwrap_or((0xFFFF, 0));
        if fa != target {
            return Some(("continues-at-vector", format!("first fetch at {:04x}, expected {:04x}", fa, target)));
        }
        // the first instruction of the service routine runs in the same emulate() call; flip-flop
        // predicates are evaluated unless that instruction itself changes them
        let touches_iff = matches!(fb, 0xF3 | 0xFB | 0xED | 0xDD | 0xFD);
        if !touches_iff {
            if post.ff & FF_IFF1 != 0 {
                return Some(("acceptance-clears-iff1", "IFF1 still set".into()));
            }
            if a.int && post.ff & FF_IFF2 != 0 {
                return Some(("int-clears-iff2", "IFF2 still set after INT".into()));
            }
            if a.nmi && (post.ff & FF_IFF2) != (pre.ff & FF_IFF2) {
                return Some(("nmi-preserves-iff2", "IFF2 changed by NMI".into()));
            }
        }
        if !matches!(fb, 0x76 | 0xDD | 0xFD) && post.ff & FF_HALTED != 0 {
            return Some(("acceptance-releases-halt", "still halted".into()));
        }
        return None;
    }
    // no acceptance
    if halted && pre.ap == 0 {
        if let Some((fa, 0x76)) = a.fetch {
            let mut want = pre.clone();
            want.w[IR] = (pre.w[IR] & 0xFF00) | inc_r7(pre.w[IR] as u8) as u16;
            want.lq = pre.q;
            want.q = 0;
            want.ff &= !FF_SKIP;
            let fetches = evs.iter().filter(|t| t.starts_with('M')).count();
            if fa != pre.w[PC] || *post != want || fetches != 1 {
                return Some(("halt-spins", format!("halted CPU: post {} expected {} ({} memory cycles)", post.text(), want.text(), fetches)));
            }
        }
    }
    if matches!(label, "ed45" | "ed4d" | "ed55" | "ed5d" | "ed65" | "ed6d" | "ed75" | "ed7d") {
        let iff2 = pre.ff & FF_IFF2 != 0;
        if (post.ff & FF_IFF1 != 0) != iff2 || (post.ff & FF_IFF2 != 0) != iff2 {
            return Some(("retn-reti-copy-iff2", format!("IFF2 was {}, afterwards ff={:x}", iff2, post.ff)));
        }
    }
    None
}

fn run_cases(model: &mut Model, rep: &mut Report, cases: &[Case], hist: &str) {
    let mut lines = vec![];
    for c in cases {
        lines.extend(c.lines());
    }
    let answers = model.ask_many(&lines);
    let mut k = 0;
    let mut failures = vec![];
    let mut pred_failures: Vec<(String, String, String)> = vec![];
    for c in cases {
        let n = c.steps.len();
        let r = check_case(Mode::C02, c, &answers[k..k + n], &mut |i, label, pre, post, evs| {
            rep.eval();
            let a = acceptance(evs);
            let kind = if a.int {
                "int accepted"
            } else if a.nmi {
                "nmi accepted"
            } else if c.steps[i].lines != 0 {
                "line active, not accepted"
            } else {
                "lines idle"
            };
            rep.count(hist, kind);
            let t: u64 = evs.iter().map(|e| ev_tstates(e)).sum();
            rep.class(format!("{} ff={:x} ap={} lines={} -> {} T={}", label, pre.ff, pre.ap, c.steps[i].lines, kind, t));
            let reachable = i > 0 || c.st.ap == 0 || c.st.ff & FF_SKIP != 0;
            if let Some((name, detail)) = predicates(label, reachable, pre, &c.steps[i], post, evs) {
                let mut cut = c.clone();
                cut.steps.truncate(i + 1);
                pred_failures.push((name.to_string(), format!("{} (step {}: {})", detail, i, label), cut.text()));
            }
        });
        k += n;
        if let Some(f) = r {
            failures.push(f);
        }
    }
    for (name, detail, text) in pred_failures {
        let key = format!("C02/pred={}", name);
        if rep.has_key(&key) {
            rep.count("repeat_violations", key);
            continue;
        }
        rep.violation(Violation {
            kind: Kind::SpecViolated,
            key,
            what: detail.clone(),
            correspondence: "C02 predicates on the real code's observations".into(),
            case: J::obj(vec![("text", J::s(text))]),
            implementation: detail,
            expected: format!("predicate {} holds", name),
        });
    }
    for f in failures {
        record(model, rep, Mode::C02, f);
    }
}

pub fn run(o: &Opts) -> Report {
    let mut rep = Report::new("C02");
    rep.rule = "(a) matrix, exhaustive over the control state: IFF1 x IFF2 x halted x skip_interrupt x pending prefix \
{none,CB,DD,ED,FD} x IM {0,1,2} x INT/NMI line levels {4} x 14 boundary instructions (NOP, EI, DI, HALT, DD-prefixed, \
prefix chains, RETN, RETI, IM 2, CB, DDCB, RET, LD A,I), random registers, one Z80::emulate each; (a2) chains of 3-8 DD/FD prefixes in front of an opcode with INT held active; (b) seeded random \
programs of 4-28 boundaries biased to EI/DI/HALT/prefix chains/IM n/RETN/RETI with service routines at 0038/0066 \
and an IM 2 table, scripted INT/NMI levels and bus byte per boundary, state carried. Per boundary: full post-state \
and full bus trace against the reference model, plus the property's predicates on the real observations \
(acceptance only when enabled / not after EI,DI / not inside a prefix chain; pushes, vector, IFF effects, HALT \
release; halted CPU spins; RETN/RETI copy IFF2). distinct/non-trivial = distinct (instruction or interrupt kind, \
control state, line levels, outcome, T-states)"
        .into();
    let mut model = Model::spawn(&o.model, "C01");
    if let Some(text) = &o.replay {
        match Case::parse(text) {
            Some(c) => {
                rep.sample(J::s(c.text()));
                run_cases(&mut model, &mut rep, &[c], "boundaries_replay");
            }
            None => rep.notes.push(format!("cannot parse replay case: {}", text)),
        }
        return rep;
    }
    let mut rng = Rng::new(o.seed ^ 0xC02);
    let rounds = o.n(1, 20);
    for _ in 0..rounds {
        let cases = matrix_cases(&mut rng);
        for chunk in cases.chunks(256) {
            run_cases(&mut model, &mut rep, chunk, "boundaries_matrix");
        }
    }
    let chains = chain_cases(&mut rng, o.n(240, 6000) as usize);
    for chunk in chains.chunks(64) {
        run_cases(&mut model, &mut rep, chunk, "boundaries_prefix_chains");
    }
    let programs = o.n(1500, 120_000);
    let mut batch = vec![];
    for p in 0..programs {
        let c = program_case(&mut rng);
        if p < 2 {
            rep.sample(J::s(c.text()));
        }
        batch.push(c);
        if batch.len() == 64 || p + 1 == programs {
            run_cases(&mut model, &mut rep, &batch, "boundaries_programs");
            batch.clear();
        }
    }
    rep.extra.push(("programs".into(), J::I(programs as i64)));
    rep.extra.push(("model_requests".into(), J::I(model.requests as i64)));
    rep
}
