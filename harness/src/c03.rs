//! C03 — each instruction takes the documented T-states in the documented bus cycles.
//! Same generator, real-code runner and Lean driver as C01 (harness/src/c01.rs); what is compared
//! is the ordered (kind, address, clocks) sequence of bus cycles received by the recording bus
//! and the T-state total of every step. For interrupt entry only the total and the memory cycles
//! are compared (the property fixes no order for the internal T-states there).
use crate::c01::*;
use crate::util::*;

pub fn run(o: &Opts) -> Report {
    let mut rep = Report::new("C03");
    rep.rule = "all 1792 opcode encodings x 9 forced start states that select every timing variant (F=00 and F=FF: \
every condition false/true; B=1, B=2: DJNZ and INIR/INDR/OTIR/OTDR last/repeat; BC=1, BC=2: LDIR/LDDR/CPIR/CPDR \
last/repeat; A=(HL): CPIR/CPDR found) + seeded random states, one Z80::emulate each; random instruction sequences; \
interrupt entry in IM 0/1/2 and NMI, halted or not. Compared per step: the ordered (kind, address, clocks) sequence \
of wait_mreq / wait_no_mreq / wait_internal / port cycles and the T-state total (interrupt entry: total and memory \
cycles). Plus whole-machine lock-step programs (real Emulator vs Lean machine, clock compared after every instruction). distinct/non-trivial = distinct (encoding or interrupt kind, T-states consumed) pairs"
        .into();
    let mut model = Model::spawn(&o.model, "C01");
    if let Some(text) = &o.replay {
        if text.starts_with("sys ") {
            crate::sys::replay(o, &mut rep, "C03", text);
            return rep;
        }
        replay(o, Mode::C03, &mut rep, &mut model, text);
        return rep;
    }
    sweep(o, Mode::C03, &mut rep, &mut model);
    // the same counts on the machine: the real Z80 inside the real Emulator (its bus, not a recording one) in
    // lock-step with the Lean Z80 on the Lean Spectrum bus, the frame clock compared after every instruction —
    // a cycle the machine's bus forgets to account (a write aimed at ROM, say) shows as a shorter instruction
    let ts: Vec<usize> = vec![40, 3000, 9000, 60000, 65000];
    crate::sys::lockstep(o, &mut rep, "C03", o.n(700, 40_000), &ts, &ts, false);
    rep
}
