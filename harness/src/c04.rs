//! C04 — ULA memory and I/O contention delays match the 48K/128K contention model.
//! Three layers, all against `trace <t> <ops>` of the Lean machine model (code-shaped) and spec
//! (the property's delay table and I/O patterns):
//!  (1) single memory-side bus cycles through the real wait_mreq (verif_read_mem),
//!  (2) single port cycles through the real read_io/write_io,
//!  (3) whole instructions executed by the real Z80 inside the real Emulator (one step via a
//!      break-always DebugInterface); the bus-cycle trace of the same instruction is taken from the
//!      real Z80 running on a recording bus with identical registers and memory.
use crate::host::*;
use crate::util::*;
use rustzx_z80::{Opcode, Prefix, Z80Bus, Z80};
use std::collections::HashMap;
use std::time::Duration;

fn frame_len(m128: bool) -> usize {
    if m128 {
        70908
    } else {
        69888
    }
}

#[derive(Clone, Debug, PartialEq)]
enum BusOp {
    Mem(u16, usize),
    Plain(usize),
    Io(u16),
}

fn ops_text(ops: &[BusOp]) -> String {
    ops.iter()
        .map(|o| match o {
            BusOp::Mem(a, k) => format!("m{:04x}:{:x}", a, k),
            BusOp::Plain(k) => format!("p{:x}", k),
            BusOp::Io(p) => format!("i{:04x}", p),
        })
        .collect::<Vec<_>>()
        .join(" ")
}

/// Recording bus for the real Z80: zero-filled sparse memory, logs the timing-relevant calls.
/// The provided methods (read/write/wait_loop/...) are NOT overridden.
#[derive(Default)]
struct RecBus {
    mem: HashMap<u16, u8>,
    ops: Vec<BusOp>,
    writes: Vec<u16>,
}

impl Z80Bus for RecBus {
    fn read_internal(&mut self, addr: u16) -> u8 {
        *self.mem.get(&addr).unwrap_or(&0)
    }
    fn write_internal(&mut self, addr: u16, data: u8) {
        self.writes.push(addr);
        self.mem.insert(addr, data);
    }
    fn wait_mreq(&mut self, addr: u16, clk: usize) {
        self.ops.push(BusOp::Mem(addr, clk));
    }
    fn wait_no_mreq(&mut self, addr: u16, clk: usize) {
        self.ops.push(BusOp::Mem(addr, clk));
    }
    fn wait_internal(&mut self, clk: usize) {
        self.ops.push(BusOp::Plain(clk));
    }
    fn read_io(&mut self, port: u16) -> u8 {
        self.ops.push(BusOp::Io(port));
        0xFF
    }
    fn write_io(&mut self, port: u16, _data: u8) {
        self.ops.push(BusOp::Io(port));
    }
    fn read_interrupt(&mut self) -> u8 {
        0xFF
    }
    fn reti(&mut self) {}
    fn halt(&mut self, _: bool) {}
    fn int_active(&self) -> bool {
        false
    }
    fn nmi_active(&self) -> bool {
        false
    }
    fn pc_callback(&mut self, _addr: u16) {}
    fn process_unknown_opcode(&mut self, _p: Prefix, _o: Opcode) {}
}

#[derive(Clone, Debug)]
struct Regs16 {
    pc: u16,
    sp: u16,
    af: u16,
    bc: u16,
    de: u16,
    hl: u16,
    ix: u16,
    iy: u16,
    i: u8,
}

fn set_regs(cpu: &mut Z80, r: &Regs16) {
    cpu.regs.set_pc(r.pc);
    cpu.regs.set_sp(r.sp);
    cpu.regs.set_af(r.af);
    cpu.regs.set_bc(r.bc);
    cpu.regs.set_de(r.de);
    cpu.regs.set_hl(r.hl);
    cpu.regs.set_ix(r.ix);
    cpu.regs.set_iy(r.iy);
    cpu.regs.set_i(r.i);
    cpu.regs.set_r(0);
    cpu.regs.set_iff1(false);
    cpu.regs.set_iff2(false);
    cpu.halted = false;
    cpu.skip_interrupt = false;
    cpu.regs.set_mem_ptr(0);
}

#[derive(Clone, Debug)]
enum Action {
    /// one memory-side cycle: verif_read_mem(addr, clk)
    Mreq(u16, usize),
    /// one port cycle: read or write
    Port(u16, bool),
    /// one instruction: code bytes at regs.pc
    Instr(Vec<u8>, Regs16),
}

#[derive(Clone, Debug)]
struct Case {
    /// the frame position `t` is reached by a host snapshot load (an SZX whose dwCyclesStart is `t`) on a machine
    /// that stood in the lower border and had just made a contended access there — not by time passing
    szx: bool,
    m128: bool,
    /// a host I/O extender claiming every port with A1=1 (never the paging latch) is attached (a port cycle lasts the same)
    ext: bool,
    latch: u8,
    t: usize,
    act: Action,
}

impl Case {
    fn text(&self) -> String {
        let head = format!("{}{}{} {:02x} {}", if self.m128 { 128 } else { 48 }, if self.ext { "x" } else { "" }, if self.szx { "z" } else { "" }, self.latch, self.t);
        match &self.act {
            Action::Mreq(a, k) => format!("{} mreq {:04x} {}", head, a, k),
            Action::Port(p, w) => format!("{} port {:04x} {}", head, p, *w as u8),
            Action::Instr(code, r) => format!(
                "{} instr {} {:04x} {:04x} {:04x} {:04x} {:04x} {:04x} {:04x} {:04x} {:02x}",
                head, hex(code), r.pc, r.sp, r.af, r.bc, r.de, r.hl, r.ix, r.iy, r.i
            ),
        }
    }
    fn parse(s: &str) -> Option<Case> {
        let t: Vec<&str> = s.split_whitespace().collect();
        let h = |x: &str| u16::from_str_radix(x, 16).ok();
        let szx = t.first()?.contains('z');
        let ext = t.first()?.contains('x');
        let m128 = t.first()?.trim_end_matches(|c| c == 'x' || c == 'z') == "128";
        let latch = h(t.get(1)?)? as u8;
        let tt: usize = t.get(2)?.parse().ok()?;
        let act = match *t.get(3)? {
            "mreq" => Action::Mreq(h(t.get(4)?)?, t.get(5)?.parse().ok()?),
            "port" => Action::Port(h(t.get(4)?)?, *t.get(5)? == "1"),
            "instr" => Action::Instr(
                unhex(t.get(4)?),
                Regs16 {
                    pc: h(t.get(5)?)?, sp: h(t.get(6)?)?, af: h(t.get(7)?)?, bc: h(t.get(8)?)?, de: h(t.get(9)?)?,
                    hl: h(t.get(10)?)?, ix: h(t.get(11)?)?, iy: h(t.get(12)?)?, i: h(t.get(13)?)? as u8,
                },
            ),
            _ => return None,
        };
        Some(Case { szx, m128, ext, latch, t: tt, act })
    }
}

struct Rig {
    e: Emu,
    m128: bool,
    ext: bool,
    latch: u8,
    dirty: Vec<u16>,
    poisoned: bool,
}

impl Rig {
    fn new(m128: bool, ext: bool) -> Rig {
        let mut e = emu(&Cfg::new(m128));
        if ext {
            e.set_io_extender(Ext { mask: 0x0002, val: 0x0002, read_value: 0xE7, log: vec![] });
        }
        let mut d = Dbg::default();
        d.break_all = true;
        e.set_debug_interface(d);
        Rig { e, m128, ext, latch: 0, dirty: vec![], poisoned: false }
    }

    /// moves the clock to `t` without ever going backwards inside a frame
    fn goto(&mut self, t: usize) {
        let cur = self.e.verif_frame_clocks();
        if t < cur {
            self.e.verif_wait(frame_len(self.m128) - cur);
        }
        self.e.verif_set_frame_clocks(t);
    }

    /// reaches frame position `c.t` the way the case says
    fn goto_case(&mut self, c: &Case) {
        if !c.szx {
            self.goto(c.t);
            return;
        }
        let l = frame_len(self.m128);
        self.goto(l - 3000);
        let _ = self.e.verif_read_mem(0x4000, 3);
        let _ = self.e.verif_read_io(0x40FE);
        let mut f = b"ZXST".to_vec();
        f.extend_from_slice(&[1, 4, if self.m128 { 2 } else { 1 }, 0]);
        f.extend_from_slice(b"SPCR");
        f.extend_from_slice(&8u32.to_le_bytes());
        f.extend_from_slice(&[0, self.latch & 0x1F, 0, 0, 0, 0, 0, 0]);
        f.extend_from_slice(b"Z80R");
        f.extend_from_slice(&37u32.to_le_bytes());
        let mut z = [0u8; 37];
        z[29..33].copy_from_slice(&(c.t as u32).to_le_bytes());
        f.extend_from_slice(&z);
        let _ = self.e.load_snapshot(rustzx_core::host::Snapshot::Szx(VAsset::new(f)));
        if self.e.verif_frame_clocks() != c.t {
            // the loader did not put the clock where the file says (C14's matter): fall back to the plain way
            self.goto(c.t);
        }
    }

    fn set_latch(&mut self, latch: u8) {
        if self.m128 && self.latch != latch {
            self.e.verif_write_io(0x7FFD, latch & 0x1F);
            self.latch = latch & 0x1F;
        }
    }

    /// runs the case on the real machine, returns (elapsed T-states, bus ops for the model)
    fn run(&mut self, c: &Case) -> (usize, Vec<BusOp>) {
        let l = frame_len(self.m128);
        self.set_latch(c.latch);
        match &c.act {
            Action::Mreq(a, k) => {
                self.goto_case(c);
                let f0 = self.e.verif_frames_count();
                let _ = self.e.verif_read_mem(*a, *k);
                let el = (self.e.verif_frames_count() - f0) * l + self.e.verif_frame_clocks() - c.t;
                (el, vec![BusOp::Mem(*a, *k)])
            }
            Action::Port(p, w) => {
                self.goto_case(c);
                let f0 = self.e.verif_frames_count();
                if *w {
                    // data 0 to a port that is neither ULA-border-relevant nor paging is harmless; avoid the latch
                    self.e.verif_write_io(*p, self.latch_safe_data(*p));
                } else {
                    let _ = self.e.verif_read_io(*p);
                }
                let el = (self.e.verif_frames_count() - f0) * l + self.e.verif_frame_clocks() - c.t;
                (el, vec![BusOp::Io(*p)])
            }
            Action::Instr(code, r) => {
                // clean what the previous instruction left behind, then place the code
                for a in std::mem::take(&mut self.dirty) {
                    self.e.verif_write_mem(a, 0, 0);
                }
                for (i, b) in code.iter().enumerate() {
                    let a = r.pc.wrapping_add(i as u16);
                    self.e.verif_write_mem(a, *b, 0);
                    self.dirty.push(a);
                }
                // reference trace: the real Z80 on a recording bus with the same registers and memory
                let mut bus = RecBus::default();
                for (i, b) in code.iter().enumerate() {
                    bus.mem.insert(r.pc.wrapping_add(i as u16), *b);
                }
                let mut z = Z80::default();
                set_regs(&mut z, r);
                z.emulate(&mut bus);
                // a DD/FD/ED chain leaves a pending prefix: one more step completes the instruction
                let mut steps = 1;
                while z.skip_interrupt && steps < 4 {
                    z.emulate(&mut bus);
                    steps += 1;
                }
                self.dirty.extend(bus.writes.iter().copied());
                set_regs(self.e.verif_cpu(), r);
                self.goto(c.t);
                let mut frames = 0;
                for _ in 0..steps {
                    let _ = self.e.emulate_frames(Duration::from_secs(100));
                    frames += self.e.verif_frames_count();
                }
                let el = frames * l + self.e.verif_frame_clocks() - c.t;
                // an OUT that reached the paging latch changes the map in mid-instruction: not comparable
                let (now, enabled, _) = self.e.verif_paging();
                if self.m128 && (now != self.latch || !enabled) {
                    self.latch = now;
                    self.poisoned = !enabled;
                    return (usize::MAX, bus.ops);
                }
                (el, bus.ops)
            }
        }
    }

    fn latch_safe_data(&self, _p: u16) -> u8 {
        self.latch
    }
}

fn check_case(model: &mut Model, rig: &mut Rig, c: &Case, rep: &mut Report, batch: &mut Vec<(Case, usize, Vec<BusOp>)>) {
    let _ = model;
    let _ = rep;
    if rig.poisoned {
        *rig = Rig::new(rig.m128, rig.ext);
    }
    let (el, ops) = match catch(|| rig.run(c)) {
        Ok(x) => x,
        Err(msg) => {
            // the code under test panicked on this bus cycle / instruction
            rig.poisoned = true;
            let what = match &c.act { Action::Instr(code, _) => format!("instr:{}", hex(&code[..1])), Action::Mreq(..) => "mreq".into(), Action::Port(..) => "port".into() };
            rep.violation(Violation {
                kind: Kind::SpecViolated,
                key: format!("C04/{}/{}/panic", if c.m128 { "128k" } else { "48k" }, what),
                what: format!("case {} panics inside rustzx: {}", c.text(), msg),
                correspondence: "corr.C04.timing (Model.Machine waitMreq/ioCycle/contentionClocks vs controller.rs)".into(),
                case: J::obj(vec![("text", J::s(c.text()))]),
                implementation: format!("panic: {}", msg),
                expected: "a delay of 0..6 T-states".into(),
            });
            return;
        }
    };
    if el == usize::MAX {
        rep.count("cases", "skipped: instruction wrote the paging latch");
        return;
    }
    batch.push((c.clone(), el, ops));
}

fn flush(model: &mut Model, rep: &mut Report, batch: &mut Vec<(Case, usize, Vec<BusOp>)>) {
    if batch.is_empty() {
        return;
    }
    // the model keeps machine + latch state: group requests by (machine, latch)
    let mut lines = vec![];
    let mut idx = vec![];
    let mut cur: Option<(bool, u8)> = None;
    for (c, _, ops) in batch.iter() {
        if cur != Some((c.m128, c.latch)) {
            lines.push(format!("new {}", if c.m128 { 128 } else { 48 }));
            if c.m128 {
                lines.push(format!("out {:02x}", c.latch));
            }
            cur = Some((c.m128, c.latch));
        }
        idx.push(lines.len());
        lines.push(format!("trace {:x} {}", c.t, ops_text(ops)));
    }
    let answers = model.ask_many(&lines);
    for ((c, el, ops), i) in batch.iter().zip(idx.iter()) {
        rep.eval();
        let ans = &answers[*i];
        let mut it = ans.split(' ');
        let m = usize::from_str_radix(it.next().unwrap_or("0"), 16).unwrap_or(usize::MAX);
        let s = usize::from_str_radix(it.next().unwrap_or("0"), 16).unwrap_or(usize::MAX);
        let plain: usize = ops.iter().map(|o| match o { BusOp::Mem(_, k) => *k, BusOp::Plain(k) => *k, BusOp::Io(_) => 4 }).sum();
        let kind_name = match &c.act {
            Action::Mreq(..) => "mreq".to_string(),
            Action::Port(p, w) => format!("port{}{}", if *w { "w" } else { "r" }, p & 1),
            Action::Instr(code, _) => format!("instr:{}", hex(&code[..code.len().min(if matches!(code[0], 0xDD | 0xFD | 0xED | 0xCB) { 2 } else { 1 })])),
        };
        if *el > plain {
            rep.class(format!("{} {} delay={} res={}", if c.m128 { 128 } else { 48 }, kind_name, el - plain, c.t % 8));
            rep.count("delayed", "yes");
        } else {
            rep.count("delayed", "no");
        }
        if *el != s {
            rep.violation(Violation {
                kind: Kind::SpecViolated,
                key: format!("C04/{}{}/{}/{}", if c.m128 { "128k" } else { "48k" }, if c.ext { "+ext" } else { "" }, kind_name, if *el > s { "too-slow" } else { "too-fast" }),
                what: format!("{} at frame T-state {} (latch {:02x}): took {} T, the contention model gives {} T (uncontended {} T) for bus cycles [{}]",
                    match &c.act { Action::Instr(code, _) => format!("instruction {}", hex(code)), Action::Mreq(a, k) => format!("memory cycle {:04x}:{}", a, k), Action::Port(p, _) => format!("port cycle {:04x}", p) },
                    c.t, c.latch, el, s, plain, ops_text(ops)),
                correspondence: "corr.C04.timing (Model.Machine waitMreq/ioCycle/contentionClocks vs controller.rs)".into(),
                case: J::obj(vec![("text", J::s(c.text()))]),
                implementation: format!("{}", el),
                expected: format!("{}", s),
            });
        } else if *el != m {
            rep.violation(Violation {
                kind: Kind::ModelMismatch,
                key: format!("C04/{}{}/{}/model", if c.m128 { "128k" } else { "48k" }, if c.ext { "+ext" } else { "" }, kind_name),
                what: format!("case {}: took {} T, Lean model {} T", c.text(), el, m),
                correspondence: "corr.C04.timing (Model.Machine waitMreq/ioCycle/contentionClocks vs controller.rs)".into(),
                case: J::obj(vec![("text", J::s(c.text()))]),
                implementation: format!("{}", el),
                expected: format!("{}", m),
            });
        }
    }
    batch.clear();
}

/// the frame T-states worth looking at: around the contention window edges, every residue mod 8
fn interesting_ts(m128: bool, thorough: bool, rng: &mut Rng) -> Vec<usize> {
    let (t0, line) = if m128 { (14361usize, 228usize) } else { (14335, 224) };
    let l = frame_len(m128);
    let mut v = vec![];
    for t in t0 - 12..t0 + 12 {
        v.push(t);
    }
    let lines: Vec<usize> = if thorough { (0..192).collect() } else { vec![0, 1, 2, 63, 64, 100, 127, 128, 190, 191] };
    for ln in lines {
        let cols: Vec<usize> = if thorough || ln == 1 || ln == 191 { (0..line).collect() } else { (110..150).chain(line - 16..line).collect() };
        for c in cols {
            v.push(t0 + ln * line + c);
        }
    }
    for t in t0 + 192 * line - 10..t0 + 192 * line + 140 {
        v.push(t);
    }
    for t in l - 40..l {
        v.push(t);
    }
    for t in 0..16 {
        v.push(t);
    }
    for _ in 0..200 {
        v.push(rng.below(l as u64) as usize);
    }
    v.sort();
    v.dedup();
    v
}

/// address classes: one per 16K window, edges included
const ADDRS: [u16; 10] = [0x0000, 0x3FFF, 0x4000, 0x5ABC, 0x7FFF, 0x8000, 0xBFFF, 0xC000, 0xE123, 0xFFFF];

fn instr_set(thorough: bool) -> Vec<Vec<u8>> {
    let mut v: Vec<Vec<u8>> = vec![];
    if thorough {
        for op in 0..=255u8 {
            v.push(vec![op, 0x34, 0x12]);
            v.push(vec![0xCB, op]);
            v.push(vec![0xED, op, 0x34, 0x12]);
            v.push(vec![0xDD, op, 0x05, 0x12]);
            v.push(vec![0xFD, op, 0xFB, 0x12]);
            v.push(vec![0xDD, 0xCB, 0x03, op]);
            v.push(vec![0xFD, 0xCB, 0xFD, op]);
        }
        return v;
    }
    // every distinct shape of bus-cycle pattern
    let plain: [&[u8]; 46] = [
        &[0x00], &[0x01, 0x34, 0x12], &[0x02], &[0x03], &[0x09], &[0x0A], &[0x10, 0x05], &[0x18, 0x05], &[0x20, 0x05],
        &[0x22, 0x00, 0x50], &[0x2A, 0x00, 0x50], &[0x32, 0x00, 0x60], &[0x34], &[0x36, 0x77], &[0x3A, 0x00, 0x60],
        &[0x46], &[0x70], &[0x76], &[0x86], &[0xC0], &[0xC1], &[0xC2, 0x00, 0x90], &[0xC3, 0x00, 0x90], &[0xC4, 0x00, 0x90],
        &[0xC5], &[0xC9], &[0xCD, 0x00, 0x90], &[0xD3, 0xFE], &[0xD3, 0xFF], &[0xDB, 0xFE], &[0xDB, 0xFF], &[0xE3], &[0xE9], &[0xF9], &[0xFF],
        &[0xCB, 0x06], &[0xCB, 0x46], &[0xCB, 0xC6], &[0xCB, 0x00],
        &[0xDD, 0x09], &[0xDD, 0x34, 0x05], &[0xDD, 0x36, 0x05, 0x77], &[0xDD, 0x46, 0xFB], &[0xDD, 0xE3], &[0xFD, 0xE5], &[0xDD, 0x00],
    ];
    for p in plain {
        v.push(p.to_vec());
    }
    let ed: [u8; 28] = [
        0x40, 0x41, 0x42, 0x43, 0x44, 0x45, 0x47, 0x4A, 0x4B, 0x57, 0x67, 0x6F, 0x70, 0x71, 0x78, 0x79, 0xA0, 0xA1, 0xA2, 0xA3, 0xA8, 0xB0, 0xB1,
        0xB2, 0xB3, 0xB8, 0xBB, 0x00,
    ];
    for e in ed {
        v.push(vec![0xED, e, 0x00, 0x50]);
    }
    for op in [0x06u8, 0x46, 0xC6, 0x00] {
        v.push(vec![0xDD, 0xCB, 0x03, op]);
        v.push(vec![0xFD, 0xCB, 0xFD, op]);
    }
    v
}

fn placement(rng: &mut Rng) -> u16 {
    // one of the four windows, away from the window edges (the code may be up to 4 bytes and IX+d +-128)
    let base = [0x0200u16, 0x4200, 0x8200, 0xC200][rng.below(4) as usize];
    base + (rng.below(0x3B00) as u16)
}

fn random_regs(rng: &mut Rng) -> Regs16 {
    let mut r = Regs16 {
        pc: placement(rng),
        sp: placement(rng),
        af: rng.u16(),
        bc: placement(rng),
        de: placement(rng),
        hl: placement(rng),
        ix: placement(rng),
        iy: placement(rng),
        i: [0x00u8, 0x40, 0x7F, 0x80, 0xC0, 0xFF][rng.below(6) as usize],
    };
    // timing variants: B / BC small so that repeat/last iterations both occur
    match rng.below(4) {
        0 => r.bc = (r.bc & 0x00FF) | 0x0100,
        1 => r.bc = 0x0001,
        2 => r.bc = 0x0002,
        _ => {}
    }
    // code must lie in RAM
    if r.pc < 0x4000 {
        r.pc += 0x4000;
    }
    r
}

/// (4) contention after paging *histories*: which banks are contended must follow the last accepted
/// latch value whatever happened before (locking writes, rejected writes after the lock, repeated values)
fn history_layer(o: &Opts, model: &mut Model, rep: &mut Report, only: Option<&str>) {
    let mut rng = Rng::new(o.seed ^ 0x0404);
    let (t0, line) = (14361usize, 228usize);
    let n = if only.is_some() { 1 } else { o.n(400, 20000) };
    for h in 0..n {
        let mut r = rng.fork();
        let hist: Vec<u8> = match only {
            Some(t) => t.split(',').filter_map(|x| u8::from_str_radix(x.trim(), 16).ok()).collect(),
            None => {
                let len = r.range(1, 6) as usize;
                (0..len).map(|_| {
                    let mut v = r.u8() & 0x3F;
                    if !r.chance(1, 3) {
                        v &= !0x20;
                    }
                    v
                }).collect()
            }
        };
        let mut e = emu(&Cfg::new(true));
        let mut lines = vec!["new 128".to_string()];
        for v in &hist {
            e.verif_write_io(0x7FFD, *v);
            lines.push(format!("out {:02x}", v));
        }
        // timed cycles in every window at the eight residues of a contended line start
        let mut obs = vec![];
        let base = t0 + (10 + (h as usize % 150)) * line;
        for (k, a) in [0x0000u16, 0x4000, 0x8000, 0xC000, 0xFFFF, 0xC000, 0x4001, 0xE000].iter().enumerate() {
            let t = base + k * (line + 1);
            e.verif_set_frame_clocks(t);
            let _ = e.verif_read_mem(*a, 3);
            let el = e.verif_frame_clocks() - t;
            obs.push((lines.len(), t, *a, el, false));
            lines.push(format!("trace {:x} m{:04x}:3", t, a));
            let t2 = t + 40;
            let port = (*a & 0xFF00) | if k % 2 == 0 { 0xFF } else { 0xFE };
            e.verif_set_frame_clocks(t2);
            let _ = e.verif_read_io(port);
            let el2 = e.verif_frame_clocks() - t2;
            obs.push((lines.len(), t2, port, el2, true));
            lines.push(format!("trace {:x} i{:04x}", t2, port));
        }
        // … and a timed *write* to the latch itself (the value it already holds: accepted without effect, or ignored
        // by the lock — a port cycle either way), through the canonical address and through an alias
        for (k, port) in [0x7FFDu16, 0x3FFD, 0x00FD, 0x7FFD].iter().enumerate() {
            let t = base + (9 + k) * (line + 1) + 3 * k;
            e.verif_set_frame_clocks(t);
            let cur = e.verif_paging().0;
            e.verif_write_io(*port, cur);
            let el = e.verif_frame_clocks() - t;
            obs.push((lines.len(), t, *port, el, true));
            lines.push(format!("trace {:x} i{:04x}", t, port));
        }
        let answers = model.ask_many(&lines);
        rep.count("cases", "paging history + timed cycles");
        let hist_text = hist.iter().map(|v| format!("{:02x}", v)).collect::<Vec<_>>().join(",");
        let locked = hist.iter().any(|v| v & 0x20 != 0);
        for (i, t, a, el, io) in obs {
            rep.eval();
            let mut it = answers[i].split(' ');
            let m = usize::from_str_radix(it.next().unwrap_or("0"), 16).unwrap_or(usize::MAX);
            let s = usize::from_str_radix(it.next().unwrap_or("0"), 16).unwrap_or(usize::MAX);
            if el > if io { 4 } else { 3 } {
                rep.class(format!("history locked={} win={:x} io={} delay={}", locked, a >> 14, io, el));
            }
            if el != s || el != m {
                rep.violation(Violation {
                    kind: if el != s { Kind::SpecViolated } else { Kind::ModelMismatch },
                    key: format!("C04/128k/history/{}/{}win{:x}", if locked { "locked" } else { "unlocked" }, if io { "port-" } else { "" }, a >> 14),
                    what: format!("128K after paging writes [{}]: {} {:04x} at frame T-state {} took {} T; the contention model (bank paged by the last accepted write) gives {} T",
                        hist_text, if io { "port cycle" } else { "memory cycle" }, a, t, el, s),
                    correspondence: "corr.C04.timing-after-paging-history (Model.Machine vs controller.rs)".into(),
                    case: J::obj(vec![("text", J::s(format!("history {}", hist_text)))]),
                    implementation: format!("{}", el),
                    expected: format!("{}", s),
                });
                break;
            }
        }
    }
}

pub fn run(o: &Opts) -> Report {
    let mut rep = Report::new("C04");
    rep.rule = "the delay of a contended memory cycle at every one of the 69888/70908 frame T-states of both machines and the four port patterns at every T-state (exhaustive); then three layers, each compared with the Lean machine model (exact) and the contention spec (the property's delay \
table and I/O patterns): single memory-side bus cycles (10 address classes x clocks 1/3/4) and single port cycles (read and \
write; high byte in every window x bit 0) at every interesting frame T-state (window edges of lines 0,1,100,190,191, all \
columns of lines 1 and 191, before/after the picture, frame end wrap, 200 random) on the 48K and on the 128K with every bank \
0-7 paged at 0xC000; whole instructions (all 1792 encodings plus hand-picked operand variants) executed by the real \
Z80 in the real Emulator with random placement of code, stack, HL/BC/DE/IX/IY, I in contended/uncontended memory at random \
interesting T-states, the bus-cycle trace taken from the real Z80 on a recording bus; and timed memory/port cycles in every window after seeded histories of paging writes (locking writes, writes after the lock) on the 128K, a timed write to the latch port itself included; and whole-machine lock-step runs of random programs (4-20 instructions, random CPU state, placement and paging) of the real Emulator against the Lean Z80 reference running on the Lean Spectrum bus, everything compared after every instruction. distinct/non-trivial = distinct \
(machine, cycle kind or opcode, delay, T mod 8) among delayed cases".into();
    let mut model = Model::spawn(&o.model, "C04");
    let mut batch = vec![];

    if let Some(text) = &o.replay {
        rep.sample(J::s(text.clone()));
        if text.starts_with("sys ") {
            crate::sys::replay(o, &mut rep, "C04", text);
            return rep;
        }
        if let Some(h) = text.strip_prefix("history ") {
            history_layer(o, &mut model, &mut rep, Some(h));
            return rep;
        }
        if let Some(c) = Case::parse(text) {
            let mut rig = Rig::new(c.m128, c.ext);
            check_case(&mut model, &mut rig, &c, &mut rep, &mut batch);
            flush(&mut model, &mut rep, &mut batch);
        }
        return rep;
    }

    let mut rng = Rng::new(o.seed);
    // (0) the whole delay table: one 1-T contended memory cycle at *every* T-state of the frame on both
    // machines (eight interleaved passes: a cycle lasts at most 7 T, so the clock never overtakes the next start)
    for m128 in [false, true] {
        let mut rig = Rig::new(m128, false);
        for pass in 0..8 {
            let mut t = pass;
            while t < frame_len(m128) {
                check_case(&mut model, &mut rig, &Case { szx: false, m128, ext: false, latch: 0, t, act: Action::Mreq(0x4000, 1) }, &mut rep, &mut batch);
                t += 8;
                if batch.len() >= 4000 {
                    flush(&mut model, &mut rep, &mut batch);
                }
            }
            flush(&mut model, &mut rep, &mut batch);
        }
        rep.count("cases", "delay table, every T-state");
        // … and the four port patterns at every T-state (a port cycle lasts at most 28 T: 32 passes)
        for (port, w) in [(0x00FEu16, false), (0x00FF, true), (0x40FE, true), (0x40FF, false)] {
            for pass in 0..32 {
                let mut t = pass;
                while t < frame_len(m128) {
                    check_case(&mut model, &mut rig, &Case { szx: false, m128, ext: false, latch: 0, t, act: Action::Port(port, w) }, &mut rep, &mut batch);
                    t += 32;
                    if batch.len() >= 4000 {
                        flush(&mut model, &mut rep, &mut batch);
                    }
                }
                flush(&mut model, &mut rep, &mut batch);
            }
        }
        rep.count("cases", "port patterns, every T-state");
    }
    // (1b) the same cycles at frame positions reached by a host snapshot load from the lower border
    for m128 in [false, true] {
        let ts = interesting_ts(m128, o.thorough(), &mut rng);
        let mut rig = Rig::new(m128, false);
        for (n, t) in ts.iter().enumerate().filter(|(n, _)| n % (if o.thorough() { 1 } else { 3 }) == 0) {
            let latch = if m128 { [0u8, 1, 7, 8 | 5][n % 4] } else { 0 };
            let act = if n % 3 == 2 { Action::Port([0x40FEu16, 0x00FE, 0x7FFF][n % 3], n % 2 == 0) } else { Action::Mreq(ADDRS[n % ADDRS.len()], [1usize, 3, 4][n % 3]) };
            check_case(&mut model, &mut rig, &Case { szx: true, m128, ext: false, latch, t: *t, act }, &mut rep, &mut batch);
            rep.count("cases", "cycle at a frame position reached by an SZX load");
        }
        flush(&mut model, &mut rep, &mut batch);
    }
    for m128 in [false, true] {
        let ts = interesting_ts(m128, o.thorough(), &mut rng);
        let latches: Vec<u8> = if m128 { (0..8).collect() } else { vec![0] };
        for latch in latches {
            let mut rig = Rig::new(m128, false);
            let mut rigx = Rig::new(m128, true);
            // (1) memory cycles, (2) port cycles — T ascending in interleaved passes so the clock moves forward
            for pass in 0..4 {
                for (n, t) in ts.iter().enumerate() {
                    if n % 4 != pass {
                        continue;
                    }
                    let a = ADDRS[(n / 4 + pass + latch as usize) % ADDRS.len()];
                    let clk = [1usize, 3, 4][(n + pass) % 3];
                    check_case(&mut model, &mut rig, &Case { szx: false, m128, ext: false, latch, t: *t, act: Action::Mreq(a, clk) }, &mut rep, &mut batch);
                    rep.count("cases", "memory cycle");
                }
                flush(&mut model, &mut rep, &mut batch);
            }
            for pass in 0..8 {
                for (n, t) in ts.iter().enumerate() {
                    if n % 8 != pass {
                        continue;
                    }
                    let hi = ADDRS[(n / 8 + pass) % ADDRS.len()] & 0xFF00;
                    // avoid the paging latch on writes: ports with A1 set
                    let port = hi | [0x00FE, 0x00FF, 0x00F6, 0x0003][(n + pass) % 4];
                    let w = (n / 3) % 2 == 0;
                    check_case(&mut model, &mut rig, &Case { szx: false, m128, ext: false, latch, t: *t, act: Action::Port(port, w) }, &mut rep, &mut batch);
                    rep.count("cases", "port cycle");
                    // the same cycle with a host extender attached (which claims these ports)
                    check_case(&mut model, &mut rigx, &Case { szx: false, m128, ext: true, latch, t: *t, act: Action::Port(port, w) }, &mut rep, &mut batch);
                    rep.count("cases", "port cycle, host extender attached");
                }
                flush(&mut model, &mut rep, &mut batch);
            }
        }
        // (3) instructions
        let mut instrs = instr_set(true);
        instrs.extend(instr_set(false));
        let per = o.n(10, 200) as usize;
        let mut rig = Rig::new(m128, false);
        let mut rigx = Rig::new(m128, true);
        let mut cases = vec![];
        for code in &instrs {
            for k in 0..per {
                let mut r = rng.fork();
                let mut regs = random_regs(&mut r);
                let mut t = if k % 2 == 0 { *r.pick(&ts) } else { r.below(frame_len(m128) as u64) as usize };
                if k < 2 {
                    // every instruction at least twice with the I register pointing into contended memory while the ULA
                    // is fetching (the refresh address IR is carried by some internal T-states)
                    regs.i = [0x40u8, 0x7F][k];
                    t = (if m128 { 14361 } else { 14335 }) + (if m128 { 228 } else { 224 }) * (40 + 7 * k) + 2 + k;
                }
                let latch = if m128 { r.below(8) as u8 | (r.below(2) as u8) << 4 } else { 0 };
                cases.push(Case { szx: false, m128, ext: k % 4 == 3, latch, t, act: Action::Instr(code.clone(), regs) });
            }
        }
        // sort by latch then T so that neither the latch nor the clock thrash
        cases.sort_by_key(|c| (c.latch, c.t));
        for (n, c) in cases.iter().enumerate() {
            if n < 2 {
                rep.sample(J::s(c.text()));
            }
            check_case(&mut model, if c.ext { &mut rigx } else { &mut rig }, c, &mut rep, &mut batch);
            rep.count("cases", "instruction");
            if batch.len() >= 400 {
                flush(&mut model, &mut rep, &mut batch);
            }
        }
        flush(&mut model, &mut rep, &mut batch);
    }
    history_layer(o, &mut model, &mut rep, None);
    // (5) whole-machine lock-step: real Emulator vs the Lean Z80 reference on the Lean Spectrum bus
    let ts48 = interesting_ts(false, false, &mut rng);
    let ts128 = interesting_ts(true, false, &mut rng);
    crate::sys::lockstep(o, &mut rep, "C04", o.n(2500, 200_000), &ts48, &ts128, false);
    rep
}
