//! C05 — frames last 69888/70908 T with a 32-T INT pulse; no T-state is ever lost.
//! (1) clock level: arbitrary wait sequences through the real `wait_internal` (hook H1) against the
//!     Lean clock model and the arithmetic spec (total = frames*L + offset, INT <=> offset < 32);
//! (2) system level: real Z80 programs under `emulate_frames` — constant-time counting loops for
//!     conservation of time across frame ends, IM 2 interrupt counters for "once per frame",
//!     and a sweep of the INT window with the CPU placed at every offset 0..48.
use crate::host::*;
use crate::util::*;
use rustzx_core::EmulationMode;
use std::time::Duration;

fn frame_len(m128: bool) -> usize {
    if m128 {
        70908
    } else {
        69888
    }
}

fn load(e: &mut Emu, addr: u16, bytes: &[u8]) {
    for (i, b) in bytes.iter().enumerate() {
        e.verif_write_mem(addr.wrapping_add(i as u16), *b, 0);
    }
}

fn start(e: &mut Emu, pc: u16) {
    e.verif_set_frame_clocks(0);
    let cpu = e.verif_cpu();
    cpu.regs.set_pc(pc);
    cpu.regs.set_sp(0xFF00);
    cpu.regs.set_iff1(false);
    cpu.regs.set_iff2(false);
    cpu.regs.set_bc(0);
    cpu.regs.set_de(0);
    cpu.halted = false;
    cpu.skip_interrupt = false;
}

fn viol(rep: &mut Report, kind: Kind, key: &str, what: String, case: String, got: String, want: String) {
    rep.violation(Violation {
        kind,
        key: key.to_string(),
        what,
        correspondence: "corr.C05.clock (Model.Machine.Ctl.waitInternal/intActive vs wait_internal/new_frame/int_active)".into(),
        case: J::obj(vec![("text", J::s(case))]),
        implementation: got,
        expected: want,
    });
}

/// (1) wait sequences
fn clock_level(o: &Opts, model: &mut Model, rep: &mut Report, only3: Option<(bool, Vec<usize>, Vec<u8>)>) {
    let only: Option<(bool, Vec<usize>)> = only3.as_ref().map(|(a, b, _)| (*a, b.clone()));
    let only_pre = only3.clone();
    let mut rng = Rng::new(o.seed ^ 0x05);
    let runs = if only.is_some() { 1 } else { o.n(60, 5000) };
    for run in 0..runs {
        let mut r = rng.fork();
        let (m128, waits): (bool, Vec<usize>) = match &only {
            Some(x) => x.clone(),
            // every T-state of a whole frame and the start of the next, one T at a time, on both machines:
            // the INT line and the frame wrap at every single offset
            None if run < 2 => (run == 1, vec![1usize; frame_len(run == 1) + 40]),
            None => {
                let m128 = r.bool();
                let l = frame_len(m128);
                let n = r.range(50, 3000) as usize;
                let style = r.below(4);
                let w = (0..n)
                    .map(|_| match style {
                        0 => r.range(1, 13) as usize,             // what the bus really issues
                        1 => r.range(1, 40) as usize,
                        2 => {
                            if r.chance(1, 20) {
                                r.range(l as u64 - 50, l as u64 - 1) as usize
                            } else {
                                r.range(1, 400) as usize
                            }
                        }
                        _ => *r.pick(&[1usize, 3, 4, 7, 31, 32, 33, l - 1, l / 2]),
                    })
                    .collect();
                (m128, w)
            }
        };
        let l = frame_len(m128);
        let mut e = emu(&Cfg::new(m128));
        let mut lines = vec![format!("new {}", if m128 { 128 } else { 48 })];
        // the frame length belongs to the machine, not to its paging state: on the 128K every other run
        // starts after paging writes, some of them locking (bit 5)
        let pre: Vec<u8> = if m128 && only.is_none() && r.bool() {
            (0..r.range(1, 3)).map(|_| r.u8() & 0x3F).collect()
        } else if let Some((_, _, p)) = &only_pre {
            p.clone()
        } else {
            vec![]
        };
        for v in &pre {
            e.verif_write_io(0x7FFD, *v);
            lines.push(format!("out {:02x}", v));
        }
        if !pre.is_empty() {
            e.verif_set_frame_clocks(0);
            lines.push("clk 0".into());
        }
        let base_lines = lines.len();
        let mut obs = vec![];
        let mut total = 0usize;
        for w in &waits {
            e.verif_wait(*w);
            total += w;
            lines.push(format!("wait {:x}", w));
            obs.push((total, e.verif_frame_clocks(), e.verif_frames_count(), e.verif_int_active()));
        }
        let answers = model.ask_many(&lines);
        rep.count("wait_runs", format!("{} waits~{}", if m128 { "128k" } else { "48k" }, (waits.len() / 1000) * 1000));
        if run < 2 {
            rep.sample(J::s(format!("{} waits {:?}…", if m128 { 128 } else { 48 }, &waits[..waits.len().min(12)])));
        }
        for (i, (tot, fc, frames, int)) in obs.iter().enumerate() {
            rep.eval();
            let got = format!("{:05x} {:04x} {}", fc, frames, *int as u8);
            let spec = format!("{:05x} {:04x} {}", tot % l, tot / l, ((tot % l) < 32) as u8);
            if *fc < 40 || l.saturating_sub(*fc) < 40 {
                rep.class(format!("{} offset {} int {}", m128, fc, int));
            }
            let mk_case = || format!("waits {} {} {}", if m128 { 128 } else { 48 }, waits[..=i].iter().map(|w| format!("{:x}", w)).collect::<Vec<_>>().join(","),
                pre.iter().map(|v| format!("{:02x}", v)).collect::<Vec<_>>().join(","));
            if got != spec {
                let case = mk_case();
                // shrink: the prefix up to here is the failing history; keep it as it is (already minimal in length
                // for the first failure)
                viol(rep, Kind::SpecViolated, &format!("C05/clock/{}", if (tot % l < 32) != *int { "int-window" } else { "time-not-conserved" }),
                    format!("after waits summing to {} T: (offset, frames, INT) = {} but frames*L+offset must be the sum: {}", tot, got, spec),
                    case, got, spec);
                break;
            }
            if got != answers[i + base_lines] {
                let case = mk_case();
                viol(rep, Kind::ModelMismatch, "C05/clock/model", format!("after waits summing to {} T: {} vs model {}", tot, got, answers[i + base_lines]),
                    case, got, answers[i + base_lines].clone());
                break;
            }
        }
    }
}

/// (2a) conservation through real execution: DI; loop: INC BC; JP loop  (16 T per iteration, uncontended)
fn conservation(o: &Opts, rep: &mut Report, only: Option<(bool, usize, usize)>) {
    let mut cases = vec![];
    if let Some(c) = only {
        cases.push(c);
    } else {
        for m128 in [false, true] {
            for frames in 1..=14usize {
                for per_call in [1usize, 2, 3, 14] {
                    if per_call <= frames && (o.thorough() || frames % 3 == 1 || per_call == 1) {
                        cases.push((m128, frames, per_call));
                    }
                }
            }
            // long single calls: the run length does not fit a byte (BC wraps every 65536 passes = 2^20 T: the
            // comparison below is modulo 2^20)
            for frames in [256usize, 300, 513] {
                if o.thorough() || frames == 300 || !m128 {
                    cases.push((m128, frames, frames));
                }
            }
        }
    }
    for (m128, frames, per_call) in cases {
        let l = frame_len(m128);
        let mut e = emu(&Cfg::new(m128));
        // every other 128K run has its paging locked first (48K-BASIC style latch 0x30, or other banks)
        let lock: Option<u8> = if m128 && (frames + per_call) % 2 == 0 { Some([0x30u8, 0x27, 0x3F, 0x20][frames % 4]) } else { None };
        if let Some(v) = lock {
            e.verif_write_io(0x7FFD, v);
        }
        load(&mut e, 0x8000, &[0xF3, 0x03, 0xC3, 0x01, 0x80]);
        start(&mut e, 0x8000);
        let mut done = 0;
        while done < frames {
            let n = per_call.min(frames - done);
            e.set_speed(EmulationMode::FrameCount(n));
            let _ = e.emulate_frames(Duration::from_secs(100));
            done += n;
        }
        let fc = e.verif_frame_clocks();
        let cpu = e.verif_cpu();
        let bc = cpu.regs.get_bc() as usize;
        let pc = cpu.regs.get_pc();
        rep.eval();
        rep.class(format!("conservation {} frames={} per_call={}", m128, frames, per_call));
        rep.count("programs", "counting loop (time conservation)");
        let executed = 4 + 16 * bc - if pc == 0x8002 { 10 } else { 0 };
        let case = format!("conserve {} {} {}", if m128 { 128 } else { 48 }, frames, per_call);
        if pc != 0x8001 && pc != 0x8002 {
            viol(rep, Kind::SpecViolated, "C05/conservation/pc", format!("counting loop left its code: PC={:04x}", pc), case, format!("{:04x}", pc), "8001|8002".into());
        } else if executed % (1 << 20) != (frames * l + fc) % (1 << 20) || fc >= 10 {
            viol(rep, Kind::SpecViolated, "C05/conservation/lost-tstates",
                format!("{}{} after {} frames ({} per call): program executed {} T but frames*L+offset = {}*{}+{} = {}",
                    if m128 { "128K" } else { "48K" }, lock.map(|v| format!(" (paging locked by {:02x})", v)).unwrap_or_default(), frames, per_call, executed, frames, l, fc, frames * l + fc),
                case, format!("{}", executed), format!("{}", frames * l + fc));
        }
    }
}

/// (2a') the same counting loop while a deck plays a tape it cannot read (zero-length blocks) and the host goes on
/// calling `emulate_frames` after every error: frames and offset still account for every executed T-state
fn conservation_tape(o: &Opts, rep: &mut Report, only: Option<(bool, usize)>) {
    for k in 0..o.n(12, 60) as usize {
        let m128 = k % 2 == 1;
        if let Some((m, kk)) = only {
            if m != m128 || kk != k {
                continue;
            }
        }
        let l = frame_len(m128);
        let mut e = emu(&Cfg::new(m128));
        let mut tap: Vec<u8> = vec![];
        match (k / 2) % 3 {
            0 => {}
            1 => tap.extend_from_slice(&[2, 0, 0xFF, 0xFF]),
            _ => tap.extend_from_slice(&[3, 0, 0x00, 0x01, 0x01]),
        }
        for _ in 0..1 + k % 4 {
            tap.extend_from_slice(&[0, 0]);
        }
        if k % 5 == 4 {
            tap.extend_from_slice(&[2, 0, 0xFF, 0xFF]);
        }
        let _ = e.load_tape(rustzx_core::host::Tape::Tap(VAsset::new(tap.clone())));
        load(&mut e, 0x8000, &[0xF3, 0x03, 0xC3, 0x01, 0x80]);
        start(&mut e, 0x8000);
        // (the deck is started last: the errors are to be met by bus steps of the running program)
        e.play_tape();
        let want_frames = 3 + k % 3;
        let (mut frames, mut calls, mut errors) = (0usize, 0usize, 0usize);
        while frames < want_frames && calls < 400_000 {
            if e.emulate_frames(Duration::from_secs(100)).is_err() {
                errors += 1;
            }
            frames += e.verif_frames_count();
            calls += 1;
        }
        let fc = e.verif_frame_clocks();
        let cpu = e.verif_cpu();
        let bc = cpu.regs.get_bc() as usize;
        let pc = cpu.regs.get_pc();
        rep.eval();
        rep.class(format!("conservation with an unreadable tape {} kind={} errors={}", m128, (k / 2) % 3, errors.min(3)));
        rep.count("programs", "counting loop while the deck reports errors");
        let executed = 4 + 16 * bc - if pc == 0x8002 { 10 } else { 0 };
        let case = format!("conservetape {} {}", if m128 { 128 } else { 48 }, k);
        if (pc == 0x8001 || pc == 0x8002) && executed != frames * l + fc {
            viol(rep, Kind::SpecViolated, "C05/conservation/tape-error",
                format!("{} playing a tape of {} bytes with zero-length blocks ({} calls of emulate_frames, {} of them returned an error): program executed {} T but frames*L+offset = {}*{}+{} = {}",
                    if m128 { "128K" } else { "48K" }, tap.len(), calls, errors, executed, frames, l, fc, frames * l + fc),
                case, format!("{}", executed), format!("{}", frames * l + fc));
            return;
        }
    }
}

struct RomPages(Vec<VAsset>);
impl rustzx_core::host::RomSet for RomPages {
    type Asset = VAsset;
    fn format(&self) -> rustzx_core::host::RomFormat {
        rustzx_core::host::RomFormat::Binary16KPages
    }
    fn next_asset(&mut self) -> Option<VAsset> {
        if self.0.is_empty() {
            None
        } else {
            Some(self.0.remove(0))
        }
    }
}

/// (2b) one interrupt per frame: handler (73 T, longer than the 32-T pulse) counting in RAM, in all
/// three interrupt modes (IM 0/1 through a host-supplied ROM with the handler at 0x0038; mode 3 here =
/// the reset default, no IM instruction executed), also on a 128K whose paging is locked
fn interrupts(o: &Opts, rep: &mut Report, only: Option<(bool, bool, usize)>) {
    let mut cases = vec![];
    if let Some(c) = only {
        for im in 0..4usize {
            cases.push((c.0, c.1, c.2, im));
        }
    } else {
        for m128 in [false, true] {
            for halted in [false, true] {
                for frames in 2..=(o.n(12, 60) as usize) {
                    cases.push((m128, halted, frames, frames % 4));
                }
            }
        }
    }
    for (m128, halted, frames, im) in cases {
        let mut e = emu(&Cfg::new(m128));
        if m128 && frames % 3 == 0 {
            e.verif_write_io(0x7FFD, 0x20 | (frames as u8 & 7));
        }
        // ROM: handler at 0x0038 jumps to the RAM handler at 0x9000 (for IM 0 / IM 1)
        let mut rom = vec![0u8; 16384];
        rom[0x38] = 0xC3;
        rom[0x39] = 0x00;
        rom[0x3A] = 0x90;
        let pages = if m128 { vec![VAsset::new(rom.clone()), VAsset::new(rom)] } else { vec![VAsset::new(rom)] };
        if e.load_rom(RomPages(pages)).is_err() {
            panic!("load_rom failed on a well-formed ROM set");
        }
        // 8000: DI; LD A,81; LD I,A; IM n (or nothing); EI; loop: (HALT | INC DE); JR loop
        let imop: [u8; 2] = match im { 0 => [0xED, 0x46], 1 => [0xED, 0x56], 2 => [0xED, 0x5E], _ => [0x00, 0x00] };
        load(&mut e, 0x8000, &[0xF3, 0x3E, 0x81, 0xED, 0x47, imop[0], imop[1], 0xFB, if halted { 0x76 } else { 0x13 }, 0x18, 0xFD]);
        // vector 81FF -> 9000
        load(&mut e, 0x81FF, &[0x00, 0x90]);
        // 9000: PUSH HL; LD HL,(A000); INC HL; LD (A000),HL; POP HL; EI; RET
        load(&mut e, 0x9000, &[0xE5, 0x2A, 0x00, 0xA0, 0x23, 0x22, 0x00, 0xA0, 0xE1, 0xFB, 0xC9]);
        start(&mut e, 0x8000);
        let mut counts = vec![];
        for _ in 0..frames {
            e.set_speed(EmulationMode::FrameCount(1));
            let _ = e.emulate_frames(Duration::from_secs(100));
            counts.push(e.peek(0xA000) as usize + 256 * e.peek(0xA001) as usize);
        }
        rep.eval();
        rep.class(format!("int-count {} halted={} frames={} im={}", m128, halted, frames, im));
        rep.count("programs", format!("interrupt counter im={} {}", if im == 3 { "reset-default".to_string() } else { im.to_string() }, if halted { "HALT loop" } else { "busy loop" }));
        // the interrupt of a frame start is accepted by the first instruction step of that frame; a call
        // returns at the first instruction boundary after the frame end, so after k frames k-1 were taken
        let ok = counts.iter().enumerate().all(|(k, c)| *c == k);
        if !ok {
            viol(rep, Kind::SpecViolated, "C05/int-per-frame",
                format!("{} {} loop, interrupt mode {}: interrupts counted after 1..{} frames = {:?}, expected exactly one per frame start (0,1,2,…)",
                    if m128 { "128K" } else { "48K" }, if halted { "HALT" } else { "busy" }, if im == 3 { "after reset".to_string() } else { im.to_string() }, frames, counts),
                format!("ints {} {} {}", if m128 { 128 } else { 48 }, halted as u8, frames), format!("{:?}", counts), "0,1,2,...".into());
        }
    }
}

/// (2d) a halted CPU loses no T-state in any speed mode: `DI; <pad>; HALT` entered at a frame clock that is
/// not a multiple of 4 — the halted M1 cycles are 4 T each and both frame lengths are multiples of 4, so the
/// offset at every later frame boundary is the entry offset modulo 4 (the overrun of the cycle that crosses
/// the boundary is carried), whether the host asks for one frame, several frames or maximum speed.
fn halted_overrun(rep: &mut Report, only: Option<(bool, usize, usize)>) {
    for m128 in [false, true] {
        for (pad, entry) in [(0usize, 4usize), (1, 10), (2, 11), (3, 17)] {
            // mode 0: FrameCount(1) x 6, 1: FrameCount(3) x 2, 2: Max with a stopwatch that times out after 3 frames, x 2
            for mode in 0..3usize {
                if let Some((m, p, md)) = only {
                    if m != m128 || p != pad || md != mode {
                        continue;
                    }
                }
                let mut e = emu(&Cfg::new(m128));
                // DI; [INC HL | LD A,n | INC HL, LD A,n]; HALT at 0x8000 — 4, 10, 11, 17 T before the HALT is fetched
                let code: Vec<u8> = match pad {
                    0 => vec![0xF3, 0x76],
                    1 => vec![0xF3, 0x23, 0x76],
                    2 => vec![0xF3, 0x3E, 0x00, 0x76],
                    _ => vec![0xF3, 0x23, 0x3E, 0x00, 0x76],
                };
                for (i, b) in code.iter().enumerate() {
                    e.verif_write_mem(0x8000 + i as u16, *b, 0);
                }
                {
                    let cpu = e.verif_cpu();
                    cpu.regs.set_pc(0x8000);
                    cpu.regs.set_sp(0x9000);
                    cpu.regs.set_iff1(false);
                }
                e.verif_set_frame_clocks(0);
                let want = entry % 4;
                let calls = if mode == 0 { 6 } else { 2 };
                for call in 0..calls {
                    match mode {
                        0 => e.set_speed(EmulationMode::FrameCount(1)),
                        1 => e.set_speed(EmulationMode::FrameCount(3)),
                        _ => {
                            e.set_speed(EmulationMode::Max);
                            SW_SCRIPT.with(|s| {
                                let mut s = s.borrow_mut();
                                s.clear();
                                s.extend([Duration::ZERO, Duration::ZERO, Duration::from_secs(9)]);
                            });
                        }
                    }
                    let r = catch(|| e.emulate_frames(Duration::from_secs(1)).map(|_| ()).map_err(|x| format!("{:?}", x)));
                    SW_SCRIPT.with(|s| s.borrow_mut().clear());
                    rep.eval();
                    let fc = e.verif_frame_clocks();
                    let halted = e.verif_cpu().halted;
                    rep.class(format!("halted overrun m128={} entry%4={} mode={}", m128, want, mode));
                    let case = format!("haltrun {} {} {}", if m128 { 128 } else { 48 }, pad, mode);
                    match r {
                        Ok(Ok(())) if halted && fc < 4 && fc % 4 == want => {}
                        other => {
                            viol(
                                rep,
                                Kind::SpecViolated,
                                &format!("C05/halt/overrun/{}", ["frame-by-frame", "three-frames", "max-speed"][mode]),
                                format!(
                                    "DI; …; HALT entered at frame clock {} on the {}: after call #{} in mode {} the frame offset is {} (halted: {}, result {:?}); a halted CPU advances in 4-T cycles, so every frame boundary leaves offset {}",
                                    entry, if m128 { "128K" } else { "48K" }, call, ["FrameCount(1)", "FrameCount(3)", "Max"][mode], fc, halted, other.map(|x| x.is_ok()), want
                                ),
                                case,
                                format!("{}", fc),
                                format!("{}", want),
                            );
                            break;
                        }
                    }
                }
            }
        }
    }
}


struct OnePoke([rustzx_core::poke::PokeAction; 1]);
impl rustzx_core::poke::Poke for OnePoke {
    fn actions(&self) -> &[rustzx_core::poke::PokeAction] {
        &self.0
    }
}

/// (2e) Host-side operations executed while the emulation is stopped inside a frame (after a breakpoint or
/// between single steps) execute nothing, so they take no emulated time: the frame offset before and
/// after is the same, wherever the beam is and whatever memory the operation touches.
fn host_ops(rep: &mut Report, only: Option<(bool, usize, usize)>) {
    const ADDRS: [u16; 9] = [0x0000, 0x3FFF, 0x4000, 0x57FF, 0x5AFF, 0x5B00, 0x7FFF, 0x8000, 0xC000];
    for m128 in [false, true] {
        let first = if m128 { 14361 } else { 14335 };
        let line = if m128 { 228 } else { 224 };
        // frame offsets: border, every phase of the 8-T contention pattern on three picture lines, the line's border part
        let mut ts: Vec<usize> = vec![0, 31, 5000];
        for l in [0usize, 95, 191] {
            for ph in 0..16 {
                ts.push(first + l * line + ph);
            }
            ts.push(first + l * line + 130);
        }
        ts.push(first + 192 * line + 7);
        let banks: &[u8] = if m128 { &[0, 1, 5, 7] } else { &[0] };
        for &bank in banks {
            let mut e = emu(&Cfg::new(m128));
            if m128 {
                e.verif_write_io(0x7FFD, bank);
            }
            e.verif_set_frame_clocks(0);
            for (ti, &t) in ts.iter().enumerate() {
                if let Some((m, tt, _)) = only {
                    if m != m128 || tt != t {
                        continue;
                    }
                }
                e.verif_set_frame_clocks(t);
                for (ai, &a) in ADDRS.iter().enumerate() {
                    if let Some((_, _, aa)) = only {
                        if aa != ai {
                            continue;
                        }
                    }
                    let before = e.verif_frame_clocks();
                    e.execute_poke(OnePoke([rustzx_core::poke::PokeAction::mem(a, (ti * 9 + ai) as u8 | 1)]));
                    let after_poke = e.verif_frame_clocks();
                    let _ = e.peek(a);
                    let _ = e.border_color();
                    let after_peek = e.verif_frame_clocks();
                    if ai == 0 {
                        // a screen file loaded at this stop
                        let _ = e.load_screen(rustzx_core::host::Screen::Scr(VAsset::new(vec![(ti as u8) | 1; 6912])));
                    }
                    let after_scr = e.verif_frame_clocks();
                    if ai == 1 {
                        // a snapshot saved at this stop, the stack in contended memory
                        e.verif_cpu().regs.set_sp(0x5000 + (ti as u16) * 2);
                        let _ = crate::c13::snap::save_sna(&mut e);
                    }
                    let after = e.verif_frame_clocks();
                    rep.eval();
                    rep.class(format!("host-op m128={} bank={} region={:x} contended-time={}", m128, bank, a >> 14, t >= first && t < first + 192 * line));
                    if after != before {
                        viol(
                            rep,
                            Kind::SpecViolated,
                            if after_poke != before { "C05/host-op/poke" } else if after_peek != before { "C05/host-op/peek" } else if after_scr != before { "C05/host-op/load-screen" } else { "C05/host-op/save-snapshot" },
                            format!(
                                "{} (bank {} at 0xC000) stopped at frame offset {}: a host {} of {:04x} moves the frame offset to {} although nothing was executed — executed T-states no longer equal frames*L + offset",
                                if m128 { "128K" } else { "48K" }, bank, before, if after_poke != before { "poke" } else if after_peek != before { "peek" } else if after_scr != before { "load_screen after a poke/peek" } else { "save_snapshot (SNA, stack in contended memory) after a poke/peek" }, a, after
                            ),
                            format!("hostop {} {} {} {}", if m128 { 128 } else { 48 }, t, ai, bank),
                            format!("{}", after),
                            format!("{}", before),
                        );
                        return;
                    }
                }
            }
        }
    }
}

/// (2c) INT window: CPU with interrupts enabled placed at every frame offset 0..=47
fn int_window(rep: &mut Report, model: &mut Model, only: Option<(bool, usize)>) {
    for m128 in [false, true] {
        model.ask(&format!("new {}", if m128 { 128 } else { 48 }));
        for t in 0..48usize {
            if let Some((m, tt)) = only {
                if m != m128 || tt != t {
                    continue;
                }
            }
            let mut e = emu(&Cfg::new(m128));
            load(&mut e, 0x8000, &[0x00, 0x00]);
            let mut d = Dbg::default();
            d.break_all = true;
            e.set_debug_interface(d);
            start(&mut e, 0x8000);
            e.verif_set_frame_clocks(t);
            {
                let cpu = e.verif_cpu();
                cpu.regs.set_iff1(true);
                cpu.regs.set_iff2(true);
                cpu.set_im(1);
            }
            let _ = e.emulate_frames(Duration::from_secs(100));
            let pc = e.verif_cpu().regs.get_pc();
            let accepted = pc == 0x0039;
            model.ask(&format!("clk {:x}", t));
            let ans = model.ask("wait 0");
            let model_int = ans.ends_with('1');
            rep.eval();
            rep.class(format!("int-window {} t={} accepted={}", m128, t, accepted));
            let case = format!("window {} {}", if m128 { 128 } else { 48 }, t);
            if accepted != (t < 32) {
                viol(rep, Kind::SpecViolated, "C05/int-window/acceptance",
                    format!("{}: instruction boundary at frame offset {} with IFF1 set: interrupt {} (INT must be asserted for exactly the first 32 T)",
                        if m128 { "128K" } else { "48K" }, t, if accepted { "accepted" } else { "not accepted" }),
                    case, format!("{}", accepted), format!("{}", t < 32));
            } else if accepted != model_int {
                viol(rep, Kind::ModelMismatch, "C05/int-window/model", format!("offset {}: accepted={} model int={}", t, accepted, model_int), case, format!("{}", accepted), format!("{}", model_int));
            }
        }
    }
}

pub fn run(o: &Opts) -> Report {
    let mut rep = Report::new("C05");
    rep.rule = "clock level: seeded wait sequences (bus-sized 1..13 T, larger, near-frame-length, boundary values) through the \
real wait_internal over many frames, (offset, frames, INT) compared after every wait with the Lean clock model and with \
total = frames*L + offset, INT <=> offset < 32; system level: counting loop (16 T/iteration) run for 1..14 frames sliced \
1/2/3/14 frames per emulate_frames call and for 256/300/513 frames in a single call on both machines (executed T-states must equal frames*L+offset), IM 2 \
interrupt counters under HALT and busy loops (exactly one interrupt per frame start), and the INT window swept with \
an interrupt-enabled CPU at every frame offset 0..47; host pokes/peeks/screen-file loads/snapshot saves at a mid-frame stop (every phase of the contention pattern, every memory region and 128K bank) must leave the frame offset alone; interrupt-driven programs (EI;HALT under IM 2 with a handler that re-enables interrupts at once / after more than 32 T; a repeating LDIR with interrupts enabled at every phase relative to the frame start; code in uncontended and contended RAM) run across a frame start in lock-step with the Lean machine. distinct/non-trivial = distinct (machine, offset near a frame \
edge, INT level) clock observations + distinct program/slicing/offset cases".into();
    let mut model = Model::spawn(&o.model, "C05");
    if let Some(text) = &o.replay {
        rep.sample(J::s(text.clone()));
        let t: Vec<&str> = text.split_whitespace().collect();
        let m128 = t.get(1) == Some(&"128");
        let n = |i: usize| t.get(i).and_then(|x| x.parse::<usize>().ok()).unwrap_or(1);
        match t.first().copied() {
            Some("waits") => {
                let w = t.get(2).unwrap_or(&"").split(',').filter_map(|x| usize::from_str_radix(x, 16).ok()).collect();
                let pre = t.get(3).unwrap_or(&"").split(',').filter_map(|x| u8::from_str_radix(x, 16).ok()).collect();
                clock_level(o, &mut model, &mut rep, Some((m128, w, pre)));
            }
            Some("conserve") => conservation(o, &mut rep, Some((m128, n(2), n(3)))),
            Some("conservetape") => conservation_tape(o, &mut rep, Some((m128, n(2)))),
            Some("ints") => interrupts(o, &mut rep, Some((m128, n(2) == 1, n(3)))),
            Some("window") => int_window(&mut rep, &mut model, Some((m128, n(2)))),
            Some("sys") => crate::sys::replay(o, &mut rep, "C05", text),
            Some("haltrun") => halted_overrun(&mut rep, Some((m128, n(2), n(3)))),
            Some("hostop") => host_ops(&mut rep, Some((m128, n(2), n(3)))),
            _ => {}
        }
        return rep;
    }
    clock_level(o, &mut model, &mut rep, None);
    conservation(o, &mut rep, None);
    conservation_tape(o, &mut rep, None);
    interrupts(o, &mut rep, None);
    int_window(&mut rep, &mut model, None);
    halted_overrun(&mut rep, None);
    host_ops(&mut rep, None);
    // interrupt-driven programs across a frame start, in lock-step with the Lean machine
    crate::sys::interrupt_programs(o, &mut rep, "C05");

    rep
}
