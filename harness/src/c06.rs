//! C06 — not built yet.
use crate::util::*;

pub fn run(_o: &Opts) -> Report {
    let mut rep = Report::new("C06");
    rep.notes.push("not built yet".into());
    rep
}
