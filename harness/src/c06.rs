//! C06 — CPU-visible memory follows the Spectrum memory map and 128K paging rules.
//! Real code: ZXMemory + write_7ffd behind the real bus entry points (hook H1: verif_write_io for
//! the paging port incl. partial decodes, verif_write_mem / verif_read_mem / peek for memory),
//! host-supplied ROM sets through Emulator::load_rom.
use crate::host::*;
use crate::util::*;
use rustzx_core::host::{RomFormat, RomSet};

fn rom_byte(seed: usize, o: usize) -> u8 {
    (o * 7 + (o >> 8) * 13 + seed * 29 + 1) as u8
}

struct Roms(Vec<VAsset>);
impl RomSet for Roms {
    type Asset = VAsset;
    fn format(&self) -> RomFormat {
        RomFormat::Binary16KPages
    }
    fn next_asset(&mut self) -> Option<VAsset> {
        if self.0.is_empty() {
            None
        } else {
            Some(self.0.remove(0))
        }
    }
}

#[derive(Clone, Debug)]
enum Op {
    /// paging write through `port` (a port that decodes to the latch on the 128K)
    Out(u16, u8),
    Wr(u16, u8),
    Rd(u16),
    /// a minimal SZX snapshot (header + SPCR chunk with this ch7ffd byte) is loaded: the 48K has no paging to
    /// restore — its map and its deafness to paging writes stay as they are; on the 128K the byte is restored
    /// (unlock, then an ordinary latch write) on top of whatever paging history the machine has
    Szx(u8),
    /// host poke (execute_poke): RAM like a CPU write, below 0x4000 into the ROM page mapped there
    Poke(u16, u8),
    /// the host supplies a new ROM set (Emulator::load_rom) in the middle of the history: the contents of the
    /// ROM pages change, the map (which page is seen below 0x4000), the latch and the lock do not
    Rom(usize, usize),
    /// the host saves an SNA snapshot: what the CPU sees — map, latch, lock, every byte — stays as it was
    Save,
    /// tape fast-load (the ROM's LD-BYTES trap) of `len` pattern bytes to `ix`, ranges that reach below 0x4000 or
    /// wrap past 0xFFFF included: the stores are the ROM routine's `LD (IX+0),L` — ROM ignores them
    Tape(u16, u16),
}

impl Op {
    fn text(&self) -> String {
        match self {
            Op::Out(p, v) => format!("out {:04x} {:02x}", p, v),
            Op::Wr(a, v) => format!("wr {:04x} {:02x}", a, v),
            Op::Rd(a) => format!("rd {:04x}", a),
            Op::Szx(v) => format!("szx {:02x}", v),
            Op::Poke(a, v) => format!("poke {:04x} {:02x}", a, v),
            Op::Rom(a, b) => format!("rom {:x} {:x}", a, b),
            Op::Save => "save".into(),
            Op::Tape(ix, n) => format!("tape {:04x} {:x}", ix, n),
        }
    }
    fn parse(s: &str) -> Option<Op> {
        let t: Vec<&str> = s.split_whitespace().collect();
        let h = |x: &str| u16::from_str_radix(x, 16).ok();
        match t.as_slice() {
            ["out", p, v] => Some(Op::Out(h(p)?, h(v)? as u8)),
            ["wr", a, v] => Some(Op::Wr(h(a)?, h(v)? as u8)),
            ["rd", a] => Some(Op::Rd(h(a)?)),
            ["szx", v] => Some(Op::Szx(h(v)? as u8)),
            ["poke", a, v] => Some(Op::Poke(h(a)?, h(v)? as u8)),
            ["rom", a, b] => Some(Op::Rom(h(a)? as usize, h(b)? as usize)),
            ["save"] => Some(Op::Save),
            ["tape", a, n] => Some(Op::Tape(h(a)?, h(n)?)),
            _ => None,
        }
    }
}

struct Machine {
    e: Emu,
    m128: bool,
    /// the ROM pages are all zero: the byte at the fast-load trap address is a NOP
    zero_rom: bool,
}

fn supply_roms(e: &mut Emu, m128: bool, rom_seeds: Option<(usize, usize)>, lines: &mut Vec<String>) {
    if let Some((s0, s1)) = rom_seeds {
        let mut pages = vec![VAsset::new((0..16384).map(|o| rom_byte(s0, o)).collect())];
        lines.push(format!("rom 0 {:x}", s0));
        if m128 {
            pages.push(VAsset::new((0..16384).map(|o| rom_byte(s1, o)).collect()));
            lines.push(format!("rom 1 {:x}", s1));
        }
        // short reads on the second page exercise read_exact
        if let Some(p) = pages.get_mut(1) {
            p.max_chunk = 1000;
        }
        if e.load_rom(Roms(pages)).is_err() {
            panic!("load_rom failed on a well-formed ROM set");
        }
    }
}

fn fresh(m128: bool, rom_seeds: Option<(usize, usize)>, lines: &mut Vec<String>) -> Machine {
    let mut c = Cfg::new(m128);
    c.fastload = true;
    // input-only peripherals on some machines: they answer reads, a write to one of their addresses is still a
    // write to whatever else decodes there (the paging latch's partial decoding among them)
    c.kempston = rom_seeds.map_or(false, |(a, _)| a % 2 == 1);
    c.mouse = rom_seeds.map_or(false, |(_, b)| b % 3 == 0);
    let mut e = emu(&c);
    e.set_debug_interface(Dbg { break_all: true, ..Default::default() });
    lines.push(format!("new {}", if m128 { 128 } else { 48 }));
    supply_roms(&mut e, m128, rom_seeds, lines);
    Machine { e, m128, zero_rom: rom_seeds.is_none() }
}

/// probe addresses: window edges and one inner byte per window
const PROBES: [u16; 12] = [
    0x0000, 0x1234, 0x3FFF, 0x4000, 0x5ABC, 0x7FFF, 0x8000, 0x9DEF, 0xBFFF, 0xC000, 0xE321, 0xFFFF,
];

struct Check {
    what: String,
    got: String,
}

/// applies ops to the real machine, appending the model requests and what was observed
fn apply(m: &mut Machine, ops: &[Op], probes: &[u16], lines: &mut Vec<String>, checks: &mut Vec<(usize, Check)>) {
    for op in ops {
        match op {
            Op::Out(p, v) => {
                m.e.verif_write_io(*p, *v);
                lines.push(format!("out {:02x}", v));
            }
            Op::Wr(a, v) => {
                m.e.verif_write_mem(*a, *v, 3);
                lines.push(format!("wr {:04x} {:02x}", a, v));
            }
            Op::Szx(v) => {
                let mut f = b"ZXST".to_vec();
                f.extend_from_slice(&[1, 4, if m.m128 { 2 } else { 1 }, 0]);
                f.extend_from_slice(b"SPCR");
                f.extend_from_slice(&8u32.to_le_bytes());
                f.extend_from_slice(&[0, *v, 0, 0, 0, 0, 0, 0]);
                let _ = m.e.load_snapshot(rustzx_core::host::Snapshot::Szx(VAsset::new(f)));
                // 48K: nothing to restore; 128K: the snapshot's latch byte takes effect whatever the lock said before
                lines.push(format!("restore {:02x}", v));
            }
            Op::Poke(a, v) => {
                struct One([rustzx_core::poke::PokeAction; 1]);
                impl rustzx_core::poke::Poke for One {
                    fn actions(&self) -> &[rustzx_core::poke::PokeAction] {
                        &self.0
                    }
                }
                m.e.execute_poke(One([rustzx_core::poke::PokeAction::mem(*a, *v)]));
                if *a < 0x4000 {
                    m.zero_rom = false;
                }
                lines.push(format!("poke {:04x} {:02x}", a, v));
            }
            Op::Rom(a, b) => {
                let m128 = m.m128;
                supply_roms(&mut m.e, m128, Some((*a, *b)), lines);
                m.zero_rom = false;
            }
            Op::Save => {
                let _ = crate::c13::snap::save_sna(&mut m.e);
            }
            Op::Tape(ix, n) => {
                // one TAP block (flag 0xFF, data, parity) entered through the trap address with LOAD parameters; the
                // trap instruction itself is whatever the ROM holds there — on these machines a byte of a pattern page
                // or zero — so the CPU registers are restored afterwards and only memory is compared
                let data: Vec<u8> = (0..*n as usize).map(|i| (i as u8).wrapping_mul(5).wrapping_add(*ix as u8) | 1).collect();
                let mut blk = vec![0xFFu8];
                blk.extend_from_slice(&data);
                let par = blk.iter().fold(0u8, |a, b| a ^ b);
                blk.push(par);
                let mut tap = vec![(blk.len() & 0xFF) as u8, (blk.len() >> 8) as u8];
                tap.extend_from_slice(&blk);
                let trap_ready = m.zero_rom && m.e.load_tape(rustzx_core::host::Tape::Tap(VAsset::new(tap))).is_ok();
                if trap_ready {
                    let saved_pc;
                    {
                        let cpu = m.e.verif_cpu();
                        saved_pc = cpu.regs.get_pc();
                        cpu.regs.set_af(0xFF01);
                        cpu.regs.swap_af_alt();
                        cpu.regs.set_ix(*ix);
                        cpu.regs.set_de(*n);
                        cpu.regs.set_sp(0x9000);
                        cpu.regs.set_pc(0x056A);
                        cpu.regs.set_iff1(false);
                        cpu.halted = false;
                    }
                    let _ = m.e.emulate_frames(std::time::Duration::from_secs(1));
                    let loaded = m.e.verif_cpu().regs.get_ix().wrapping_sub(*ix) as usize;
                    m.e.verif_cpu().regs.set_pc(saved_pc);
                    for (i, v) in data.iter().enumerate().take(loaded.min(data.len())) {
                        lines.push(format!("wr {:04x} {:02x}", ix.wrapping_add(i as u16), v));
                    }
                    // the return address the trap pops lies at 0x9000/0x9001: read only
                }
            }
            Op::Rd(a) => {
                let got = m.e.verif_read_mem(*a, 3);
                checks.push((lines.len(), Check { what: format!("read {:04x}", a), got: format!("{:02x}", got) }));
                lines.push(format!("rd {:04x}", a));
            }
        }
        // after every operation: paging registers and the probe addresses through peek
        let (l, en, sb) = m.e.verif_paging();
        checks.push((lines.len(), Check { what: "paging".into(), got: format!("{:02x} {} {}", l, en as u8, sb) }));
        lines.push("pg".into());
        for a in probes {
            let got = m.e.peek(*a);
            checks.push((lines.len(), Check { what: format!("peek {:04x}", a), got: format!("{:02x}", got) }));
            lines.push(format!("rd {:04x}", a));
        }
    }
}

struct Fail {
    kind: Kind,
    what: String,
    got: String,
    want: String,
}

fn compare(m128: bool, answers: &[String], checks: &[(usize, Check)], rep: Option<&mut Report>) -> Option<Fail> {
    let mut rep = rep;
    for (idx, c) in checks {
        let ans = &answers[*idx];
        if let Some(r) = rep.as_deref_mut() {
            r.eval();
        }
        if c.what == "paging" {
            // model: "<7ffd> <enabled> <screen> <specLatch> <specLocked> <specScreen>"
            let t: Vec<&str> = ans.split(' ').collect();
            let model = format!("{} {} {}", t[0], t[1], t[2]);
            let spec = if m128 {
                format!("{} {} {}", t[3], if t[4] == "1" { 0 } else { 1 }, t[5])
            } else {
                // 48K: latch stays 0, paging never enabled, screen "bank" 0
                "00 0 0".to_string()
            };
            if c.got != spec {
                return Some(Fail { kind: Kind::SpecViolated, what: "paging state (latch, enabled, screen bank)".into(), got: c.got.clone(), want: spec });
            }
            if c.got != model {
                return Some(Fail { kind: Kind::ModelMismatch, what: "paging state (latch, enabled, screen bank)".into(), got: c.got.clone(), want: model });
            }
        } else {
            let mut it = ans.split(' ');
            let model = it.next().unwrap_or("");
            let spec = it.next().unwrap_or("");
            if let Some(r) = rep.as_deref_mut() {
                if c.got != "00" {
                    r.class(format!("{} {}={}", if m128 { 128 } else { 48 }, c.what, c.got));
                }
            }
            if c.got != spec {
                return Some(Fail { kind: Kind::SpecViolated, what: c.what.clone(), got: c.got.clone(), want: spec.to_string() });
            }
            if c.got != model {
                return Some(Fail { kind: Kind::ModelMismatch, what: c.what.clone(), got: c.got.clone(), want: model.to_string() });
            }
        }
    }
    None
}

fn run_case(model: &mut Model, m128: bool, roms: Option<(usize, usize)>, ops: &[Op], probes: &[u16], rep: Option<&mut Report>) -> Option<Fail> {
    let mut lines = vec![];
    let mut checks = vec![];
    let mut m = fresh(m128, roms, &mut lines);
    // the code under test may panic (remap of a page that does not exist): one operation at a time, so that the
    // history up to the panic is the failing input
    for (k, op) in ops.iter().enumerate() {
        let (l0, c0) = (lines.len(), checks.len());
        let r = std::panic::catch_unwind(std::panic::AssertUnwindSafe(|| {
            apply(&mut m, std::slice::from_ref(op), probes, &mut lines, &mut checks);
        }));
        if r.is_err() {
            lines.truncate(l0);
            checks.truncate(c0);
            let answers = model.ask_many(&lines);
            if let Some(f) = compare(m.m128, &answers, &checks, None) {
                return Some(f);
            }
            return Some(Fail {
                kind: Kind::SpecViolated,
                what: format!("operation #{} ({}) panics inside rustzx: {}", k, op.text(), crate::util::LAST_PANIC.lock().map(|m| m.clone()).unwrap_or_default()),
                got: "panic".into(),
                want: "no panic: every paging value and every address is served".into(),
            });
        }
    }
    let answers = model.ask_many(&lines);
    compare(m.m128, &answers, &checks, rep)
}

fn case_text(m128: bool, roms: Option<(usize, usize)>, ops: &[Op]) -> String {
    let mut s = format!("{} roms={}", if m128 { 128 } else { 48 }, roms.map(|(a, b)| format!("{:x},{:x}", a, b)).unwrap_or("-".into()));
    for o in ops {
        s.push_str(" ; ");
        s.push_str(&o.text());
    }
    s
}

fn parse_case(s: &str) -> (bool, Option<(usize, usize)>, Vec<Op>) {
    let mut parts = s.split(';').map(|x| x.trim());
    let head: Vec<&str> = parts.next().unwrap_or("").split_whitespace().collect();
    let m128 = head.first() == Some(&"128");
    let roms = head.get(1).and_then(|r| {
        let r = r.trim_start_matches("roms=");
        let mut it = r.split(',');
        Some((usize::from_str_radix(it.next()?, 16).ok()?, usize::from_str_radix(it.next()?, 16).ok()?))
    });
    (m128, roms, parts.filter_map(Op::parse).collect())
}

fn shrink(model: &mut Model, m128: bool, roms: Option<(usize, usize)>, ops: &[Op], kind: Kind) -> Vec<Op> {
    let fails = |model: &mut Model, ops: &[Op]| matches!(run_case(model, m128, roms, ops, &PROBES, None), Some(ref f) if f.kind == kind);
    let mut cur = ops.to_vec();
    let mut chunk = (cur.len() / 2).max(1);
    loop {
        let mut i = 0;
        let mut changed = false;
        while i < cur.len() {
            let end = (i + chunk).min(cur.len());
            let mut cand = cur[..i].to_vec();
            cand.extend_from_slice(&cur[end..]);
            if !cand.is_empty() && fails(model, &cand) {
                cur = cand;
                changed = true;
            } else {
                i = end;
            }
        }
        if chunk == 1 && !changed {
            return cur;
        }
        chunk = (chunk / 2).max(1);
    }
}

fn op_class(o: &Op) -> String {
    match o {
        Op::Out(p, v) => format!("out[{}{}{}]{}", if v & 0x20 != 0 { "L" } else { "" }, if v & 0x10 != 0 { "R" } else { "" }, if v & 8 != 0 { "S" } else { "" }, if *p == 0x7FFD { "" } else { "~" }),
        Op::Wr(a, _) => format!("wr@{:x}", a >> 14),
        Op::Rd(a) => format!("rd@{:x}", a >> 14),
        Op::Szx(_) => "szx-load".into(),
        Op::Poke(a, _) => format!("poke@{:x}", a >> 14),
        Op::Rom(..) => "host-rom-set".into(),
        Op::Save => "host-sna-save".into(),
        Op::Tape(ix, n) => format!("fast-load{}", if (*ix as u32) < 0x4000 || *ix as u32 + *n as u32 > 0x10000 { "-through-rom" } else { "" }),
    }
}

fn report(model: &mut Model, rep: &mut Report, m128: bool, roms: Option<(usize, usize)>, ops: &[Op], f: Fail) {
    let small = shrink(model, m128, roms, ops, f.kind);
    let f2 = run_case(model, m128, roms, &small, &PROBES, None).unwrap_or(f);
    let classes: Vec<String> = small.iter().map(op_class).collect();
    rep.violation(Violation {
        kind: f2.kind,
        key: format!("C06/{}/{}/{}", if m128 { "128k" } else { "48k" }, classes.join(","), f2.what.split(' ').next().unwrap_or("")),
        what: format!("after [{}]: {} is {} but {} says {}", small.iter().map(|o| o.text()).collect::<Vec<_>>().join("; "),
            f2.what, f2.got, if f2.kind == Kind::SpecViolated { "the memory-map spec" } else { "the Lean model" }, f2.want),
        correspondence: "corr.C06.memory-history (Model.Machine.Ctl.write7ffd/Mem vs write_7ffd/ZXMemory)".into(),
        case: J::obj(vec![("text", J::s(case_text(m128, roms, &small)))]),
        implementation: f2.got,
        expected: f2.want,
    });
}

/// a port that the 128K decodes to the paging latch (A15=0, A1=0, A0=1)
fn paging_port(rng: &mut Rng) -> u16 {
    if rng.chance(1, 2) {
        0x7FFD
    } else {
        (rng.u16() & 0x7FFC) | 0x0001
    }
}

fn random_ops(rng: &mut Rng, n: usize) -> Vec<Op> {
    let addr = |r: &mut Rng| -> u16 {
        match r.below(4) {
            0 => *r.pick(&PROBES),
            1 => (r.below(4) as u16) << 14 | (r.below(4) as u16),
            2 => ((r.below(4) as u16) << 14 | 0x3FFC) + r.below(4) as u16,
            _ => r.u16(),
        }
    };
    (0..n)
        .map(|_| match rng.below(10) {
            0..=2 => {
                // lock bit rarely, so that long unlocked stretches exist
                let mut v = rng.u8();
                if !rng.chance(1, 8) {
                    v &= !0x20;
                }
                Op::Out(paging_port(rng), v)
            }
            3 if rng.chance(1, 6) => Op::Szx(rng.u8()),
            4 if rng.chance(1, 5) => Op::Rom(rng.below(200) as usize, rng.below(200) as usize),
            5 if rng.chance(1, 5) => Op::Save,
            7 if rng.chance(1, 4) => Op::Poke(addr(rng), rng.u8() | 1),
            6 if rng.chance(1, 6) => {
                let n = rng.range(1, 40) as u16;
                let ix = match rng.below(4) { 0 => 0x3FF0u16.wrapping_add(rng.below(20) as u16), 1 => 0xFFF0u16.wrapping_add(rng.below(12) as u16), 2 => 0xBFF0 + rng.below(20) as u16, _ => rng.u16() };
                Op::Tape(ix, n)
            }
            3..=7 => Op::Wr(addr(rng), rng.u8() | 1),
            _ => Op::Rd(addr(rng)),
        })
        .collect()
}

/// Machines built with and without tape autoload and fast loading, a host-supplied ROM set, then one host
/// operation (tape insertion — which with autoload loads the built-in loader snapshot —, tape commands, a screen
/// load, a snapshot save, a 48K/128K snapshot load): every byte of every ROM page still reads as supplied.
fn host_rom_survives(o: &Opts, rep: &mut Report) {
    let mut rng = Rng::new(o.seed ^ 0x4057);
    for k in 0..o.n(24, 240) as usize {
        let m128 = k % 2 == 1;
        let autoload = (k / 2) % 2 == 0;
        let op = (k / 4) % 6;
        let (s0, s1) = (1 + rng.below(200) as usize, 1 + rng.below(200) as usize);
        let mut c = Cfg::new(m128);
        c.fastload = k % 3 == 0;
        let mut st = settings(&c);
        st.autoload_enabled = autoload;
        let mut e: Emu = match rustzx_core::Emulator::new(st, Ctx) {
            Ok(e) => e,
            Err(_) => panic!("Emulator::new failed"),
        };
        let mut dummy = vec![];
        supply_roms(&mut e, m128, Some((s0, s1)), &mut dummy);
        let tap = || {
            let mut blk = vec![0xFFu8, 1, 2, 3];
            let par = blk.iter().fold(0u8, |a, b| a ^ b);
            blk.push(par);
            let mut t = vec![blk.len() as u8, 0];
            t.extend_from_slice(&blk);
            t
        };
        let what = match op {
            0 | 1 => {
                let _ = e.load_tape(rustzx_core::host::Tape::Tap(VAsset::new(tap())));
                if op == 1 {
                    e.play_tape();
                    let _ = e.emulate_frames(std::time::Duration::from_secs(1));
                    e.stop_tape();
                    let _ = e.rewind_tape();
                }
                if op == 0 { "load_tape" } else { "load_tape, play, one frame, stop, rewind" }
            }
            2 => {
                let _ = e.load_screen(rustzx_core::host::Screen::Scr(VAsset::new(vec![0x55; 6912])));
                "load_screen"
            }
            3 => {
                let _ = crate::c13::snap::save_sna(&mut e);
                "save_snapshot"
            }
            4 => {
                let src = crate::c13::snap::MState::fresh(m128);
                let mut se = crate::c13::snap::build(&src);
                if let Ok(b) = crate::c13::snap::save_sna(&mut se) {
                    let _ = e.load_snapshot(rustzx_core::host::Snapshot::Sna(VAsset::new(b)));
                }
                "load_snapshot (SNA)"
            }
            _ => {
                let _ = e.load_tape(rustzx_core::host::Tape::Tap(VAsset::new(tap())));
                let _ = e.load_tape(rustzx_core::host::Tape::Tap(VAsset::new(tap())));
                "load_tape twice"
            }
        };
        // every ROM page: the page mapped now, and on an unlocked 128K the other one through the latch
        let mut bad: Option<String> = None;
        let (lat, en, _) = e.verif_paging();
        let pages: Vec<usize> = if !m128 { vec![0] } else if en { vec![((lat >> 4) & 1) as usize, 1 - ((lat >> 4) & 1) as usize] } else { vec![((lat >> 4) & 1) as usize] };
        for (i, pg) in pages.iter().enumerate() {
            if i == 1 {
                e.verif_write_io(0x7FFD, (lat & 0xEF) | ((*pg as u8) << 4));
            }
            let seed = if *pg == 0 { s0 } else { s1 };
            for a in 0..0x4000usize {
                let got = e.peek(a as u16);
                if got != rom_byte(seed, a) && bad.is_none() {
                    bad = Some(format!("ROM page {} at 0x{:04x} reads {:02x}, the supplied image holds {:02x}", pg, a, got, rom_byte(seed, a)));
                }
            }
        }
        rep.eval();
        rep.count("host_rom_survives", format!("{} autoload={} m128={}", what, autoload as u8, m128 as u8));
        if let Some(b) = bad {
            rep.violation(Violation {
                kind: Kind::SpecViolated,
                key: format!("C06/host-rom/{}", what.split(&[' ', ','][..]).next().unwrap_or("op")),
                what: format!("{} built with autoload={} fastload={}, host ROM set supplied, then {}: {}", if m128 { "128K" } else { "48K" }, autoload, c.fastload, what, b),
                correspondence: "corr.C06.paging (0x0000-0x3FFF reads the ROM image supplied for the machine)".into(),
                case: J::obj(vec![("text", J::s(format!("hostrom seed={} k={}", o.seed, k)))]),
                implementation: b,
                expected: "the supplied ROM image".into(),
            });
            return;
        }
    }
}

pub fn run(o: &Opts) -> Report {
    let mut rep = Report::new("C06");
    rep.rule = "exhaustive part: from every one of the 64 paging states (bank 0-7 x screen x ROM x lock) every one of the \
256 latch values is written, with marker bytes unique per RAM bank and ROM page; random part: seeded histories (<=40 ops) \
of paging writes (canonical and partially decoded port addresses), memory writes and reads through all four windows, \
on both machines, with host-supplied ROM sets (at the start and again in the middle of a history, e.g. while ROM 1 is selected or paging is locked), host SNA saves, SZX loads that restore a latch byte on top of the paging history, host pokes (into the mapped ROM page too) and tape fast-loads whose range reaches below 0x4000 or wraps past 0xFFFF; after every operation the paging registers and 12 probe addresses are \
compared; plus whole-machine lock-step runs of CPU programs made of 16-bit loads/stores/stack operations straddling the window boundaries, with the complete RAM of all banks compared afterwards. distinct/non-trivial = distinct (machine, address, non-zero value read) observations".into();
    let mut model = Model::spawn(&o.model, "C06");

    if let Some(text) = &o.replay {
        if text.starts_with("hostrom") {
            rep.sample(J::s(text.clone()));
            host_rom_survives(o, &mut rep);
            return rep;
        }
        let (m128, roms, ops) = parse_case(text);
        rep.sample(J::s(text.clone()));
        if text.starts_with("sys ") {
            crate::sys::replay(o, &mut rep, "C06", text);
            return rep;
        }
        if let Some(f) = run_case(&mut model, m128, roms, &ops, &PROBES, Some(&mut rep)) {
            report(&mut model, &mut rep, m128, roms, &ops, f);
        }
        return rep;
    }

    // 0. the ROM the host supplied is what 0x0000-0x3FFF reads after every host operation that is not a ROM load
    host_rom_survives(o, &mut rep);

    // 1. exhaustive 64 x 256 on the 128K (and the same values on the 48K, where nothing may change)
    let markers: Vec<Op> = {
        // bank b gets marker 0xA0+b at offsets 0 and 0x3FFF (written through the 0xC000 window)
        let mut v = vec![];
        for b in 0..8u8 {
            v.push(Op::Out(0x7FFD, b));
            v.push(Op::Wr(0xC000, 0xA0 + b));
            v.push(Op::Wr(0xFFFF, 0xB0 + b));
        }
        v
    };
    let probes_small: [u16; 6] = [0x0000, 0x4000, 0x8000, 0xC000, 0xFFFF, 0x7FFF];
    for state in 0..64u8 {
        let s = (state & 0x1F) | if state & 0x20 != 0 { 0x20 } else { 0 };
        for v in 0..=255u8 {
            // unlocked states continue on the same machine only through values without the lock bit;
            // for simplicity and independence every (state, value) gets a fresh machine
            let mut ops = markers.clone();
            ops.push(Op::Out(0x7FFD, s));
            ops.push(Op::Out(0x7FFD, v));
            let mut lines = vec![];
            let mut checks = vec![];
            let mut m = fresh(true, Some((3, 9)), &mut lines);
            // markers and state setup are not probed individually
            apply(&mut m, &ops[..ops.len() - 1], &[], &mut lines, &mut checks);
            apply(&mut m, &ops[ops.len() - 1..], &probes_small, &mut lines, &mut checks);
            let answers = model.ask_many(&lines);
            rep.count("exhaustive_states", if state & 0x20 != 0 { "from a locked state" } else { "from an unlocked state" });
            if let Some(f) = compare(true, &answers, &checks, Some(&mut rep)) {
                report(&mut model, &mut rep, true, Some((3, 9)), &ops, f);
            }
        }
    }
    // 1b. a host ROM set supplied in every one of the 64 paging states: new contents, same map
    for state in 0..64u8 {
        let ops = vec![Op::Out(0x7FFD, state), Op::Rom(11 + state as usize, 77 + state as usize), Op::Rd(0x0000), Op::Out(0x7FFD, state ^ 0x10), Op::Rd(0x3FFF)];
        if let Some(f) = run_case(&mut model, true, Some((3, 9)), &ops, &PROBES, Some(&mut rep)) {
            report(&mut model, &mut rep, true, Some((3, 9)), &ops, f);
        }
        rep.count("exhaustive_states", "host ROM set in a paging state");
    }
    for v in 0..=255u8 {
        let ops = vec![Op::Wr(0xC000, 0x5A), Op::Out(0x7FFD, v), Op::Out(0x7FFD & 0x00FD | 0x0100, v)];
        if let Some(f) = run_case(&mut model, false, Some((5, 0)), &ops, &PROBES, Some(&mut rep)) {
            report(&mut model, &mut rep, false, Some((5, 0)), &ops, f);
        }
        rep.count("exhaustive_states", "48K");
    }
    rep.sample(J::s(case_text(true, Some((3, 9)), &[Op::Out(0x7FFD, 0x17), Op::Wr(0xC005, 0xAB), Op::Out(0x7FFD, 0x07), Op::Rd(0xC005)])));

    // 2. random histories
    let mut rng = Rng::new(o.seed);
    let n = o.n(700, 100_000);
    for h in 0..n {
        let mut r = rng.fork();
        let m128 = r.chance(3, 4);
        let roms = if r.chance(2, 3) { Some((r.below(200) as usize, r.below(200) as usize)) } else { None };
        let len = r.range(1, 40) as usize;
        let ops = random_ops(&mut r, len);
        for op in &ops {
            rep.count("ops", op_class(op));
        }
        if h < 2 {
            rep.sample(J::s(case_text(m128, roms, &ops)));
        }
        if let Some(f) = run_case(&mut model, m128, roms, &ops, &PROBES, Some(&mut rep)) {
            report(&mut model, &mut rep, m128, roms, &ops, f);
        }
    }
    rep.extra.push(("histories".into(), J::I(n as i64)));
    // 3. the same map through the CPU: whole-machine lock-step of programs made of 16-bit loads, stores
    // and stack operations whose two bytes straddle the 16K window boundaries, random latch values; the
    // complete RAM (all banks, mapped or not) is compared with the Lean machine afterwards
    let ts: Vec<usize> = (0..40).map(|i| i * 1700).collect();
    crate::sys::lockstep(o, &mut rep, "C06", o.n(1200, 60_000), &ts, &ts, true);
    rep
}
