//! C07 — port addresses reach the right device under Spectrum partial decoding.
//! Exhaustive: every one of the 65536 port addresses x {read, write} x {48K, 128K} x
//! {kempston, mouse, extender on/off}, through the real `read_io`/`write_io` (hook H1), the device
//! reached being identified by its side effect / the distinguishable value it returns.
//! Plus the floating bus for every T-state of a frame.
use crate::host::*;
use crate::util::*;
use rustzx_core::zx::{
    joy::kempston::KempstonKey,
    mouse::kempston::{KempstonMouseButton, KempstonMouseWheelDirection},
    video::colors::ZXColor,
};

const READ_DEV: [&str; 8] = [
    "extender",
    "ula",
    "mouse.buttons",
    "mouse.x",
    "mouse.y",
    "ay",
    "kempston",
    "floating",
];
const WRITE_DEV: [&str; 6] = ["extender", "ay.select", "ay.data", "ula", "paging", "none"];

#[derive(Clone, Copy)]
struct IoCfg {
    m128: bool,
    kempston: bool,
    mouse: bool,
    ext_mask: u16,
    ext_val: u16,
    /// AY *sound* switched off in the settings (the chip's ports must work all the same)
    ay_off: bool,
}

impl IoCfg {
    fn name(&self) -> String {
        format!(
            "{}{}{}{}{}",
            if self.m128 { "128k" } else { "48k" },
            if self.ay_off { "+aysound-off" } else { "" },
            if self.kempston { "+kempston" } else { "" },
            if self.mouse { "+mouse" } else { "" },
            if self.ext_mask != 0 || self.ext_val == 0 {
                format!("+ext({:04x}/{:04x})", self.ext_mask, self.ext_val)
            } else {
                String::new()
            }
        )
    }
    fn has_ext(&self) -> bool {
        // mask 0 / val 1 can never match: "no extender"
        !(self.ext_mask == 0 && self.ext_val != 0)
    }
}

/// canonical ports for preparing/restoring device state, chosen outside the extender's claim
#[derive(Clone, Copy)]
struct Canon {
    ay_sel: u16,
    ay_dat: u16,
    ay_read: u16,
    ula: u16,
    pg: u16,
}

fn canon(cfg: &IoCfg) -> Canon {
    let free = |p: u16| !cfg.has_ext() || (p & cfg.ext_mask) != cfg.ext_val;
    let pick = |f: &dyn Fn(u16) -> bool| (0..=0xFFFFu16).rev().find(|p| free(*p) && f(*p)).expect("no canonical port");
    Canon {
        ay_sel: pick(&|p| p & 0xC002 == 0xC000 && p & 1 == 1),
        ay_dat: pick(&|p| p & 0xC002 == 0x8000 && p & 1 == 1),
        ay_read: pick(&|p| p & 0xC002 == 0xC000 && p & 0x21 == 0x21),
        ula: pick(&|p| p & 1 == 0 && p & 0xC002 != 0xC000 && p & 0xC002 != 0x8000),
        pg: pick(&|p| p & 0x8002 == 0 && p & 1 == 1),
    }
}

/// Distinguishable device states: ULA 0xBF/0xBE/0xBD/0xBC by selected half-rows (keys A and L held), Kempston 0x15, mouse buttons 0xF5 (wheel 15),
/// X 0x3C, Y 0x5A, AY register 3 = 0x77 selected, extender 0xE7, floating (border time) 0xFF.
fn prepared(cfg: &IoCfg) -> Emu {
    let mut c = Cfg::new(cfg.m128);
    c.kempston = cfg.kempston;
    c.mouse = cfg.mouse;
    c.ay = !cfg.ay_off;
    c.sound = true;
    let mut e = emu(&c);
    {
        // the machine has been through a snapshot load (an SZX with nothing but an SPCR chunk: border 0, latch 0):
        // what decodes where must not depend on that
        let mut f = b"ZXST".to_vec();
        f.extend_from_slice(&[1, 4, if cfg.m128 { 2 } else { 1 }, 0]);
        f.extend_from_slice(b"SPCR");
        f.extend_from_slice(&8u32.to_le_bytes());
        f.extend_from_slice(&[0, 0, 0, 0, 0, 0, 0, 0]);
        let _ = e.load_snapshot(rustzx_core::host::Snapshot::Szx(VAsset::new(f)));
    }
    if cfg.has_ext() {
        e.set_io_extender(Ext {
            mask: cfg.ext_mask,
            val: cfg.ext_val,
            read_value: 0xE7,
            log: vec![],
        });
    }
    e.send_kempston_key(KempstonKey::Right, true);
    e.send_kempston_key(KempstonKey::Down, true);
    e.send_kempston_key(KempstonKey::Fire, true);
    e.send_mouse_button(KempstonMouseButton::Right, true);
    e.send_mouse_button(KempstonMouseButton::Additional, true);
    let _ = KempstonMouseWheelDirection::Up;
    e.send_mouse_pos_diff(0x3D, 0);
    e.send_mouse_pos_diff(0, -0x5B);
    // AY: reg 3 := 0x77 and stay on reg 3; reg 0 := 0x11, reg 2 := 0x22 for the write sweep
    let k = canon(cfg);
    e.verif_write_io(k.ay_sel, 0);
    e.verif_write_io(k.ay_dat, 0x11);
    e.verif_write_io(k.ay_sel, 2);
    e.verif_write_io(k.ay_dat, 0x22);
    e.verif_write_io(k.ay_sel, 3);
    e.verif_write_io(k.ay_dat, 0x77);
    // two keys in different half-rows stay down during the whole sweep
    e.send_key(rustzx_core::zx::keys::ZXKey::A, true);
    e.send_key(rustzx_core::zx::keys::ZXKey::L, true);
    // a tape is inserted and stands still at its low level
    {
        let mut blk = vec![0x00u8; 19];
        blk[18] = blk.iter().fold(0, |a, b| a ^ b);
        let mut tap = vec![19u8, 0];
        tap.extend_from_slice(&blk);
        let _ = e.load_tape(rustzx_core::host::Tape::Tap(VAsset::new(tap)));
    }
    // speaker bit on (border stays black): bit 6 of a ULA read is the tape EAR input, not the speaker latch
    e.verif_write_io(k.ula, 0x10);
    if let Some(x) = e.io_extender() {
        x.log.clear();
    }
    e
}

/// keys held during the sweep: A (half-row 1, bit 0) and L (half-row 6, bit 1) — a ULA read shows the
/// AND of the half-rows whose selector bit (A8..A15) is 0, bit 6 = EAR (low), bits 5 and 7 set
fn expected_ula(high: u8) -> u8 {
    let mut v = 0xFFu8;
    if high & 0x02 == 0 {
        v &= 0xFE;
    }
    if high & 0x40 == 0 {
        v &= 0xFD;
    }
    v & 0xBF
}

fn classify_read(v: u8, ext_hit: bool, port: u16) -> Option<usize> {
    if ext_hit {
        return Some(0);
    }
    if v == expected_ula((port >> 8) as u8) {
        return Some(1);
    }
    match v {
        0xF5 => Some(2),
        0x3C => Some(3),
        0x5A => Some(4),
        0x77 => Some(5),
        0x15 => Some(6),
        0xFF => Some(7),
        _ => None,
    }
}

fn parse_table(s: &str) -> Vec<(usize, u8)> {
    let b = s.as_bytes();
    assert_eq!(b.len(), 65536 * 3, "table has wrong size");
    let hx = |c: u8| (c as char).to_digit(16).unwrap() as u8;
    (0..65536)
        .map(|i| (hx(b[3 * i]) as usize, hx(b[3 * i + 1]) * 16 + hx(b[3 * i + 2])))
        .collect()
}

fn bit_class(port: u16) -> String {
    // the address lines the devices decode
    format!(
        "A15A14={}{} A10A8={}{} A7-5={}{}{} A1A0={}{}",
        port >> 15 & 1,
        port >> 14 & 1,
        port >> 10 & 1,
        port >> 8 & 1,
        port >> 7 & 1,
        port >> 6 & 1,
        port >> 5 & 1,
        port >> 1 & 1,
        port & 1
    )
}

fn record(
    rep: &mut Report,
    cfg: &IoCfg,
    dir: &str,
    port: u16,
    got: Option<usize>,
    raw: String,
    model_dev: usize,
    acceptable: u8,
    names: &[&str],
) {
    let got_name = got.map(|g| names[g].to_string()).unwrap_or(format!("unrecognised({})", raw));
    let spec_ok = match got {
        Some(g) => acceptable & (1 << g) != 0,
        None => false,
    };
    let case = format!("{} {} {} {:04x}{}", if cfg.m128 { 128 } else { 48 }, cfg_text(cfg), dir, port, if cfg.ay_off { " ayoff" } else { "" });
    if !spec_ok {
        let want: Vec<&str> = (0..names.len()).filter(|i| acceptable & (1 << i) != 0).map(|i| names[i]).collect();
        rep.violation(Violation {
            kind: Kind::SpecViolated,
            key: format!("C07/{}/{}->{}/{}", dir, want.join("|"), got_name, bit_class(port)),
            what: format!(
                "{} {} of port {:04x} reaches {} but it selects exactly {}",
                cfg.name(), dir, port, got_name, want.join("|")
            ),
            correspondence: "corr.C07.port-sweep (Model.Machine.readDecode/writeDecode vs read_io/write_io)".into(),
            case: J::obj(vec![("text", J::s(case))]),
            implementation: got_name,
            expected: want.join("|"),
        });
    } else if got != Some(model_dev) {
        rep.violation(Violation {
            kind: Kind::ModelMismatch,
            key: format!("C07/{}/model:{}->{}/{}", dir, names[model_dev], got_name, bit_class(port)),
            what: format!(
                "{} {} of port {:04x} reaches {} but the Lean model routes it to {} (several devices selected: the property does not decide)",
                cfg.name(), dir, port, got_name, names[model_dev]
            ),
            correspondence: "corr.C07.port-sweep (Model.Machine.readDecode/writeDecode vs read_io/write_io)".into(),
            case: J::obj(vec![("text", J::s(case))]),
            implementation: got_name,
            expected: names[model_dev].to_string(),
        });
    }
}

fn cfg_text(c: &IoCfg) -> String {
    format!("{} {} {:04x} {:04x}", c.kempston as u8, c.mouse as u8, c.ext_mask, c.ext_val)
}

fn read_one(e: &mut Emu, port: u16) -> (Option<usize>, String) {
    e.verif_set_frame_clocks(0);
    let v = e.verif_read_io(port);
    let hit = e.io_extender().map(|x| !x.log.is_empty()).unwrap_or(false);
    if let Some(x) = e.io_extender() {
        x.log.clear();
    }
    (classify_read(v, hit, port), format!("{:02x}", v))
}

/// performs the write, observes which device changed, restores the device state
fn write_one(e: &mut Emu, cfg: &IoCfg, port: u16) -> (Option<usize>, String) {
    let k = canon(cfg);
    e.verif_set_frame_clocks(0);
    let before_pg = e.verif_paging().0;
    e.verif_write_io(port, 0x02);
    let mut hits = vec![];
    if e.io_extender().map(|x| !x.log.is_empty()).unwrap_or(false) {
        hits.push(0);
        e.io_extender().unwrap().log.clear();
    }
    // AY select: now reg 2 (0x22) instead of reg 3 (0x77); AY data: reg 3 became 0x02
    let ay = e.verif_read_io(k.ay_read);
    if let Some(x) = e.io_extender() {
        x.log.clear();
    }
    if ay == 0x22 {
        hits.push(1);
        e.verif_write_io(k.ay_sel, 3);
    } else if ay == 0x02 {
        hits.push(2);
        e.verif_write_io(k.ay_dat, 0x77);
    } else if ay != 0x77 {
        return (None, format!("ay={:02x}", ay));
    }
    if !matches!(e.border_color(), ZXColor::Black) {
        hits.push(3);
        e.verif_write_io(k.ula, 0);
    }
    if e.verif_paging().0 != before_pg {
        hits.push(4);
        if cfg.m128 {
            e.verif_write_io(k.pg, 0);
        }
    }
    if let Some(x) = e.io_extender() {
        x.log.clear();
    }
    match hits.len() {
        0 => (Some(5), "none".into()),
        1 => (Some(hits[0]), String::new()),
        _ => (None, format!("several:{:?}", hits)),
    }
}

fn configs(o: &Opts) -> Vec<IoCfg> {
    let mut v = vec![];
    // extender predicates: none; a narrow one (the test suite's debug port 0xCCCC); one overlapping the
    // ULA and AY ranges ("claims every port with A7..A4 = 1111")
    let exts: Vec<(u16, u16)> = if o.thorough() {
        vec![(0, 1), (0xFFFF, 0xCCCC), (0x00F0, 0x00F0), (0x0101, 0x0101)]
    } else {
        vec![(0, 1), (0x00F0, 0x00F0)]
    };
    for m128 in [false, true] {
        for kempston in [false, true] {
            for mouse in [false, true] {
                for (em, ev) in &exts {
                    v.push(IoCfg { m128, kempston, mouse, ext_mask: *em, ext_val: *ev, ay_off: false });
                }
            }
        }
    }
    // the AY chip's ports do not depend on whether its *sound* is mixed in
    for m128 in [false, true] {
        v.push(IoCfg { m128, kempston: false, mouse: false, ext_mask: 0, ext_val: 1, ay_off: true });
    }
    v
}

fn floating_bus(o: &Opts, model: &mut Model, rep: &mut Report) {
    for m128 in [false, true] {
        let frame = if m128 { 70908 } else { 69888 };
        let mut c = Cfg::new(m128);
        c.ay = true;
        let mut e = emu(&c);
        model.ask(&format!("new {}", if m128 { 128 } else { 48 }));
        // screen memory pattern: byte = f(address), never 0xFF so that "idle" is recognisable
        let pat = |a: u16, k: u32| -> u8 {
            let v = (a as u32).wrapping_mul(97).wrapping_add(a as u32 >> 7).wrapping_add(k * 41) as u8;
            if v == 0xFF {
                0x7E
            } else {
                v
            }
        };
        let patterns = o.n(1, 3) as u32;
        for k in 0..patterns {
            for a in 0x4000u16..0x5B00 {
                e.verif_write_mem(a, pat(a, k), 0);
            }
            // the clock may only move forward inside a frame (the screen renderer keeps a cursor):
            // eight interleaved passes of stride 8 cover every T-state; a pass ends by finishing the frame
            let mut ts: Vec<usize> = vec![];
            for pass in 0..8 {
                let mut t = pass;
                while t < frame - 8 {
                    ts.push(t);
                    t += 8;
                }
            }
            let lines: Vec<String> = ts.iter().map(|t| format!("fbus {:x}", t + 3)).collect();
            let answers = model.ask_many(&lines);
            for (t, ans) in ts.iter().zip(answers.iter()) {
                let cur = e.verif_frame_clocks();
                if *t < cur {
                    e.verif_wait(frame - cur);
                }
                e.verif_set_frame_clocks(*t);
                // port 0x00FF: no device, high byte in ROM (no contention): value sampled at t+3
                let got = e.verif_read_io(0x00FF);
                rep.eval();
                let (exp_model, addr) = if ans == "-" {
                    (0xFF, None)
                } else {
                    let a = u16::from_str_radix(ans, 16).unwrap();
                    (pat(a, k), Some(a))
                };
                if addr.is_some() {
                    rep.class(format!("fbus {} addr-class {:04x}", m128, addr.unwrap() & 0xFF00));
                    rep.count("floating_bus", "fetching");
                } else {
                    rep.count("floating_bus", "idle");
                }
                // spec: idle outside the fetch windows (lines 0..191, first 128-4 T of the line after
                // T_first+2), otherwise a byte of the display/attribute memory
                let first = if m128 { 14362 } else { 14336 } + 2;
                let line_len = if m128 { 228 } else { 224 };
                let s = t + 3;
                let must_idle = s < first || (s - first) / line_len >= 192 || (s - first) % line_len >= 128;
                let spec_bad = if must_idle {
                    got != 0xFF
                } else {
                    // some screen byte of the current pattern or idle
                    got != 0xFF && !(0x4000u16..0x5B00).any(|a| pat(a, k) == got)
                };
                if spec_bad || got != exp_model {
                    rep.violation(Violation {
                        kind: if spec_bad { Kind::SpecViolated } else { Kind::ModelMismatch },
                        key: format!("C07/floating-bus/{}/{}", if m128 { "128k" } else { "48k" }, if must_idle { "idle" } else { "fetch" }),
                        what: format!("floating bus at frame T-state {} reads {:02x}, model says {:02x}{}", s, got, exp_model,
                            addr.map(|a| format!(" (byte at {:04x})", a)).unwrap_or_default()),
                        correspondence: "corr.C07.floating-bus (Model.Machine.floatingBusAddr vs floating_bus_value)".into(),
                        case: J::obj(vec![("text", J::s(format!("{} fbus {} {}", if m128 { 128 } else { 48 }, k, t)))]),
                        implementation: format!("{:02x}", got),
                        expected: format!("{:02x}", exp_model),
                    });
                }
            }
        }
    }
}


/// The floating bus behind *every* port nobody answers, not only 0x00FF: with the joystick and/or the
/// mouse switched off their addresses belong to nobody, and a read there during a ULA fetch slot shows
/// the byte the ULA is fetching. Reads walk through the frame (a read takes 4 T plus contention, the
/// value is sampled one T before its end); the phase is shifted every 1000 reads.
fn floating_ports(o: &Opts, model: &mut Model, rep: &mut Report, only: Option<(bool, bool, bool, u16, usize)>) {
    let pat = |a: u16| -> u8 {
        let v = (a as u32).wrapping_mul(97).wrapping_add(a as u32 >> 7) as u8;
        if v == 0xFF {
            0x7E
        } else {
            v
        }
    };
    for m128 in [false, true] {
        let frame = if m128 { 70908 } else { 69888 };
        for (kempston, mouse) in [(false, false), (true, false), (false, true)] {
            if let Some((m, k, mo, _, _)) = only {
                if (m, k, mo) != (m128, kempston, mouse) {
                    continue;
                }
            }
            let cfg = IoCfg { m128, kempston, mouse, ext_mask: 0, ext_val: 1, ay_off: false };
            model.ask(&format!("new {}", if m128 { 128 } else { 48 }));
            let rtab = parse_table(&model.ask(&format!("rtab {}", cfg_text(&cfg))));
            let mut e = prepared(&cfg);
            for a in 0x4000u16..0x5B00 {
                e.verif_write_mem(a, pat(a), 0);
            }
            let ports: Vec<u16> = match only {
                Some((_, _, _, p, _)) => vec![p],
                None => (0..=65535u16).filter(|p| rtab[*p as usize].1 == 0x80).collect(),
            };
            // start inside the picture
            let cur = e.verif_frame_clocks();
            e.verif_wait(frame - cur);
            e.verif_set_frame_clocks(only.map(|x| x.4).unwrap_or(14300));
            let passes = if only.is_some() { 1 } else { o.n(2, 6) };
            let mut obs: Vec<(u16, usize, usize, u8)> = vec![];
            for pass in 0..passes {
                for (i, p) in ports.iter().enumerate() {
                    let mut before = e.verif_frame_clocks();
                    if before + 16 >= frame {
                        e.verif_wait(frame - before);
                        // most of the frame is border time: jump to the picture, at a phase that varies
                        e.verif_set_frame_clocks(14300 + (i + pass as usize * 3) % 8);
                        before = e.verif_frame_clocks();
                    } else if before > 14336 + 192 * 228 + 300 && only.is_none() {
                        e.verif_wait(frame - before);
                        e.verif_set_frame_clocks(14300 + (i + pass as usize * 5) % 8);
                        before = e.verif_frame_clocks();
                    }
                    if i % 1000 == 999 {
                        e.verif_wait(1);
                        before += 1;
                    }
                    let v = e.verif_read_io(*p);
                    let after = e.verif_frame_clocks();
                    if after > before {
                        obs.push((*p, before, after - 1, v));
                    }
                }
            }
            let lines: Vec<String> = obs.iter().map(|(_, _, s, _)| format!("fbus {:x}", s)).collect();
            let answers = model.ask_many(&lines);
            for ((port, before, _s, got), ans) in obs.iter().zip(answers.iter()) {
                rep.eval();
                let exp = if ans == "-" { 0xFF } else { pat(u16::from_str_radix(ans, 16).unwrap()) };
                rep.count("floating_ports", if ans == "-" { "idle" } else { "fetching" });
                if ans != "-" {
                    rep.class(format!("fbus-port {} {}", cfg.name(), bit_class(*port)));
                }
                if *got != exp {
                    // the property: an unclaimed port shows the floating bus — the byte being fetched or 0xFF
                    let spec_bad = ans != "-" && *got == 0xFF || ans == "-" && *got != 0xFF || !(0x4000u16..0x5B00).any(|a| pat(a) == *got) && *got != 0xFF;
                    rep.violation(Violation {
                        kind: if spec_bad { Kind::SpecViolated } else { Kind::ModelMismatch },
                        key: format!("C07/floating-port/{}/{}", cfg.name(), bit_class(*port)),
                        what: format!("{}: port {:04x}, which nobody claims, read at frame T-state {} returns {:02x}; the floating bus carries {:02x} then", cfg.name(), port, before, got, exp),
                        correspondence: "corr.C07.floating-bus (Model.Machine.floatingBusAddr/readDecode vs read_io)".into(),
                        case: J::obj(vec![("text", J::s(format!("{} fbusport {} {} {:04x} {}", if m128 { 128 } else { 48 }, kempston as u8, mouse as u8, port, before)))]),
                        implementation: format!("{:02x}", got),
                        expected: format!("{:02x}", exp),
                    });
                }
            }
        }
    }
}

/// An extender whose claim changes over time (the host reconfigures it between accesses): at every access
/// the extender must be asked again — it receives exactly the ports it claims *at that moment*.
fn dynamic_extender(o: &Opts, rep: &mut Report, only: Option<&str>) {
    let mut rng = Rng::new(o.seed ^ 0xD1A);
    let n = if only.is_some() { 1 } else { o.n(300, 20_000) };
    for _ in 0..n {
        let mut r = rng.fork();
        let m128 = r.chance(1, 2);
        // a small working set of ports and claims, so that the same port is accessed around a change of claim
        let ports: Vec<u16> = (0..3).map(|_| match r.below(4) { 0 => 0xFEFE, 1 => 0x7FFD, 2 => 0xFFFD, _ => r.u16() }).collect();
        let claims: Vec<(u16, u16)> = vec![(0, 1), (0xFFFF, ports[0]), (0x00FF, ports[1] & 0xFF), (0, 0)];
        // op: (kind 0 = claim change, 1 = read, 2 = write; index)
        let mut ops: Vec<(u8, usize)> = match only {
            Some(t) => t.split(',').filter_map(|x| { let mut i = x.split(':'); Some((i.next()?.parse().ok()?, i.next()?.parse().ok()?)) }).collect(),
            None => (0..r.range(2, 24)).map(|_| match r.below(5) { 0 => (0u8, r.below(4) as usize), 1 | 2 => (1, r.below(3) as usize), _ => (2, r.below(3) as usize) }).collect(),
        };
        let run = |ops: &[(u8, usize)]| -> Option<String> {
            let cfg = IoCfg { m128, kempston: false, mouse: false, ext_mask: 0, ext_val: 1, ay_off: false };
            let mut c = Cfg::new(cfg.m128);
            c.ay = true;
            let mut e = emu(&c);
            e.set_io_extender(Ext { mask: 0, val: 1, read_value: 0xE7, log: vec![] });
            for (k, (kind, i)) in ops.iter().enumerate() {
                match kind {
                    0 => {
                        let x = e.io_extender().unwrap();
                        x.mask = claims[*i % 4].0;
                        x.val = claims[*i % 4].1;
                    }
                    _ => {
                        let port = ports[*i % 3];
                        let (mask, val) = { let x = e.io_extender().unwrap(); (x.mask, x.val) };
                        let claimed = port & mask == val;
                        if *kind == 1 {
                            e.verif_read_io(port);
                        } else {
                            e.verif_write_io(port, 0);
                        }
                        let x = e.io_extender().unwrap();
                        let hit = !x.log.is_empty();
                        x.log.clear();
                        if hit != claimed {
                            return Some(format!("operation #{}: {} of port {:04x} {} the extender, which {} it at that moment (claim mask {:04x} value {:04x})",
                                k, if *kind == 1 { "read" } else { "write" }, port, if hit { "reaches" } else { "does not reach" }, if claimed { "claims" } else { "does not claim" }, mask, val));
                        }
                    }
                }
            }
            None
        };
        rep.eval();
        rep.count("dynamic_extender", "histories");
        if run(&ops).is_some() {
            // shrink: drop operations while it still fails
            let mut i = 0;
            while i < ops.len() {
                let mut cand = ops.clone();
                cand.remove(i);
                if run(&cand).is_some() { ops = cand; } else { i += 1; }
            }
            let msg = run(&ops).unwrap();
            let text: Vec<String> = ops.iter().map(|(k, i)| format!("{}:{}", k, i)).collect();
            rep.violation(Violation {
                kind: Kind::SpecViolated,
                key: "C07/extender/dynamic-claim".into(),
                what: format!("{} with an extender whose claim changes between accesses, ports {:04x?}: {}", if m128 { "128k" } else { "48k" }, ports, msg),
                correspondence: "corr.C07.port-sweep (Model.Machine.readDecode/writeDecode take the extender's claim as an input of every access)".into(),
                case: J::obj(vec![("text", J::s(format!("{} dynext {}", if m128 { 128 } else { 48 }, text.join(","))))]),
                implementation: "stale claim".into(),
                expected: "the extender is consulted at every access".into(),
            });
            return;
        }
    }
}

pub fn run(o: &Opts) -> Report {
    let mut rep = Report::new("C07");
    rep.rule = "exhaustive: all 65536 port addresses x {read, write} x {48K,128K} x {kempston on/off} x {mouse on/off} x \
host-extender predicates, each executed by the real read_io/write_io, the device reached identified by the \
distinguishable value returned (reads) or by its side effect (writes: border colour, AY register select/data via \
read-back, paging latch, extender log); plus the floating bus at every T-state of a frame on both machines, the \
floating bus behind every port nobody claims (joystick/mouse addresses with the device off included) read during the \
picture, and histories of accesses with an extender whose claim the host changes between accesses. \
distinct/non-trivial = distinct (configuration, direction, device reached, decoded address-line class \
A15 A14 A10 A8 A7-A5 A1 A0)".into();
    rep.exhaustive = true;
    let mut model = Model::spawn(&o.model, "C07");

    if let Some(text) = &o.replay {
        // "<48|128> <kemp> <mouse> <extmask> <extval> <read|write> <port>" or "<48|128> fbus <k> <t>"
        let t: Vec<&str> = text.split_whitespace().collect();
        rep.exhaustive = false;
        rep.sample(J::s(text.clone()));
        if t.len() == 7 || t.len() == 8 {
            let cfg = IoCfg {
                m128: t[0] == "128",
                kempston: t[1] == "1",
                mouse: t[2] == "1",
                ext_mask: u16::from_str_radix(t[3], 16).unwrap_or(0),
                ext_val: u16::from_str_radix(t[4], 16).unwrap_or(1),
                ay_off: t.get(7) == Some(&"ayoff"),
            };
            let port = u16::from_str_radix(t[6], 16).unwrap_or(0);
            model.ask(&format!("new {}", t[0]));
            let mut e = prepared(&cfg);
            if t[5] == "read" {
                let tab = parse_table(&model.ask(&format!("rtab {}", cfg_text(&cfg))));
                let (got, raw) = read_one(&mut e, port);
                rep.eval();
                record(&mut rep, &cfg, "read", port, got, raw, tab[port as usize].0, tab[port as usize].1, &READ_DEV);
            } else {
                let tab = parse_table(&model.ask(&format!("wtab {}", cfg_text(&cfg))));
                let (got, raw) = write_one(&mut e, &cfg, port);
                rep.eval();
                record(&mut rep, &cfg, "write", port, got, raw, tab[port as usize].0, tab[port as usize].1, &WRITE_DEV);
            }
        } else if t.get(1) == Some(&"fbusport") && t.len() == 6 {
            let only = (t[0] == "128", t[2] == "1", t[3] == "1", u16::from_str_radix(t[4], 16).unwrap_or(0xFF), t[5].parse().unwrap_or(14400));
            floating_ports(o, &mut model, &mut rep, Some(only));
        } else if t.get(1) == Some(&"dynext") {
            dynamic_extender(o, &mut rep, t.get(2).copied());
        } else {
            floating_bus(o, &mut model, &mut rep);
        }
        return rep;
    }

    for cfg in configs(o) {
        model.ask(&format!("new {}", if cfg.m128 { 128 } else { 48 }));
        let rtab = parse_table(&model.ask(&format!("rtab {}", cfg_text(&cfg))));
        let wtab = parse_table(&model.ask(&format!("wtab {}", cfg_text(&cfg))));
        let mut e = prepared(&cfg);
        for port in 0..=65535u16 {
            let (got, raw) = read_one(&mut e, port);
            rep.eval();
            if let Some(g) = got {
                rep.class(format!("{} r {} {}", cfg.name(), READ_DEV[g], bit_class(port)));
                rep.count_n("read_routed", READ_DEV[g], 1);
            }
            let (m, acc) = rtab[port as usize];
            rep.count_n("read_spec", if acc == 0xFF { "several devices selected (unspecified)" } else if acc == 0x80 { "nobody (floating)" } else { "exactly one" }, 1);
            record(&mut rep, &cfg, "read", port, got, raw, m, acc, &READ_DEV);
        }
        for port in 0..=65535u16 {
            let (got, raw) = write_one(&mut e, &cfg, port);
            rep.eval();
            if let Some(g) = got {
                rep.class(format!("{} w {} {}", cfg.name(), WRITE_DEV[g], bit_class(port)));
                rep.count_n("write_routed", WRITE_DEV[g], 1);
            }
            let (m, acc) = wtab[port as usize];
            record(&mut rep, &cfg, "write", port, got, raw, m, acc, &WRITE_DEV);
        }
        if rep.samples.len() < 4 {
            let p = 0xFADFu16;
            rep.sample(J::obj(vec![
                ("config", J::s(cfg.name())),
                ("port", J::s(format!("{:04x}", p))),
                ("model_read_device", J::s(READ_DEV[rtab[p as usize].0])),
                ("model_write_device", J::s(WRITE_DEV[wtab[p as usize].0])),
            ]));
        }
    }
    floating_bus(o, &mut model, &mut rep);
    floating_ports(o, &mut model, &mut rep, None);
    dynamic_extender(o, &mut rep, None);
    rep
}
