//! C08 — not built yet.
use crate::util::*;

pub fn run(_o: &Opts) -> Report {
    let mut rep = Report::new("C08");
    rep.notes.push("not built yet".into());
    rep
}
