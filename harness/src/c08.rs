//! C08 — the delivered 256x192 canvas is the standard decode of the ULA-visible screen memory.
//! Real code: a real `Emulator` with recording frame buffers (`host::Fb`); bytes reach the screen
//! through every path the property names (CPU write cycles through the 0x4000 and 0xC000 windows,
//! a real `LD (HL),A`, tape fast-load, SCR / SNA / SZX load, pokes). The Lean driver runs the
//! model of the same operations and evaluates `stdDecode`; frames travel as FNV-1a hashes, single
//! pixels on request (diagnosis, beam-relative probes).
use crate::host::*;
use crate::util::*;
use rustzx_core::{
    host::{Screen, Snapshot, Tape},
    poke::{Poke, PokeAction},
};
use std::panic::{catch_unwind, AssertUnwindSafe};
use std::time::Duration;

const SCR_LEN: usize = 6912;
const CORR: &str = "corr.C08.screen (Model.Video Ctl.step / Screen.processClocks vs Emulator + ZXScreen)";

fn fnv(px: &[u8]) -> u64 {
    let mut h: u64 = 0xcbf29ce484222325;
    for b in px {
        h = (h ^ (*b as u64)).wrapping_mul(0x100000001b3);
    }
    h
}

#[derive(Clone, Debug, PartialEq)]
enum Op {
    Wait(usize),
    /// let time pass (real `wait_internal`) until the frame clock is `t`; if `t` is behind the
    /// clock the current frame is finished first
    WaitTo(usize),
    W(u16, u8, usize),
    WBlk(u16, usize, Vec<u8>),
    Z80(u16, u8),
    Tape(u16, Vec<u8>),
    Scr(Vec<u8>),
    Sna48(Vec<u8>),
    Sna128(u8, Vec<u8>, Vec<u8>),
    Szx(Vec<(u8, Vec<u8>)>),
    Out(u16, u8),
    Poke(Vec<(u16, u8)>),
    /// run to the end of the frame and compare the delivered canvas
    Frame,
    /// shorthand: waitto t ; w addr val 0 ; frame ; frame
    Probe(usize, u16, u8),
    /// the host runs a program (a counting loop, then `JR $`) with several frames per emulate_frames call,
    /// a breakpoint stops it inside the first — hidden — frame after `iters` loop passes, the host switches to
    /// one frame per call and resumes: the frame then delivered was drawn from unchanged memory
    RunStop(usize, usize),
    /// the host saves an SNA snapshot while SP points into the display file; a save is not one of the writers the
    /// property names, but whatever it does to the display file, the picture has to follow
    SaveSna(u16),
}

impl Op {
    fn text(&self) -> String {
        match self {
            Op::Wait(n) => format!("wait {:x}", n),
            Op::WaitTo(t) => format!("waitto {:x}", t),
            Op::W(a, v, k) => format!("w {:04x} {:02x} {:x}", a, v, k),
            Op::WBlk(a, k, b) => format!("wblk {:04x} {:x} {}", a, k, hex(b)),
            Op::Z80(a, v) => format!("z80 {:04x} {:02x}", a, v),
            Op::Tape(a, b) => format!("tape {:04x} {}", a, hex(b)),
            Op::Scr(b) => format!("scr {}", hex(b)),
            Op::Sna48(b) => format!("sna48 {}", hex(b)),
            Op::Sna128(l, b5, b7) => format!("sna128 {:02x} {} {}", l, hex(b5), hex(b7)),
            Op::Szx(ps) => {
                let mut s = "szx".to_string();
                for (p, b) in ps {
                    s.push_str(&format!(" {:x} {}", p, hex(b)));
                }
                s
            }
            Op::Out(p, v) => format!("out {:04x} {:02x}", p, v),
            Op::Poke(ps) => {
                let mut s = "poke".to_string();
                for (a, v) in ps {
                    s.push_str(&format!(" {:04x}:{:02x}", a, v));
                }
                s
            }
            Op::Frame => "frame".into(),
            Op::RunStop(n, k) => format!("runstop {:x} {:x}", n, k),
            Op::SaveSna(sp) => format!("savesna {:04x}", sp),
            Op::Probe(t, a, v) => format!("probe {:x} {:04x} {:02x}", t, a, v),
        }
    }
    fn parse(s: &str) -> Option<Op> {
        let t: Vec<&str> = s.split_whitespace().collect();
        let n = |x: &str| usize::from_str_radix(x, 16).ok();
        Some(match t.as_slice() {
            ["wait", a] => Op::Wait(n(a)?),
            ["waitto", a] => Op::WaitTo(n(a)?),
            ["w", a, v, k] => Op::W(n(a)? as u16, n(v)? as u8, n(k)?),
            ["wblk", a, k, h] => Op::WBlk(n(a)? as u16, n(k)?, unhex(h)),
            ["wblk", a, k] => Op::WBlk(n(a)? as u16, n(k)?, vec![]),
            ["z80", a, v] => Op::Z80(n(a)? as u16, n(v)? as u8),
            ["tape", a, h] => Op::Tape(n(a)? as u16, unhex(h)),
            ["scr", h] => Op::Scr(unhex(h)),
            ["sna48", h] => Op::Sna48(unhex(h)),
            ["sna128", l, a, b] => Op::Sna128(n(l)? as u8, unhex(a), unhex(b)),
            ["szx", rest @ ..] => {
                let mut ps = vec![];
                for c in rest.chunks(2) {
                    if c.len() != 2 {
                        return None;
                    }
                    ps.push((n(c[0])? as u8, unhex(c[1])));
                }
                Op::Szx(ps)
            }
            ["out", p, v] => Op::Out(n(p)? as u16, n(v)? as u8),
            ["poke", rest @ ..] => {
                let mut ps = vec![];
                for c in rest {
                    let (a, v) = c.split_once(':')?;
                    ps.push((n(a)? as u16, n(v)? as u8));
                }
                Op::Poke(ps)
            }
            ["frame"] => Op::Frame,
            ["runstop", a, b] => Op::RunStop(n(a)?, n(b)?),
            ["savesna", a] => Op::SaveSna(n(a)? as u16),
            ["probe", t, a, v] => Op::Probe(n(t)?, n(a)? as u16, n(v)? as u8),
            _ => return None,
        })
    }
    fn kind(&self) -> &'static str {
        match self {
            Op::Wait(_) => "wait",
            Op::WaitTo(_) => "waitto",
            Op::W(a, _, _) | Op::WBlk(a, _, _) => {
                if *a >= 0xC000 {
                    "cpu-c000"
                } else {
                    "cpu-4000"
                }
            }
            Op::Z80(..) => "z80",
            Op::Tape(..) => "tape",
            Op::Scr(_) => "scr",
            Op::Sna48(_) | Op::Sna128(..) => "sna",
            Op::Szx(_) => "szx",
            Op::Out(..) => "out",
            Op::Poke(_) => "poke",
            Op::Frame => "frame",
            Op::RunStop(..) => "runstop",
            Op::SaveSna(..) => "savesna",
            Op::Probe(..) => "probe",
        }
    }
}

#[derive(Clone)]
struct Case {
    m128: bool,
    ops: Vec<Op>,
}

impl Case {
    fn text(&self) -> String {
        let mut s = format!("m128={}", if self.m128 { 1 } else { 0 });
        for o in &self.ops {
            s.push_str(" ; ");
            s.push_str(&o.text());
        }
        s
    }
    fn parse(s: &str) -> Case {
        let mut parts = s.split(';').map(|x| x.trim());
        let m128 = parts.next().unwrap_or("") == "m128=1";
        Case { m128, ops: parts.filter_map(Op::parse).collect() }
    }
}

#[derive(Clone, Debug)]
struct Fail {
    kind: Kind,
    key: String,
    what: String,
    imp: String,
    exp: String,
}

/// What a worker collects for the report (merged by the main thread).
#[derive(Default)]
struct Out {
    evals: u64,
    classes: Vec<String>,
    counts: Vec<(String, String, u64)>,
}
impl Out {
    fn count(&mut self, h: &str, b: impl Into<String>) {
        self.counts.push((h.to_string(), b.into(), 1));
    }
}

struct PokeList(Vec<PokeAction>);
impl Poke for PokeList {
    fn actions(&self) -> &[PokeAction] {
        &self.0
    }
}

/// harness-side bookkeeping of one screen byte: used for *keys and diagnosis only*
#[derive(Clone, Copy)]
struct Cell {
    val: u8,
    prev: u8,
    writer: &'static str,
    /// running number of the write (later writes have larger numbers)
    seq: u64,
}

/// one screen byte written while a frame was in progress
#[derive(Clone, Copy)]
struct Rec {
    bank: usize,
    off: usize,
    old: u8,
    /// frame clock before / after the operation that wrote it (the write happened in between)
    t_lo: usize,
    t_hi: usize,
    writer: &'static str,
}

struct Sim<'a> {
    e: Emu,
    m128: bool,
    model: &'a mut Model,
    frames: u64,
    last_fc: usize,
    /// visible memory or bank selection changed since the last frame boundary
    dirty: bool,
    /// spec hashes (phase 0, phase 1) of the current visible memory
    spec_cache: Option<(u64, u64)>,
    flash_obs: Vec<(u64, bool)>,
    cells: Vec<Vec<Cell>>, // [ram bank][offset < 6912]
    fails: Vec<Fail>,
    seq: u64,
    /// screen bytes written during the frame in progress (for the before/after-the-beam check)
    recs: Vec<Rec>,
    touched: std::collections::HashMap<(usize, usize), u32>,
    /// the displayed bank changed during the frame in progress
    vis_changed: bool,
    op_t_lo: usize,
    frames_advanced: bool,
    skip_beam: bool,
    spec_every: u64,
    stable_seen: u64,
}

fn clocks_frame(m128: bool) -> usize {
    if m128 {
        70908
    } else {
        69888
    }
}

fn decode_px(b: u8, a: u8, x: usize, phase: bool) -> u8 {
    let on = (b >> (7 - (x & 7))) & 1 == 1;
    let fl = (a & 0x80 != 0) && phase;
    let c = if on ^ fl { a & 7 } else { (a >> 3) & 7 };
    c | if a & 0x40 != 0 { 8 } else { 0 }
}

fn bitmap_off(x: usize, y: usize) -> usize {
    ((y & 0xC0) << 5) | ((y & 7) << 8) | ((y & 0x38) << 2) | (x >> 3)
}

fn attr_off(x: usize, y: usize) -> usize {
    0x1800 + (y >> 3) * 32 + (x >> 3)
}

impl<'a> Sim<'a> {
    fn new(model: &'a mut Model, m128: bool, fixed: bool) -> Sim<'a> {
        let mut c = Cfg::new(m128);
        c.fastload = true;
        let mut e = emu(&c);
        e.set_debug_interface(Dbg { break_all: true, ..Default::default() });
        let r = model.ask(&format!("new {} {}", if m128 { 1 } else { 0 }, if fixed { 1 } else { 0 }));
        assert!(r.starts_with("00000"), "driver: {}", r);
        let banks = if m128 { 8 } else { 3 };
        Sim {
            e,
            m128,
            model,
            frames: 0,
            last_fc: 0,
            dirty: true,
            spec_cache: None,
            flash_obs: vec![],
            cells: vec![vec![Cell { val: 0, prev: 0, writer: "init", seq: 0 }; SCR_LEN]; banks],
            seq: 0,
            recs: vec![],
            touched: Default::default(),
            vis_changed: false,
            op_t_lo: 0,
            frames_advanced: false,
            skip_beam: false,
            fails: vec![],
            spec_every: 1,
            stable_seen: 0,
        }
    }

    fn fail(&mut self, kind: Kind, key: &str, what: String, imp: String, exp: String) {
        if !self.fails.iter().any(|f| f.key == key) {
            self.fails.push(Fail { kind, key: key.to_string(), what, imp, exp });
        }
    }

    fn sync_frames(&mut self) {
        let fc = self.e.verif_frames_count();
        if fc >= self.last_fc {
            self.frames += (fc - self.last_fc) as u64;
            if fc > self.last_fc {
                self.frames_advanced = true;
            }
        }
        self.last_fc = fc;
    }

    /// one instruction of the emulated CPU (break_all stops after each instruction)
    fn step_cpu(&mut self) {
        self.sync_frames();
        let r = catch_unwind(AssertUnwindSafe(|| {
            let _ = self.e.emulate_frames(Duration::from_secs(1));
        }));
        if r.is_err() {
            self.fail(Kind::ModelMismatch, "C08/panic", "the emulator panicked while executing an instruction".into(), "panic".into(), "no panic".into());
        }
        // emulate_frames resets the frame counter on entry
        if self.e.verif_frames_count() > 0 {
            self.frames_advanced = true;
        }
        self.frames += self.e.verif_frames_count() as u64;
        self.last_fc = self.e.verif_frames_count();
    }

    /// sends a state-changing op to the model and compares clock and frame count
    fn model_op(&mut self, line: &str) {
        let r = self.model.ask(line);
        self.sync_frames();
        let mut it = r.split(' ');
        let mc = usize::from_str_radix(it.next().unwrap_or("x"), 16).unwrap_or(usize::MAX);
        let mf = u64::from_str_radix(it.next().unwrap_or("x"), 16).unwrap_or(u64::MAX);
        let rc = self.e.verif_frame_clocks();
        if mc != rc || mf != self.frames & 0xFFFF {
            let short: String = line.chars().take(40).collect();
            self.fail(
                Kind::ModelMismatch,
                "C08/model/clock",
                format!("after `{}` the emulator is at frame clock {} / {} frames, the model at {} / {}", short, rc, self.frames, mc, mf),
                format!("{}/{}", rc, self.frames),
                format!("{}/{}", mc, mf),
            );
        }
    }

    /// (ram bank, offset) of a CPU address, from the paging state the emulator reports
    fn locate(&self, addr: u16) -> Option<(usize, usize)> {
        let (latch, _, _) = self.e.verif_paging();
        let bank = match (self.m128, addr >> 14) {
            (_, 0) => return None,
            (false, b) => (b - 1) as usize,
            (true, 1) => 5,
            (true, 2) => 2,
            (true, _) => (latch & 7) as usize,
        };
        Some((bank, (addr & 0x3FFF) as usize))
    }

    fn visible_bank(&self) -> usize {
        if !self.m128 {
            0
        } else if self.e.verif_paging().0 & 8 != 0 {
            7
        } else {
            5
        }
    }

    fn note_write(&mut self, bank: usize, off: usize, v: u8, writer: &'static str) {
        if off < SCR_LEN {
            self.seq += 1;
            *self.touched.entry((bank, off)).or_default() += 1;
            if self.recs.len() < 8192 {
                self.recs.push(Rec { bank, off, old: self.cells[bank][off].val, t_lo: self.op_t_lo, t_hi: usize::MAX, writer });
            }
            let c = &mut self.cells[bank][off];
            c.prev = c.val;
            c.val = v;
            c.writer = writer;
            c.seq = self.seq;
            self.dirty = true;
            self.spec_cache = None;
        }
    }

    fn note_addr(&mut self, addr: u16, v: u8, writer: &'static str) {
        if let Some((bank, off)) = self.locate(addr) {
            self.note_write(bank, off, v, writer);
        }
    }

    fn finish_frame(&mut self) {
        let left = clocks_frame(self.m128) - self.e.verif_frame_clocks().min(clocks_frame(self.m128) - 1);
        self.e.verif_wait(left);
        self.model_op(&format!("wait {:x}", left));
    }

    fn spec_hashes(&mut self) -> (u64, u64) {
        if let Some(s) = self.spec_cache {
            return s;
        }
        let r = self.model.ask("spec");
        let mut it = r.split(' ');
        let h0 = u64::from_str_radix(it.next().unwrap_or("0"), 16).unwrap_or(0);
        let h1 = u64::from_str_radix(it.next().unwrap_or("0"), 16).unwrap_or(0);
        self.spec_cache = Some((h0, h1));
        (h0, h1)
    }

    /// first pixel at which the real canvas differs from both phases of the spec; key by the
    /// writer of the byte whose *previous* value explains what is shown
    fn diagnose(&mut self) -> (String, String) {
        let px = self.e.screen_buffer().px.clone();
        let lines: Vec<String> = (0..256 * 192).map(|p| format!("px {:x} {:x}", p % 256, p / 256)).collect();
        let ans = self.model.ask_many(&lines);
        let vb = self.visible_bank();
        // a whole-frame phase must be chosen: the one with fewer differing pixels
        let mut diffs = [vec![], vec![]];
        for (p, a) in ans.iter().enumerate() {
            let t: Vec<&str> = a.split(' ').collect();
            for ph in 0..2 {
                let s = u8::from_str_radix(t[1 + ph], 16).unwrap_or(0xEE);
                if s != px[p] {
                    diffs[ph].push((p, s));
                }
            }
        }
        let ph = if diffs[0].len() <= diffs[1].len() { 0 } else { 1 };
        let (p, s) = diffs[ph].first().copied().unwrap_or((0, 0));
        let (x, y) = (p % 256, p / 256);
        let cb = self.cells[vb][bitmap_off(x, y)];
        let ca = self.cells[vb][attr_off(x, y)];
        // which byte is stale? candidates: display byte, attribute, both; when several explain the
        // pixel, the byte written last is the suspect
        let mut culprit = "unknown".to_string();
        let mut cands: Vec<(bool, bool)> = vec![(true, false), (false, true)];
        if ca.seq > cb.seq {
            cands.reverse();
        }
        cands.push((true, true));
        'outer: for (sb, sa) in cands {
            for phase in [false, true] {
                let b = if sb { cb.prev } else { cb.val };
                let a = if sa { ca.prev } else { ca.val };
                if decode_px(b, a, x, phase) == px[p] {
                    culprit = match (sb, sa) {
                        (true, false) => cb.writer.to_string(),
                        (false, true) => ca.writer.to_string(),
                        _ if cb.writer == ca.writer => cb.writer.to_string(),
                        _ => format!("{}+{}", cb.writer, ca.writer),
                    };
                    break 'outer;
                }
            }
        }
        (
            culprit,
            format!(
                "{} pixel(s) differ from the standard decode of bank {} (phase {}); first at ({},{}): canvas shows {:02x}, decode of display byte {:02x}@{:04x} / attribute {:02x}@{:04x} is {:02x}",
                diffs[ph].len(), vb, ph, x, y, px[p], cb.val, bitmap_off(x, y), ca.val, attr_off(x, y), s
            ),
        )
    }

    /// compares the delivered canvas; `stable` = the visible memory did not change during the frame
    fn check_frame(&mut self, stable: bool, out: &mut Out) {
        out.evals += 1;
        let real = fnv(&self.e.screen_buffer().px);
        let r = self.model.ask("frame");
        let mh = u64::from_str_radix(r.split(' ').next().unwrap_or("0"), 16).unwrap_or(0);
        let mut adjudicate = real != mh;
        if stable {
            self.stable_seen += 1;
            if self.spec_cache.is_some() || self.stable_seen % self.spec_every == 0 {
                adjudicate = true;
            }
        }
        if !stable {
            if real != mh {
                self.fail(
                    Kind::ModelMismatch,
                    "C08/model/partial-frame",
                    format!("frame {} (memory changed while it was drawn): canvas hash {:016x}, model {:016x}", self.frames, real, mh),
                    format!("{:016x}", real),
                    format!("{:016x}", mh),
                );
            }
            return;
        }
        if !adjudicate {
            return;
        }
        let (h0, h1) = self.spec_hashes();
        out.count("adjudicated_frames", "stable frame vs stdDecode");
        if real != h0 && real != h1 {
            let (culprit, what) = self.diagnose();
            self.fail(
                Kind::SpecViolated,
                &format!("C08/stable-frame/stale-writer={}", culprit),
                format!("frame {}: memory unchanged for the whole frame, but {}", self.frames, what),
                format!("{:016x}", real),
                format!("{:016x} or {:016x}", h0, h1),
            );
        } else {
            if h0 != h1 {
                // n = frames completed before this one started
                self.flash_obs.push((self.frames - 1, real == h1));
                out.classes.push(format!("flash phase {} at frame%32={}", real == h1, (self.frames - 1) % 32));
            }
            if real != mh {
                self.fail(
                    Kind::ModelMismatch,
                    "C08/model/frame",
                    format!("frame {}: the canvas is a standard decode but not the one the model delivers (flash phase?)", self.frames),
                    format!("{:016x}", real),
                    format!("{:016x}", mh),
                );
            }
        }
    }

    fn frame(&mut self, out: &mut Out) {
        self.finish_frame();
        let stable = !self.dirty;
        self.dirty = false;
        // the byte-level adjudication first: its failures are concrete spec-violating inputs
        if !stable {
            self.check_beam(out);
        }
        self.check_frame(stable, out);
        self.forget_frame_writes();
    }

    fn wait_to(&mut self, t: usize) {
        // time only moves forward: to reach an earlier beam position the frame is finished first
        if t < self.e.verif_frame_clocks() {
            self.finish_frame();
            self.dirty = true; // the frame just delivered is not compared
            self.forget_frame_writes();
        }
        let t = t.min(clocks_frame(self.m128) - 1);
        let n = t - self.e.verif_frame_clocks().min(t);
        if n > 0 {
            self.e.verif_wait(n);
            self.model_op(&format!("wait {:x}", n));
        }
    }

    fn forget_frame_writes(&mut self) {
        self.recs.clear();
        self.touched.clear();
        self.vis_changed = false;
        self.frames_advanced = false;
        self.skip_beam = false;
    }

    /// **Before / after the beam**, for every writer: each screen byte written to the displayed
    /// bank during the frame just delivered (and not overwritten, its partner bytes untouched) must
    /// show its new value if the write was over >= 8 T before the ULA fetched it, and its old value
    /// if the write started >= 8 T after; in between either. Adjudicated by `stdDecode` (driver `pxo`).
    fn check_beam(&mut self, out: &mut Out) {
        if self.vis_changed || self.skip_beam || self.recs.is_empty() {
            return;
        }
        let vb = self.visible_bank();
        let first_pixel = if self.m128 { 14362 } else { 14336 };
        let line = if self.m128 { 228 } else { 224 };
        let cur = self.e.screen_buffer().px.clone();
        let cands: Vec<Rec> = self.recs.iter().copied().filter(|r| r.bank == vb && r.t_hi != usize::MAX && self.touched.get(&(r.bank, r.off)) == Some(&1)).collect();
        if cands.is_empty() {
            return;
        }
        // a sample spread over the candidates
        let step = (cands.len() / 10).max(1);
        let mut rows: Vec<(Rec, usize, usize, &'static str)> = vec![]; // (record, col, y, class)
        for r in cands.iter().step_by(step).take(if cands.len() > 8 { 10 } else { 8 }) {
            let cells: Vec<(usize, usize, usize)> = if r.off < 0x1800 {
                let y = ((r.off >> 8) & 7) | ((r.off >> 2) & 0x38) | ((r.off >> 5) & 0xC0);
                vec![(r.off & 31, y, 0x1800 + (y >> 3) * 32 + (r.off & 31))]
            } else {
                let o = r.off - 0x1800;
                (0..8).map(|i| (o % 32, (o / 32) * 8 + i, bitmap_off((o % 32) * 8, (o / 32) * 8 + i))).collect()
            };
            for (col, y, partner) in cells {
                if self.touched.contains_key(&(vb, partner)) {
                    continue;
                }
                let fetch = first_pixel + y * line + 4 * col;
                let class = if r.t_hi + 8 <= fetch {
                    "before"
                } else if fetch + 8 <= r.t_lo {
                    "after"
                } else {
                    "margin"
                };
                rows.push((*r, col, y, class));
            }
        }
        let mut lines = vec![];
        for (r, col, y, _) in &rows {
            for i in 0..8 {
                lines.push(format!("pxo {:x} {:x} {:x} {:02x}", col * 8 + i, y, r.off, r.old));
            }
        }
        let ans = self.model.ask_many(&lines);
        for (k, (r, col, y, class)) in rows.iter().enumerate() {
            out.evals += 1;
            let fetch = first_pixel + y * line + 4 * col;
            out.classes.push(format!(
                "beam {} {} {} dt={}",
                r.writer,
                if r.off < 0x1800 { "bitmap" } else { "attr" },
                class,
                ((if r.t_lo > fetch { r.t_lo as i64 - fetch as i64 } else { r.t_hi as i64 - fetch as i64 }) / 4).clamp(-8, 8)
            ));
            out.count("beam_class", format!("{} {}", r.writer, class));
            for i in 0..8 {
                let p = y * 256 + col * 8 + i;
                let t: Vec<u8> = ans[k * 8 + i].split(' ').map(|v| u8::from_str_radix(v, 16).unwrap_or(0xEE)).collect();
                let shows_new = cur[p] == t[0] || cur[p] == t[1];
                let shows_old = cur[p] == t[2] || cur[p] == t[3];
                let bad = match *class {
                    "before" => !shows_new,
                    "after" => !shows_old,
                    _ => !(shows_new || shows_old),
                };
                if bad {
                    let new = self.cells[r.bank][r.off].val;
                    self.fail(
                        Kind::SpecViolated,
                        &format!("C08/beam/{}/writer={}", class, r.writer),
                        format!(
                            "screen byte {:04x} of bank {} changed {:02x} -> {:02x} by {} between frame clocks {} and {}; the ULA fetches line {} column {} at {} ({}): pixel ({},{}) of that frame shows {:02x}; decode with the old byte {:02x}, with the new byte {:02x}",
                            r.off, r.bank, r.old, new, r.writer, r.t_lo, r.t_hi, y, col, fetch,
                            match *class { "before" => "clearly after the write: the new byte must show", "after" => "clearly before the write: the old byte must show", _ => "within 8 T of the write" },
                            col * 8 + i, y, cur[p], t[2], t[0]
                        ),
                        format!("{:02x}", cur[p]),
                        if *class == "before" { format!("{:02x}", t[0]) } else { format!("{:02x}", t[2]) },
                    );
                    break;
                }
            }
        }
    }

    fn load_pages_note(&mut self, pages: &[(u8, Vec<u8>)], writer: &'static str) {
        for (b, data) in pages {
            for (off, v) in data.iter().enumerate().take(SCR_LEN) {
                self.note_write(*b as usize, off, *v, writer);
            }
        }
    }

    fn apply(&mut self, op: &Op, out: &mut Out) {
        self.op_t_lo = self.e.verif_frame_clocks();
        self.frames_advanced = false;
        let n0 = self.recs.len();
        self.apply_inner(op, out);
        if !matches!(op, Op::Frame | Op::Probe(..)) {
            if self.frames_advanced {
                // a frame ended inside the operation: neither that frame nor the one now in progress
                // (part of the operation's writes fell into it at unknown clocks) is examined byte by byte
                self.forget_frame_writes();
                self.skip_beam = true;
            } else {
                let t_hi = self.e.verif_frame_clocks();
                let k = n0.min(self.recs.len());
                for r in self.recs[k..].iter_mut() {
                    r.t_hi = t_hi;
                }
            }
        }
    }

    fn apply_inner(&mut self, op: &Op, out: &mut Out) {
        out.count("ops", op.kind());
        match op {
            Op::Wait(n) => {
                let before = self.frames;
                self.e.verif_wait(*n);
                self.model_op(&format!("wait {:x}", n));
                if self.frames != before {
                    self.dirty = true;
                }
            }
            Op::WaitTo(t) => self.wait_to(*t),
            Op::W(a, v, k) => {
                self.e.verif_write_mem(*a, *v, *k);
                self.note_addr(*a, *v, "cpu");
                self.model_op(&format!("w {:04x} {:02x} {:x}", a, v, k));
            }
            Op::WBlk(a, k, bytes) => {
                for (i, v) in bytes.iter().enumerate() {
                    let addr = a.wrapping_add(i as u16);
                    self.e.verif_write_mem(addr, *v, *k);
                    self.note_addr(addr, *v, "cpu");
                }
                self.model_op(&format!("wblk {:04x} {:x} {}", a, k, hex(bytes)));
            }
            Op::Z80(a, v) => {
                // LD (HL),A at 0x8000, executed by the emulated CPU
                self.e.verif_write_mem(0x8000, 0x77, 0);
                self.model_op("w 8000 77 0");
                let cpu = self.e.verif_cpu();
                cpu.regs.set_hl(*a);
                cpu.regs.set_acc(*v);
                cpu.regs.set_pc(0x8000);
                cpu.regs.set_sp(0x9000);
                cpu.regs.set_iff1(false);
                cpu.halted = false;
                self.step_cpu();
                self.note_addr(*a, *v, "z80");
                // opcode fetch (4 T, uncontended), then the write cycle of LD (HL),A: 3 T after contention
                let _ = self.model.ask("wait 4");
                let _ = self.model.ask(&format!("w {:04x} {:02x} 3", a, v));
                self.model_op("status");
            }
            Op::Tape(dest, bytes) => {
                // one TAP block: flag 0xFF, data, parity; LD-BYTES entered at the trap address, at
                // whatever beam position the frame is in
                let mut blk = vec![0xFFu8];
                blk.extend_from_slice(bytes);
                let par = blk.iter().fold(0u8, |a, b| a ^ b);
                blk.push(par);
                let mut tap = vec![(blk.len() & 0xFF) as u8, (blk.len() >> 8) as u8];
                tap.extend_from_slice(&blk);
                let ok = self.e.load_tape(Tape::Tap(VAsset::new(tap))).is_ok();
                let c0 = self.e.verif_frame_clocks();
                let cpu = self.e.verif_cpu();
                cpu.regs.set_af(0xFF01); // A = expected flag, F = carry (LOAD)
                cpu.regs.swap_af_alt();
                cpu.regs.set_ix(*dest);
                cpu.regs.set_de(bytes.len() as u16);
                cpu.regs.set_sp(0x9000);
                cpu.regs.set_pc(0x056A);
                cpu.regs.set_iff1(false);
                cpu.halted = false;
                self.step_cpu();
                let ix = self.e.verif_cpu().regs.get_ix();
                let loaded = ix.wrapping_sub(*dest) as usize;
                if !ok || loaded != bytes.len() {
                    self.fail(
                        Kind::ModelMismatch,
                        "C08/harness/fastload-not-triggered",
                        format!("fast-load of {} bytes to {:04x} moved IX by {}", bytes.len(), dest, loaded),
                        format!("{}", loaded),
                        format!("{}", bytes.len()),
                    );
                }
                for (i, v) in bytes.iter().enumerate().take(loaded) {
                    self.note_addr(dest.wrapping_add(i as u16), *v, "tape");
                }
                // the trap instruction (a NOP of the all-zero ROM: 4 T) runs first, then the block is
                // written without any clock passing, then the return address is popped
                let f = clocks_frame(self.m128);
                let delta = (self.e.verif_frame_clocks() + if self.frames_advanced { f } else { 0 }) - c0;
                let _ = self.model.ask("wait 4");
                let _ = self.model.ask(&format!("wiblk {:04x} {}", dest, hex(&bytes[..loaded.min(bytes.len())])));
                self.model_op(&format!("wait {:x}", delta.saturating_sub(4)));
            }
            Op::Scr(bytes) => {
                let ok = self.e.load_screen(Screen::Scr(VAsset::new(bytes.clone()))).is_ok();
                if ok {
                    let bank = if self.m128 { 5 } else { 0 };
                    self.load_pages_note(&[(bank as u8, bytes.clone())], "scr");
                    self.model_op(&format!("scr {}", hex(bytes)));
                }
            }
            Op::Sna48(scr) => {
                self.finish_frame();
                self.dirty = true;
                self.forget_frame_writes();
                self.op_t_lo = self.e.verif_frame_clocks();
                let mut f = vec![0u8; 27];
                f[23] = 0x00;
                f[24] = 0x90; // SP = 0x9000
                f[25] = 1;
                let mut ram = vec![0u8; 49152];
                ram[..scr.len().min(SCR_LEN)].copy_from_slice(&scr[..scr.len().min(SCR_LEN)]);
                f.extend_from_slice(&ram);
                let c0 = self.e.verif_frame_clocks();
                let ok = self.e.load_snapshot(Snapshot::Sna(VAsset::new(f))).is_ok();
                if ok {
                    let mut page = ram[..16384].to_vec();
                    page.truncate(16384);
                    self.load_pages_note(&[(0, page.clone())], "sna");
                    let delta = self.e.verif_frame_clocks() - c0;
                    let _ = self.model.ask(&format!("pages 0 {} 1 {} 2 {}", hex(&page), hex(&ram[16384..32768]), hex(&ram[32768..])));
                    self.model_op(&format!("wait {:x}", delta));
                }
            }
            Op::Sna128(latch, b5, b7) => {
                self.finish_frame();
                self.dirty = true;
                self.forget_frame_writes();
                self.op_t_lo = self.e.verif_frame_clocks();
                let mut f = vec![0u8; 27];
                f[24] = 0x90;
                f[25] = 1;
                let mut page = |src: &Vec<u8>| {
                    let mut p = vec![0u8; 16384];
                    p[..src.len().min(SCR_LEN)].copy_from_slice(&src[..src.len().min(SCR_LEN)]);
                    p
                };
                let p5 = page(b5);
                let p7 = page(b7);
                let zero = vec![0u8; 16384];
                let n = latch & 7;
                let bank_data = |b: u8| -> &Vec<u8> {
                    if b == 5 {
                        &p5
                    } else if b == 7 {
                        &p7
                    } else {
                        &zero
                    }
                };
                f.extend_from_slice(bank_data(5));
                f.extend_from_slice(bank_data(2));
                f.extend_from_slice(bank_data(n));
                f.extend_from_slice(&[0, 0, *latch, 0]);
                for b in [0u8, 1, 3, 4, 6, 7] {
                    if b != n {
                        f.extend_from_slice(bank_data(b));
                    }
                }
                let c0 = self.e.verif_frame_clocks();
                let ok = self.e.load_snapshot(Snapshot::Sna(VAsset::new(f))).is_ok();
                if ok {
                    let _ = self.model.ask(&format!("set7ffd {:02x}", latch));
                    self.load_pages_note(&[(5, p5.clone()), (7, p7.clone())], "sna");
                    let delta = self.e.verif_frame_clocks() - c0;
                    let _ = self.model.ask(&format!("pages 5 {} 7 {}", hex(&p5), hex(&p7)));
                    self.model_op(&format!("wait {:x}", delta));
                }
            }
            Op::Szx(pages) => {
                self.finish_frame();
                self.dirty = true;
                self.forget_frame_writes();
                self.op_t_lo = self.e.verif_frame_clocks();
                let mut f = b"ZXST".to_vec();
                f.extend_from_slice(&[1, 4, if self.m128 { 2 } else { 1 }, 0]);
                let mut line = "pages".to_string();
                let mut noted = vec![];
                for (p, src) in pages {
                    let mut data = vec![0u8; 16384];
                    data[..src.len().min(SCR_LEN)].copy_from_slice(&src[..src.len().min(SCR_LEN)]);
                    f.extend_from_slice(b"RAMP");
                    f.extend_from_slice(&(3u32 + 16384).to_le_bytes());
                    f.extend_from_slice(&[0, 0, *p]);
                    f.extend_from_slice(&data);
                    // 48K: SZX page numbers 5,2,0 are the emulator's RAM pages 0,1,2
                    let bank = if self.m128 {
                        *p
                    } else {
                        match *p {
                            5 => 0,
                            2 => 1,
                            0 => 2,
                            x => x,
                        }
                    };
                    line.push_str(&format!(" {:x} {}", bank, hex(&data)));
                    noted.push((bank, data));
                }
                let c0 = self.e.verif_frame_clocks();
                let ok = self.e.load_snapshot(Snapshot::Szx(VAsset::new(f))).is_ok();
                if ok {
                    self.load_pages_note(&noted, "szx");
                    let delta = self.e.verif_frame_clocks() - c0;
                    let _ = self.model.ask(&line);
                    self.model_op(&format!("wait {:x}", delta));
                }
            }
            Op::Out(p, v) => {
                let before = self.e.verif_paging();
                self.e.verif_write_io(*p, *v);
                if self.e.verif_paging() != before {
                    self.dirty = true;
                    self.spec_cache = None;
                    if self.e.verif_paging().2 != before.2 {
                        self.vis_changed = true;
                    }
                }
                self.model_op(&format!("out {:04x} {:02x}", p, v));
            }
            Op::Poke(ps) => {
                let list = PokeList(ps.iter().map(|(a, v)| PokeAction::mem(*a, *v)).collect());
                self.e.execute_poke(list);
                for (a, v) in ps {
                    self.note_addr(*a, *v, "poke");
                    let _ = self.model.ask(&format!("poke {:04x} {:02x}", a, v));
                }
                self.model_op("status");
            }
            Op::Frame => self.frame(out),
            Op::SaveSna(sp) => {
                {
                    let cpu = self.e.verif_cpu();
                    cpu.regs.set_sp(*sp);
                    cpu.regs.set_pc(0x81A5);
                }
                let before: Vec<u8> = (0x4000u16..0x5B00).map(|a| self.e.peek(a)).collect();
                let _ = crate::c13::snap::save_sna(&mut self.e);
                let mut changed = 0;
                for (i, b) in before.iter().enumerate() {
                    let a = 0x4000 + i as u16;
                    let v = self.e.peek(a);
                    if v != *b {
                        // the display file changed under the host's hands: from now on this is what the ULA sees
                        changed += 1;
                        self.note_addr(a, v, "host-save");
                        let _ = self.model.ask(&format!("w {:04x} {:02x} 0", a, v));
                        self.dirty = true;
                        self.spec_cache = None;
                    }
                }
                out.count("savesna", if changed > 0 { "display file changed by the save" } else { "display file untouched" });
                self.model_op("status");
            }
            Op::RunStop(nf, iters) => {
                // LD BC,iters ; loop: DEC BC ; LD A,B ; OR C ; JR NZ,loop ; bp: JR $
                let it = (*iters).clamp(1, 0xFFFF) as u16;
                let prog = [0x01, it as u8, (it >> 8) as u8, 0x0B, 0x78, 0xB1, 0x20, 0xFB, 0x18, 0xFE];
                for (i, b) in prog.iter().enumerate() {
                    self.e.verif_write_mem(0x8000 + i as u16, *b, 0);
                    self.model_op(&format!("w {:04x} {:02x} 0", 0x8000 + i, b));
                }
                let stable = !self.dirty;
                let l = clocks_frame(self.m128);
                let c0 = self.e.verif_frame_clocks();
                {
                    let cpu = self.e.verif_cpu();
                    cpu.regs.set_pc(0x8000);
                    cpu.regs.set_sp(0x9000);
                    cpu.regs.set_iff1(false);
                    cpu.halted = false;
                }
                let mut frames_run = 0usize;
                if let Some(d) = self.e.debug_interface() {
                    d.break_all = false;
                    d.bps.clear();
                    d.bps.insert(0x8008);
                }
                self.sync_frames();
                self.e.set_speed(rustzx_core::EmulationMode::FrameCount((*nf).clamp(1, 4)));
                let _ = self.e.emulate_frames(Duration::from_secs(1));
                frames_run += self.e.verif_frames_count();
                let stopped_in_first = frames_run == 0;
                if let Some(d) = self.e.debug_interface() {
                    d.bps.clear();
                }
                self.e.set_speed(rustzx_core::EmulationMode::FrameCount(1));
                let _ = self.e.emulate_frames(Duration::from_secs(1));
                frames_run += self.e.verif_frames_count();
                if let Some(d) = self.e.debug_interface() {
                    d.break_all = true;
                }
                self.frames += frames_run as u64;
                self.last_fc = self.e.verif_frames_count();
                self.frames_advanced = true;
                let elapsed = frames_run * l + self.e.verif_frame_clocks() - c0;
                self.model_op(&format!("wait {:x}", elapsed));
                out.count("runstop", if stopped_in_first { "breakpoint inside the first frame of the call" } else { "breakpoint in a later frame" });
                if stable && frames_run >= 1 {
                    self.check_frame(true, out);
                }
            }
            Op::Probe(t, a, v) => {
                for o in [Op::WaitTo(*t), Op::W(*a, *v, 0), Op::Frame, Op::Frame] {
                    self.apply(&o, out);
                }
            }
        }
    }

    /// spec adjudication of the flash phases seen in this run
    fn check_flash(&mut self) {
        if self.flash_obs.is_empty() {
            return;
        }
        let mut line = "flashok".to_string();
        for (n, p) in &self.flash_obs {
            line.push_str(&format!(" {:x}:{}", n, if *p { 1 } else { 0 }));
        }
        if self.model.ask(&line) != "ok" {
            let obs: Vec<String> = self.flash_obs.iter().map(|(n, p)| format!("{}:{}", n, if *p { 1 } else { 0 })).collect();
            self.fail(
                Kind::SpecViolated,
                "C08/flash-period",
                format!("FLASH cells do not swap every 16 frames for any window alignment; (completed frames:phase) = {}", obs.join(" ")),
                obs.join(" "),
                "phase n = ((n+k)/16) mod 2 for some k".into(),
            );
        }
    }
}

/// Runs a case on a fresh emulator and a fresh model. The model variant is the repaired poke
/// (`fixed = true`, what /repo does since b0d1908); when a case with pokes fails, the unrepaired
/// variant is tried too, so that a tree without the repair is reported as that one defect only.
fn run_case(model: &mut Model, case: &Case, spec_every: u64, out: &mut Out) -> Vec<Fail> {
    let has_poke = case.ops.iter().any(|o| matches!(o, Op::Poke(_)));
    let fails = run_case_variant(model, case, true, spec_every, out);
    if has_poke && !fails.is_empty() {
        let mut dummy = Out::default();
        let old = run_case_variant(model, case, false, spec_every, &mut dummy);
        if !old.is_empty() && old.iter().all(|f| f.kind == Kind::SpecViolated && f.key.ends_with("=poke")) {
            out.count("poke_variant", "unrepaired (poke bypasses the screen cache)");
            return old;
        }
    }
    if has_poke {
        out.count("poke_variant", "repaired (poke refreshes the screen cache)");
    }
    fails
}

fn run_case_variant(model: &mut Model, case: &Case, fixed: bool, spec_every: u64, out: &mut Out) -> Vec<Fail> {
    let mut sim = Sim::new(model, case.m128, fixed);
    sim.spec_every = spec_every.max(1);
    for op in &case.ops {
        let r = catch_unwind(AssertUnwindSafe(|| sim.apply(op, out)));
        if r.is_err() {
            sim.fail(
                Kind::ModelMismatch,
                "C08/panic",
                format!("the emulator panicked during `{}`", op.text().chars().take(60).collect::<String>()),
                "panic".into(),
                "no panic".into(),
            );
            break;
        }
    }
    sim.check_flash();
    sim.fails
}

// ---------------------------------------------------------------------------------------------
// generators

fn random_screen(r: &mut Rng) -> Vec<u8> {
    let mut s = vec![0u8; SCR_LEN];
    let style = r.below(5);
    for (i, b) in s.iter_mut().enumerate().take(0x1800) {
        *b = match style {
            0 => r.u8(),
            1 => {
                if r.chance(1, 8) {
                    r.u8()
                } else {
                    0
                }
            }
            2 => (i as u8).wrapping_mul(37) ^ r.u8() & 0x0F,
            3 => 1u8 << r.below(8),
            _ => r.u8() | r.u8(),
        };
    }
    for b in s.iter_mut().skip(0x1800) {
        *b = match r.below(6) {
            0 => r.u8() & 0x7F,        // no flash
            1 => r.u8() | 0x80,        // flash
            2 => r.u8() | 0xC0,        // flash + bright
            3 => r.u8() & 0x3F | 0x40, // bright only
            _ => r.u8(),
        };
    }
    s
}

/// a byte value at a screen offset that is visible: attributes get ink != paper
fn visible_byte(r: &mut Rng, off: usize) -> u8 {
    if off < 0x1800 {
        r.u8() | 1u8 << r.below(8)
    } else {
        let ink = r.below(8) as u8;
        let paper = (ink + 1 + r.below(7) as u8) & 7;
        ink | paper << 3 | (r.u8() & 0xC0)
    }
}

struct Gen {
    rng: Rng,
}

impl Gen {
    /// ops that put `scr` into RAM bank `bank` of the machine through `path`
    fn load_ops(&mut self, m128: bool, path: &str, bank: u8, scr: &[u8], other: &[u8]) -> Vec<Op> {
        let r = &mut self.rng;
        let mut ops = vec![];
        let latch_for = |b: u8| b; // page bank b at 0xC000
        match path {
            "cpu-4000" => ops.push(Op::WBlk(0x4000, r.below(4) as usize, scr.to_vec())),
            "cpu-c000" => {
                ops.push(Op::Out(0x7FFD, latch_for(bank)));
                ops.push(Op::WBlk(0xC000, r.below(4) as usize, scr.to_vec()));
            }
            "z80" => {
                // bulk through the CPU write cycle, a sample re-written by a real LD (HL),A
                let mut base = scr.to_vec();
                let idx: Vec<usize> = (0..24).map(|_| r.below(SCR_LEN as u64) as usize).collect();
                for i in &idx {
                    base[*i] ^= 0xFF;
                }
                let win: u16 = if m128 && bank == 7 { 0xC000 } else { 0x4000 };
                if win == 0xC000 {
                    ops.push(Op::Out(0x7FFD, bank));
                }
                ops.push(Op::WBlk(win, 3, base));
                for i in idx {
                    ops.push(Op::Z80(win + i as u16, scr[i]));
                }
            }
            "tape" => {
                if m128 {
                    // the trap needs ROM 1 (48K BASIC) paged in
                    ops.push(Op::Out(0x7FFD, 0x10 | if bank == 7 { 7 } else { 0 }));
                }
                if r.bool() {
                    ops.push(Op::Tape(if m128 && bank == 7 { 0xC000 } else { 0x4000 }, scr.to_vec()));
                } else if m128 && bank == 7 {
                    // a whole-bank load: the block ends exactly at 0xFFFF
                    let mut b = scr.to_vec();
                    b.extend(r.bytes(0x4000 - scr.len()));
                    ops.push(Op::Tape(0xC000, b));
                } else {
                    // a block that starts high, wraps through the ROM (writes ignored) and ends in the display file
                    let mut b = r.bytes(0x1000 + 0x4000);
                    b.extend_from_slice(scr);
                    ops.push(Op::Tape(0xF000, b));
                }
            }
            "scr" => ops.push(Op::Scr(scr.to_vec())),
            "sna" => {
                if m128 {
                    let latch = (r.u8() & 0x1F) & !0x20;
                    let (b5, b7) = if bank == 5 { (scr, other) } else { (other, scr) };
                    ops.push(Op::Sna128(latch, b5.to_vec(), b7.to_vec()));
                } else {
                    ops.push(Op::Sna48(scr.to_vec()));
                }
            }
            "szx" => {
                if m128 {
                    let (b5, b7) = if bank == 5 { (scr, other) } else { (other, scr) };
                    ops.push(Op::Szx(vec![(5, b5.to_vec()), (7, b7.to_vec())]));
                } else {
                    ops.push(Op::Szx(vec![(5, scr.to_vec())]));
                }
            }
            "poke" => {
                let win: u16 = if m128 && bank == 7 { 0xC000 } else { 0x4000 };
                if win == 0xC000 {
                    ops.push(Op::Out(0x7FFD, bank));
                }
                ops.push(Op::Poke(scr.iter().enumerate().map(|(i, v)| (win + i as u16, *v)).collect()));
            }
            _ => unreachable!(),
        }
        ops
    }
}

const PATHS: [&str; 7] = ["cpu-4000", "cpu-c000", "z80", "tape", "scr", "sna", "szx"];

fn violation_of(case: &Case, f: &Fail) -> Violation {
    Violation {
        kind: f.kind,
        key: f.key.clone(),
        what: f.what.clone(),
        correspondence: CORR.into(),
        case: J::obj(vec![("text", J::s(case.text()))]),
        implementation: f.imp.clone(),
        expected: f.exp.clone(),
    }
}

/// ddmin over the op list, then zeroing of byte strings, keeping a failure with the same key
fn shrink(model: &mut Model, case: &Case, key: &str) -> Case {
    let mut budget = 60usize;
    let mut fails = |model: &mut Model, c: &Case, budget: &mut usize| -> bool {
        if *budget == 0 {
            return false;
        }
        *budget -= 1;
        let mut o = Out::default();
        run_case(model, c, 1, &mut o).iter().any(|f| f.key == key)
    };
    let mut cur = case.clone();
    let mut chunk = (cur.ops.len() / 2).max(1);
    loop {
        let mut i = 0;
        let mut changed = false;
        while i < cur.ops.len() {
            let end = (i + chunk).min(cur.ops.len());
            let mut cand = cur.clone();
            cand.ops.drain(i..end);
            if !cand.ops.is_empty() && fails(model, &cand, &mut budget) {
                cur = cand;
                changed = true;
            } else {
                i = end;
            }
        }
        if (chunk == 1 && !changed) || budget == 0 {
            break;
        }
        if !changed || chunk > 1 {
            chunk = (chunk / 2).max(1);
        }
    }
    // shorten / zero byte strings
    for i in 0..cur.ops.len() {
        loop {
            let cand_op = match &cur.ops[i] {
                Op::WBlk(a, k, b) if b.len() > 1 => {
                    // keep the half that still fails
                    let h = b.len() / 2;
                    vec![Op::WBlk(*a, *k, b[..h].to_vec()), Op::WBlk(a.wrapping_add(h as u16), *k, b[h..].to_vec())]
                }
                Op::Poke(ps) if ps.len() > 1 => {
                    let h = ps.len() / 2;
                    vec![Op::Poke(ps[..h].to_vec()), Op::Poke(ps[h..].to_vec())]
                }
                Op::Tape(a, b) if b.len() > 1 => {
                    let h = b.len() / 2;
                    vec![Op::Tape(*a, b[..h].to_vec()), Op::Tape(a.wrapping_add(h as u16), b[h..].to_vec())]
                }
                Op::Scr(b) if b.iter().any(|x| *x != 0) => {
                    let nz: Vec<usize> = (0..b.len()).filter(|i| b[*i] != 0).collect();
                    let mut lo = b.clone();
                    let mut hi = b.clone();
                    for j in &nz[..nz.len() / 2] {
                        hi[*j] = 0;
                    }
                    for j in &nz[nz.len() / 2..] {
                        lo[*j] = 0;
                    }
                    if nz.len() < 2 {
                        vec![]
                    } else {
                        vec![Op::Scr(lo), Op::Scr(hi)]
                    }
                }
                _ => vec![],
            };
            let mut progressed = false;
            for c in cand_op {
                let mut cand = cur.clone();
                cand.ops[i] = c;
                if fails(model, &cand, &mut budget) {
                    cur = cand;
                    progressed = true;
                    break;
                }
            }
            if !progressed {
                break;
            }
        }
    }
    cur
}

pub fn run(o: &Opts) -> Report {
    let mut rep = Report::new("C08");
    rep.rule = "real Emulator with recording frame buffers vs. the Lean model, per delivered frame (FNV-1a of the \
256x192 canvas), the executable stdDecode adjudicating every frame during which the visible memory did not change. \
(1) random 6912-byte screens (five bitmap styles, FLASH/BRIGHT-biased attributes) loaded through each path \
{CPU write cycle via 0x4000, via 0xC000 with bank 5/7 paged, real LD (HL),A, tape fast-load, SCR, SNA, SZX} on both \
machines, into the displayed and the hidden 128K screen, followed by single-byte perturbation frames (16 bytes per \
frame, alternating CPU/Z80 paths) that together cover every one of the 6912 offsets of every screen bank; \
(2) runs of 50-1100 frames without memory change for the flash phase (more than 512 frames on the 48K) (both machines, both 128K screens); (2b) a program run by emulate_frames with 2-3 frames per call, stopped by a breakpoint inside the first frame at various beam positions and resumed with one frame per call; (3) beam-relative \
probes: one byte written at frame clock fetch(line,col)+d, d in -40..40, pixels read from the frame in progress and \
the next one; (4) paging-latch histories switching the displayed 128K screen, including the lock bit; (5) pokes \
(execute_poke) into screen memory; (6) matrix: every writer {CPU write cycle, real LD (HL),A, execute_poke, tape fast-load, \
SCR load} through the 0x4000 and the 0xC000 window x every paging state {48K; 128K: bank 0/5/7 at 0xC000 x screen 5/7 x \
ROM 0/1 x latch open/LOCKED (plus a write the lock must ignore)} x three write times reached by real waiting: well \
before / well after / within 20 T of the byte's fetch, or anywhere in the frame. Time always passes through \
wait_internal (never by moving the clock hook), so the emulator has rendered what it should have rendered when a \
write arrives. Every screen byte written to the displayed bank while a frame is in progress (any writer, any case) is \
adjudicated in the frame delivered: written >= 8 T before its fetch -> stdDecode with the new byte, >= 8 T after -> with \
the old byte, else either. distinct/non-trivial = distinct (path, machine, bank, visible) load classes, flash \
phases by frame number mod 32, beam (writer, byte kind, before/after/margin, dt/4) classes, matrix (writer, window, paging state) classes, perturbed-offset classes (offset/256)"
        .into();
    let mut model = Model::spawn(&o.model, "C08");

    if let Some(text) = &o.replay {
        let case = Case::parse(text);
        rep.sample(J::s(text.chars().take(300).collect::<String>()));
        let mut out = Out::default();
        let fails = run_case(&mut model, &case, 1, &mut out);
        rep.evaluations += out.evals;
        for f in fails {
            rep.violation(violation_of(&case, &f));
        }
        return rep;
    }

    // ---- generate all cases deterministically from the seed
    let mut g = Gen { rng: Rng::new(o.seed ^ 0xC08) };
    let mut cases: Vec<(String, Case, u64)> = vec![]; // (class label, case, spec_every)

    // (1) screens x paths, then perturbation frames covering every offset of every screen bank
    let screens = o.n(96, 6000) as usize;
    // offsets still to perturb, per (machine, bank)
    let mut todo: Vec<(bool, u8, Vec<usize>)> = vec![];
    for (m128, bank) in [(false, 0u8), (true, 5), (true, 7)] {
        let mut offs: Vec<usize> = (0..SCR_LEN).collect();
        // Fisher-Yates
        for i in (1..offs.len()).rev() {
            let j = g.rng.below(i as u64 + 1) as usize;
            offs.swap(i, j);
        }
        todo.push((m128, bank, offs));
    }
    for i in 0..screens {
        let path = PATHS[i % PATHS.len()];
        let m128 = (i / PATHS.len()) % 3 != 0 || path == "cpu-c000";
        let bank: u8 = if !m128 {
            0
        } else if path == "scr" || path == "cpu-4000" {
            5
        } else if (i / PATHS.len()) % 3 == 1 {
            5
        } else {
            7
        };
        let scr = random_screen(&mut g.rng);
        let other = random_screen(&mut g.rng);
        // which 128K screen is displayed while loading / afterwards
        let show7 = m128 && g.rng.bool();
        let mut ops = vec![];
        if m128 && path != "sna" {
            ops.push(Op::Out(0x7FFD, if show7 { 0x08 } else { 0x00 }));
        }
        if path == "scr" || path == "tape" || g.rng.bool() {
            // the beam somewhere inside the frame when the bytes arrive
            ops.push(Op::WaitTo(g.rng.below(69000) as usize));
        }
        let mut lo = g.load_ops(m128, path, bank, &scr, &other);
        if m128 {
            // keep the displayed-screen bit while paging banks at 0xC000
            for op in lo.iter_mut() {
                if let Op::Out(0x7FFD, v) = op {
                    *v |= if show7 { 0x08 } else { 0 };
                }
            }
        }
        ops.extend(lo);
        ops.push(Op::Frame);
        ops.push(Op::Frame);
        if m128 {
            // show the loaded bank (and, later, the other one)
            let keep_rom = if path == "tape" { 0x10 } else { 0 };
            ops.push(Op::Out(0x7FFD, keep_rom | if bank == 7 { 0x08 | 7 } else { 5 }));
            ops.push(Op::Frame);
            ops.push(Op::Frame);
        }
        // perturbation frames
        let t = todo.iter_mut().find(|t| t.0 == m128 && t.1 == bank).unwrap();
        let per_frame = 16;
        let frames = o.n(3, 6) as usize;
        for f in 0..frames {
            if t.2.is_empty() {
                break;
            }
            for k in 0..per_frame {
                if let Some(off) = t.2.pop() {
                    let win: u16 = if m128 && bank == 7 { 0xC000 } else { 0x4000 };
                    let v = visible_byte(&mut g.rng, off) ^ scr[off] | 1;
                    let a = win + off as u16;
                    ops.push(if (f + k) % 4 == 3 { Op::Z80(a, v) } else { Op::W(a, v, g.rng.below(5) as usize) });
                }
            }
            ops.push(Op::Frame);
            ops.push(Op::Frame);
        }
        let vis = !m128 || (bank == 7) == show7;
        cases.push((format!("load path={} m128={} bank={} visible-while-loading={}", path, m128, bank, vis), Case { m128, ops }, 1));
    }
    // leftover offsets (quick tier: the screens above do not reach all of them): dense perturbation cases
    for (m128, bank, offs) in todo.iter_mut() {
        while !offs.is_empty() {
            let mut ops = vec![];
            let win: u16 = if *m128 && *bank == 7 { 0xC000 } else { 0x4000 };
            if *m128 {
                ops.push(Op::Out(0x7FFD, if *bank == 7 { 0x08 | 7 } else { 5 }));
            }
            // visible background: white ink on black paper everywhere
            let mut bg = vec![0u8; SCR_LEN];
            for b in bg.iter_mut().skip(0x1800) {
                *b = 0x07;
            }
            ops.push(Op::WBlk(win, 0, bg));
            ops.push(Op::Frame);
            for f in 0..12 {
                for k in 0..16 {
                    if let Some(off) = offs.pop() {
                        let v = visible_byte(&mut g.rng, off);
                        let a = win + off as u16;
                        ops.push(if (f + k) % 5 == 4 { Op::Z80(a, v) } else { Op::W(a, v, g.rng.below(5) as usize) });
                    }
                }
                ops.push(Op::Frame);
                ops.push(Op::Frame);
            }
            cases.push((format!("perturb m128={} bank={}", m128, bank), Case { m128: *m128, ops }, 4));
        }
    }

    // (2) flash runs
    for (m128, bank) in [(false, 0u8), (true, 5), (true, 7)] {
        let mut scr = random_screen(&mut g.rng);
        for b in scr.iter_mut().skip(0x1800).step_by(3) {
            *b |= 0x80;
            if *b & 7 == (*b >> 3) & 7 {
                *b ^= 1;
            }
        }
        let mut ops = vec![];
        if m128 {
            ops.push(Op::Out(0x7FFD, if bank == 7 { 0x08 | 7 } else { 5 }));
        }
        // a random number of frames first, so that the run starts at an arbitrary phase
        for _ in 0..g.rng.below(20) {
            ops.push(Op::Wait(clocks_frame(m128)));
        }
        ops.push(Op::WBlk(if bank == 7 { 0xC000 } else { 0x4000 }, 0, scr.clone()));
        if m128 {
            // the other screen bank holds flashing cells too (its attributes are the inverse picture)
            let other: Vec<u8> = scr.iter().enumerate().map(|(i, b)| if i >= 0x1800 { *b ^ 0x12 } else { !*b }).collect();
            let other_bank = if bank == 7 { 5u8 } else { 7 };
            ops.push(Op::Out(0x7FFD, other_bank | if bank == 7 { 0x08 } else { 0 }));
            ops.push(Op::WBlk(0xC000, 0, other));
            ops.push(Op::Out(0x7FFD, if bank == 7 { 0x08 | 7 } else { 5 }));
        }
        // the 48K run is long enough for an eight-bit frame counter to wrap twice; on the 128K the displayed bank is
        // switched every 23 frames, so that a bank comes back after an odd and after an even number of flash changes
        let nframes = if !m128 { o.n(530, 1100) } else { o.n(140, 600) };
        let mut shown7 = bank == 7;
        for f in 0..nframes {
            ops.push(Op::Frame);
            if m128 && f % 23 == 22 {
                shown7 = !shown7;
                ops.push(Op::Out(0x7FFD, if shown7 { 0x08 | 7 } else { 5 }));
                ops.push(Op::Frame);
            }
        }
        cases.push((format!("flash m128={} bank={}", m128, bank), Case { m128, ops }, 1));
    }

    // (2b) host slicing: several frames per call, a breakpoint stop inside the first of them at various beam
    // positions (26 T per loop pass), then one frame per call — the screen changed two frames earlier only
    for (m128, bank) in [(false, 0u8), (true, 5), (true, 7)] {
        for k in 0..o.n(2, 12) {
            let mut ops = vec![];
            if m128 {
                ops.push(Op::Out(0x7FFD, if bank == 7 { 0x08 | 7 } else { 5 }));
            }
            for round in 0..3 {
                let scr = random_screen(&mut g.rng);
                ops.push(Op::WBlk(if bank == 7 { 0xC000 } else { 0x4000 }, 0, scr));
                ops.push(Op::Frame);
                ops.push(Op::Frame);
                let iters = match (k + round) % 4 {
                    0 => 100 + g.rng.below(400),        // top border
                    1 => 560 + g.rng.below(1600),       // inside the picture
                    2 => 1000 + g.rng.below(800),
                    _ => 2250 + g.rng.below(400),       // bottom border
                } as usize;
                ops.push(Op::RunStop(2 + ((k + round) % 2) as usize, iters));
                ops.push(Op::Frame);
                if !(m128 && bank == 7) {
                    // a host snapshot save with the stack inside the displayed file
                    ops.push(Op::SaveSna(0x4002 + g.rng.below(0x1AF0) as u16));
                    ops.push(Op::Frame);
                    ops.push(Op::Frame);
                }
            }
            cases.push((format!("runstop m128={} bank={}", m128, bank), Case { m128, ops }, 1));
        }
    }

    // (3) beam-relative probes
    let probes = o.n(160, 20000) as usize;
    let per_case = 8;
    for i in 0..probes / per_case {
        let m128 = i % 2 == 1;
        let show7 = m128 && i % 4 == 3;
        let mut ops = vec![];
        if m128 {
            ops.push(Op::Out(0x7FFD, if show7 { 0x08 | 7 } else { 5 }));
        }
        // through the 0x4000 window only bank 5 is reachable; probes on bank 7 go through 0xC000
        let win: u16 = if show7 { 0xC000 } else { 0x4000 };
        let mut bg = random_screen(&mut g.rng);
        for b in bg.iter_mut().skip(0x1800) {
            if *b & 7 == (*b >> 3) & 7 {
                *b ^= 7;
            }
        }
        ops.push(Op::WBlk(win, 0, bg.clone()));
        ops.push(Op::Frame);
        for _ in 0..per_case {
            let off = if g.rng.chance(2, 3) { g.rng.below(0x1800) as usize } else { 0x1800 + g.rng.below(768) as usize };
            let (y, col) = if off < 0x1800 {
                (((off >> 8) & 7) | ((off >> 2) & 0x38) | ((off >> 5) & 0xC0), off & 31)
            } else {
                (((off - 0x1800) / 32) * 8 + g.rng.below(8) as usize, (off - 0x1800) % 32)
            };
            let fetch = (if m128 { 14362 } else { 14336 }) + y * (if m128 { 228 } else { 224 }) + 4 * col;
            let d: i64 = match g.rng.below(4) {
                0 => -(g.rng.range(8, 40) as i64),
                1 => g.rng.range(8, 40) as i64,
                2 => g.rng.range(0, 14) as i64 - 7,
                _ => g.rng.range(0, 400) as i64 - 200,
            };
            let t = (fetch as i64 + d).max(0) as usize;
            let v = visible_byte(&mut g.rng, off) ^ bg[off] | 1;
            bg[off] = v;
            ops.push(Op::Probe(t, win + off as u16, v));
        }
        cases.push((format!("probe m128={} show7={}", m128, show7), Case { m128, ops }, 1));
    }

    // (4) paging-latch histories
    for i in 0..o.n(12, 600) {
        let mut ops = vec![];
        let a = random_screen(&mut g.rng);
        let b = random_screen(&mut g.rng);
        ops.push(Op::Out(0x7FFD, 5));
        ops.push(Op::WBlk(0xC000, 0, a));
        ops.push(Op::Out(0x7FFD, 7));
        ops.push(Op::WBlk(0xC000, 0, b));
        ops.push(Op::Frame);
        for k in 0..10 {
            let mut v = g.rng.u8() & 0x1F;
            if k >= 6 && i % 3 == 0 {
                v |= if k == 6 { 0x20 } else { g.rng.u8() & 0x20 };
            }
            let port = *g.rng.pick(&[0x7FFDu16, 0x7FFD, 0x3FFD, 0x0001, 0x7FFC, 0xFFFD, 0xBFFD]);
            ops.push(Op::Out(port, v));
            if g.rng.bool() {
                let off = g.rng.below(SCR_LEN as u64) as usize;
                ops.push(Op::W(0xC000 + off as u16, visible_byte(&mut g.rng, off), 3));
            }
            ops.push(Op::Frame);
            ops.push(Op::Frame);
        }
        cases.push(("latch history".into(), Case { m128: true, ops }, 2));
    }

    // (5) pokes
    let poke_cases = o.n(9, 300) as usize;
    for i in 0..poke_cases {
        let m128 = i % 3 != 0;
        let bank: u8 = if !m128 {
            0
        } else if i % 3 == 1 {
            5
        } else {
            7
        };
        let mut ops = vec![];
        if i == 0 {
            // the documented minimal case
            ops.push(Op::Poke(vec![(0x4000, 0xFF), (0x5800, 0x07)]));
        } else if i < 6 {
            let scr = random_screen(&mut g.rng);
            let lo = g.load_ops(m128, "poke", bank, &scr, &scr);
            ops.extend(lo);
            if m128 {
                ops.push(Op::Out(0x7FFD, if bank == 7 { 0x08 | 7 } else { 5 }));
            }
        } else {
            // poke on top of a screen loaded by the CPU
            let scr = random_screen(&mut g.rng);
            let win: u16 = if bank == 7 { 0xC000 } else { 0x4000 };
            if m128 {
                ops.push(Op::Out(0x7FFD, if bank == 7 { 0x08 | 7 } else { 5 }));
            }
            ops.push(Op::WBlk(win, 0, scr.clone()));
            ops.push(Op::Frame);
            let ps: Vec<(u16, u8)> = (0..4)
                .map(|_| {
                    let off = g.rng.below(SCR_LEN as u64) as usize;
                    (win + off as u16, visible_byte(&mut g.rng, off) ^ scr[off] | 1)
                })
                .collect();
            ops.push(Op::Poke(ps));
            // pokes outside the screen and into ROM must not disturb anything
            ops.push(Op::Poke(vec![(0x0C88, 0xC3), (0x5B00, 0x55), (0x9000, 0xAA)]));
        }
        ops.push(Op::Frame);
        ops.push(Op::Frame);
        ops.push(Op::Frame);
        cases.push((format!("poke m128={} bank={}", m128, bank), Case { m128, ops }, 1));
    }

    // (6) every writer x every paging state (incl. locked ones) x write time relative to the beam
    {
        let mut states: Vec<Option<u8>> = vec![None];
        for lock in [0u8, 0x20] {
            for rom in [0u8, 0x10] {
                for scr in [0u8, 0x08] {
                    for top in [0u8, 5, 7] {
                        states.push(Some(lock | rom | scr | top));
                    }
                }
            }
        }
        let writers: [(&str, u16); 9] = [
            ("cpu", 0x4000), ("cpu", 0xC000), ("z80", 0x4000), ("z80", 0xC000), ("poke", 0x4000), ("poke", 0xC000),
            ("tape", 0x4000), ("tape", 0xC000), ("scr", 0x4000),
        ];
        let reps = o.n(1, 12);
        let rounds = o.n(5, 8) as usize;
        for _ in 0..reps {
            for st in &states {
                for (w, win) in writers {
                    let m128 = st.is_some();
                    let latch = st.unwrap_or(0);
                    // the fast-load trap needs the 48K BASIC ROM at 0x0000
                    if w == "tape" && m128 && latch & 0x10 == 0 {
                        continue;
                    }
                    let mut ops = vec![];
                    // background: distinct visible content in every screen bank, loaded before locking
                    let mut mem: Vec<Vec<u8>> = vec![vec![]; 8];
                    if m128 {
                        for b in [5u8, 7] {
                            let bg = random_screen(&mut g.rng);
                            ops.push(Op::Out(0x7FFD, b));
                            ops.push(Op::WBlk(0xC000, 0, bg.clone()));
                            mem[b as usize] = bg;
                        }
                        ops.push(Op::Out(0x7FFD, latch));
                        if latch & 0x20 != 0 {
                            // must be ignored: the latch is locked
                            ops.push(Op::Out(0x7FFD, (latch ^ 0x0F) & 0x1F));
                        }
                    } else {
                        let bg = random_screen(&mut g.rng);
                        ops.push(Op::WBlk(0x4000, 0, bg.clone()));
                        mem[0] = bg;
                    }
                    ops.push(Op::Frame);
                    // RAM bank behind the window
                    let bank: Option<usize> = match (m128, win) {
                        (false, 0x4000) => Some(0),
                        (false, _) => None,
                        (true, 0x4000) => Some(5),
                        (true, _) => Some((latch & 7) as usize),
                    };
                    let lm = if m128 { 228 } else { 224 };
                    let fp = if m128 { 14362 } else { 14336 };
                    for round in 0..rounds {
                        let off = if g.rng.chance(2, 3) { g.rng.below(0x1800) as usize } else { 0x1800 + g.rng.below(768) as usize };
                        let (y, col) = if off < 0x1800 {
                            (((off >> 8) & 7) | ((off >> 2) & 0x38) | ((off >> 5) & 0xC0), off & 31)
                        } else {
                            (((off - 0x1800) / 32) * 8 + g.rng.below(8) as usize, (off - 0x1800) % 32)
                        };
                        let fetch = fp + y * lm + 4 * col;
                        let d: i64 = match (round + g.rng.below(2) as usize) % 5 {
                            0 => -(g.rng.range(40, 600) as i64),
                            1 => g.rng.range(16, 600) as i64,
                            2 => g.rng.range(0, 40) as i64 - 20,
                            // below the last canvas line: bottom border and retrace, the picture of this frame is complete
                            3 => (fp + 192 * lm) as i64 + g.rng.range(2, 11000) as i64 - fetch as i64,
                            _ => g.rng.range(0, 60000) as i64 - fetch as i64,
                        };
                        ops.push(Op::WaitTo((fetch as i64 + d).clamp(0, 69000) as usize));
                        let cur = |mem: &Vec<Vec<u8>>, o: usize| bank.and_then(|b| mem[b].get(o).copied()).unwrap_or(0);
                        let mut fresh = |g: &mut Gen, mem: &mut Vec<Vec<u8>>, o: usize| {
                            let mut v = visible_byte(&mut g.rng, o);
                            if v == cur(mem, o) {
                                v ^= 0x55;
                            }
                            if let Some(b) = bank {
                                if o < mem[b].len() {
                                    mem[b][o] = v;
                                }
                            }
                            v
                        };
                        match w {
                            "cpu" => {
                                let v = fresh(&mut g, &mut mem, off);
                                ops.push(Op::W(win + off as u16, v, g.rng.below(5) as usize));
                            }
                            "z80" => {
                                let v = fresh(&mut g, &mut mem, off);
                                ops.push(Op::Z80(win + off as u16, v));
                            }
                            "poke" => {
                                let mut ps = vec![];
                                let v = fresh(&mut g, &mut mem, off);
                                ps.push((win + off as u16, v));
                                for _ in 0..g.rng.below(3) {
                                    let o2 = g.rng.below(SCR_LEN as u64) as usize;
                                    if o2 != off {
                                        let v2 = fresh(&mut g, &mut mem, o2);
                                        ps.push((win + o2 as u16, v2));
                                    }
                                }
                                ops.push(Op::Poke(ps));
                            }
                            "tape" => {
                                let n = (g.rng.range(1, 96) as usize).min(SCR_LEN - off);
                                let bytes: Vec<u8> = (0..n).map(|i| fresh(&mut g, &mut mem, off + i)).collect();
                                ops.push(Op::Tape(win + off as u16, bytes));
                            }
                            _ => {
                                let scr = random_screen(&mut g.rng);
                                if m128 {
                                    mem[5] = scr.clone();
                                } else {
                                    mem[0] = scr.clone();
                                }
                                ops.push(Op::Scr(scr));
                            }
                        }
                        ops.push(Op::Frame);
                        ops.push(Op::Frame);
                    }
                    if m128 && latch & 0x20 == 0 {
                        // look at the other screen too
                        ops.push(Op::Out(0x7FFD, latch ^ 0x08));
                        ops.push(Op::Frame);
                        ops.push(Op::Frame);
                    }
                    let label = match st {
                        None => format!("matrix writer={} window={:04x} 48K", w, win),
                        Some(l) => format!(
                            "matrix writer={} window={:04x} top={} shown={} rom={} lock={}",
                            w, win, l & 7, if l & 8 != 0 { 7 } else { 5 }, (l >> 4) & 1, (l >> 5) & 1
                        ),
                    };
                    cases.push((label, Case { m128, ops }, 2));
                }
            }
        }
    }

    // ---- run them on worker threads, each with its own driver process and emulators
    let threads = std::thread::available_parallelism().map(|n| n.get()).unwrap_or(4).clamp(1, 12);
    let results: Vec<Vec<(usize, Out, Vec<Fail>)>> = std::thread::scope(|s| {
        let handles: Vec<_> = (0..threads)
            .map(|t| {
                let cases = &cases;
                let path = o.model.clone();
                s.spawn(move || {
                    let mut model = Model::spawn(&path, "C08");
                    let mut res = vec![];
                    for (i, (_, case, every)) in cases.iter().enumerate() {
                        if i % threads != t {
                            continue;
                        }
                        let mut out = Out::default();
                        let fails = run_case(&mut model, case, *every, &mut out);
                        res.push((i, out, fails));
                    }
                    res
                })
            })
            .collect();
        handles.into_iter().map(|h| h.join().unwrap_or_default()).collect()
    });
    let mut flat: Vec<(usize, Out, Vec<Fail>)> = results.into_iter().flatten().collect();
    flat.sort_by_key(|x| x.0);
    if flat.len() != cases.len() {
        rep.notes.push(format!("{} of {} cases did not complete (worker died)", cases.len() - flat.len(), cases.len()));
    }
    let mut perturbed = 0u64;
    for (i, out, fails) in flat {
        let (label, case, _) = &cases[i];
        rep.evaluations += out.evals;
        rep.class(label.clone());
        for c in out.classes {
            rep.class(c);
        }
        for (h, b, n) in out.counts {
            rep.count_n(&h, b, n);
        }
        for op in &case.ops {
            if let Op::W(a, _, _) | Op::Z80(a, _) = op {
                perturbed += 1;
                rep.class(format!("perturbed offset/256={} m128={}", (a & 0x3FFF) / 256, case.m128));
            }
        }
        rep.count("cases", label.split(' ').next().unwrap_or("?"));
        if i < 2 {
            rep.sample(J::s(case.text().chars().take(240).collect::<String>() + " ..."));
        }
        for f in fails {
            if rep.has_key(&f.key) {
                rep.count("repeat_violations", f.key.clone());
                continue;
            }
            // shrinking re-runs the case many times; after a handful of distinct failures the
            // remaining ones are recorded as found
            let small = if rep.violations.len() < 5 { shrink(&mut model, case, &f.key) } else { case.clone() };
            let mut o2 = Out::default();
            let f2 = run_case(&mut model, &small, 1, &mut o2).into_iter().find(|x| x.key == f.key).unwrap_or(f);
            rep.violation(violation_of(&small, &f2));
        }
    }
    rep.extra.push(("cases".into(), J::I(cases.len() as i64)));
    rep.extra.push(("single_byte_writes".into(), J::I(perturbed as i64)));
    rep.extra.push(("worker_threads".into(), J::I(threads as i64)));
    rep
}
