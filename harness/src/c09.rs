//! C09 — border pixels show the colour written to the ULA before the beam got there.
//! Real code: a real `Emulator`; port writes through hook `verif_write_io` (the CPU's `write_io`
//! entry point, contention included) at chosen frame clocks (`verif_set_frame_clocks`, forward
//! only), through a real `OUT (n),A`, and a snapshot border through an SNA load. After every
//! completed frame the 320x240 border buffer is compared with the Lean model exactly (FNV-1a hash)
//! and adjudicated by the executable spec (±16 px on a line) — the buffer travels as run lengths
//! only when it differs from the model's.
use crate::host::*;
use crate::util::*;
use rustzx_core::host::Snapshot;
use std::panic::{catch_unwind, AssertUnwindSafe};
use std::time::Duration;

const CORR: &str = "corr.C09.border (Model.Video Border.setBorder / newFrame / Ctl.writeIo vs Emulator + ZXBorder)";
const W: usize = 320;
const H: usize = 240;

fn fnv(px: &[u8]) -> u64 {
    let mut h: u64 = 0xcbf29ce484222325;
    for b in px {
        h = (h ^ (*b as u64)).wrapping_mul(0x100000001b3);
    }
    h
}

fn clocks_frame(m128: bool) -> usize {
    if m128 {
        70908
    } else {
        69888
    }
}
fn line_len(m128: bool) -> usize {
    if m128 {
        228
    } else {
        224
    }
}
fn origin(m128: bool) -> usize {
    (if m128 { 14362 } else { 14336 }) - 24 * line_len(m128) - 16 + 1
}

#[derive(Clone, Debug, PartialEq)]
enum Op {
    Wait(usize),
    SetClk(usize),
    Out(u16, u8),
    /// `OUT (n),A` executed by the emulated CPU, A = high byte of the port and the data
    Z80Out(u8, u8),
    /// SNA load (48K machine only) with this border byte
    Snap(u8),
    /// SZX with an SPCR chunk: (chBorder, chFe)
    SnapSzx(u8, u8),
    Frame,
}

impl Op {
    fn text(&self) -> String {
        match self {
            Op::Wait(n) => format!("wait {:x}", n),
            Op::SetClk(t) => format!("setclk {:x}", t),
            Op::Out(p, v) => format!("out {:04x} {:02x}", p, v),
            Op::Z80Out(n, a) => format!("z80out {:02x} {:02x}", n, a),
            Op::Snap(c) => format!("snap {:02x}", c),
            Op::SnapSzx(b, fe) => format!("snapszx {:02x} {:02x}", b, fe),
            Op::Frame => "frame".into(),
        }
    }
    fn parse(s: &str) -> Option<Op> {
        let t: Vec<&str> = s.split_whitespace().collect();
        let n = |x: &str| usize::from_str_radix(x, 16).ok();
        Some(match t.as_slice() {
            ["wait", a] => Op::Wait(n(a)?),
            ["setclk", a] => Op::SetClk(n(a)?),
            ["out", p, v] => Op::Out(n(p)? as u16, n(v)? as u8),
            ["z80out", p, v] => Op::Z80Out(n(p)? as u8, n(v)? as u8),
            ["snap", c] => Op::Snap(n(c)? as u8),
            ["snapszx", b, fe] => Op::SnapSzx(n(b)? as u8, n(fe)? as u8),
            ["frame"] => Op::Frame,
            _ => return None,
        })
    }
}

#[derive(Clone)]
struct Case {
    m128: bool,
    ops: Vec<Op>,
}
impl Case {
    fn text(&self) -> String {
        let mut s = format!("m128={}", if self.m128 { 1 } else { 0 });
        for o in &self.ops {
            s.push_str(" ; ");
            s.push_str(&o.text());
        }
        s
    }
    fn parse(s: &str) -> Case {
        let mut parts = s.split(';').map(|x| x.trim());
        let m128 = parts.next().unwrap_or("") == "m128=1";
        Case { m128, ops: parts.filter_map(Op::parse).collect() }
    }
}

#[derive(Clone, Debug)]
struct Fail {
    kind: Kind,
    key: String,
    what: String,
    imp: String,
    exp: String,
}

#[derive(Default)]
struct Out {
    evals: u64,
    classes: Vec<String>,
    counts: Vec<(String, String)>,
}

/// where in the frame a write is latched
fn region(m128: bool, t: usize) -> &'static str {
    let o = origin(m128);
    let l = line_len(m128);
    if t < o {
        return "before-first-line";
    }
    let d = t - o;
    let (line, x) = (d / l, (d % l + 1) * 2);
    if line >= H {
        return "after-last-line";
    }
    if x > W + 2 {
        return "retrace";
    }
    if line < 24 {
        "top-border"
    } else if line >= 216 {
        "bottom-border"
    } else if x < 32 {
        "left-border"
    } else if x >= 288 {
        "right-border"
    } else {
        "behind-picture"
    }
}

struct Sim<'a> {
    e: Emu,
    m128: bool,
    model: &'a mut Model,
    frames: u64,
    last_fc: usize,
    writes_this_frame: usize,
    writes_last_frame: usize,
    fails: Vec<Fail>,
}

impl<'a> Sim<'a> {
    fn new(model: &'a mut Model, m128: bool) -> Sim<'a> {
        let mut e = emu(&Cfg::new(m128));
        e.set_debug_interface(Dbg { break_all: true, ..Default::default() });
        let _ = model.ask(&format!("new {}", if m128 { 1 } else { 0 }));
        Sim { e, m128, model, frames: 0, last_fc: 0, writes_this_frame: 0, writes_last_frame: 0, fails: vec![] }
    }
    fn fail(&mut self, kind: Kind, key: &str, what: String, imp: String, exp: String) {
        if !self.fails.iter().any(|f| f.key == key) {
            self.fails.push(Fail { kind, key: key.to_string(), what, imp, exp });
        }
    }
    fn sync_frames(&mut self) {
        let fc = self.e.verif_frames_count();
        if fc >= self.last_fc && fc > self.last_fc {
            self.frames += (fc - self.last_fc) as u64;
            self.writes_last_frame = self.writes_this_frame;
            self.writes_this_frame = 0;
        }
        self.last_fc = fc;
    }
    fn model_op(&mut self, line: &str) -> String {
        let r = self.model.ask(line);
        let mut it = r.split(' ');
        let mc = usize::from_str_radix(it.next().unwrap_or("x"), 16).unwrap_or(usize::MAX);
        let mf = u64::from_str_radix(it.next().unwrap_or("x"), 16).unwrap_or(u64::MAX);
        let rc = self.e.verif_frame_clocks();
        if mc != rc || mf != self.frames & 0xFFFF {
            self.fail(
                Kind::ModelMismatch,
                "C09/model/clock",
                format!("after `{}` the emulator is at frame clock {} / {} frames, the model at {} / {}", line, rc, self.frames, mc, mf),
                format!("{}/{}", rc, self.frames),
                format!("{}/{}", mc, mf),
            );
        }
        it.next().unwrap_or("-").to_string()
    }
    fn finish_frame(&mut self) {
        let f = clocks_frame(self.m128);
        let left = f - self.e.verif_frame_clocks().min(f - 1);
        self.e.verif_wait(left);
        self.sync_frames();
        self.model_op(&format!("wait {:x}", left));
    }
    fn rle(px: &[u8]) -> String {
        let mut s = String::new();
        let mut i = 0;
        while i < px.len() {
            let mut j = i;
            while j < px.len() && px[j] == px[i] {
                j += 1;
            }
            if !s.is_empty() {
                s.push(',');
            }
            s.push_str(&format!("{:x}:{:x}", j - i, px[i]));
            i = j;
        }
        s
    }
    fn check_frame(&mut self, out: &mut Out) {
        out.evals += 1;
        let px = self.e.border_buffer().px.clone();
        let real = fnv(&px);
        let r = self.model.ask("frame");
        let t: Vec<&str> = r.split(' ').collect();
        let mh = u64::from_str_radix(t[0], 16).unwrap_or(0);
        // verdict: "ok" | "unspec" | "bad q shown exact"
        let mut verdict: Vec<String> = t[1..t.len() - 2].iter().map(|s| s.to_string()).collect();
        let model_rep = t[t.len() - 2];
        let spec_rep = t[t.len() - 1];
        if real != mh {
            let v = self.model.ask(&format!("adj {}", Self::rle(&px)));
            verdict = v.split(' ').map(|s| s.to_string()).collect();
        }
        let wl = self.writes_last_frame;
        out.counts.push(("writes_per_frame".into(), if wl > 12 { "13+".into() } else { format!("{:02}", wl) }));
        if verdict[0] == "bad" {
            let q = usize::from_str_radix(&verdict[1], 16).unwrap_or(0);
            self.fail(
                Kind::SpecViolated,
                if wl == 0 { "C09/frame/no-write" } else { "C09/frame/after-write" },
                format!(
                    "frame {} ({} port writes): border pixel ({},{}) shows colour code {} but the colour written before the beam got there is {} (and no position within 16 px on that line has the shown colour)",
                    self.frames, wl, q % W, q / W, verdict[2], verdict[3]
                ),
                verdict[2].clone(),
                verdict[3].clone(),
            );
        } else if real != mh {
            // which pixel differs from the model
            let mut first = None;
            let mut lines = vec![];
            // bisect by asking single pixels around run boundaries of the real buffer
            let mut cand = vec![0usize];
            for i in 1..px.len() {
                if px[i] != px[i - 1] {
                    for d in 0..3 {
                        if i >= d {
                            cand.push(i - d);
                        }
                        if i + d < px.len() {
                            cand.push(i + d);
                        }
                    }
                }
            }
            cand.truncate(4000);
            for q in &cand {
                lines.push(format!("bpx {:x}", q));
            }
            let ans = self.model.ask_many(&lines);
            for (q, a) in cand.iter().zip(ans.iter()) {
                let m = u8::from_str_radix(a, 16).unwrap_or(0xEE);
                if m != px[*q] {
                    first = Some((*q, m));
                    break;
                }
            }
            let what = match first {
                Some((q, m)) => format!("first difference found at pixel ({},{}): buffer {:02x}, model {:02x}", q % W, q / W, px[q], m),
                None => "difference not near a colour change of the real buffer".into(),
            };
            self.fail(
                Kind::ModelMismatch,
                "C09/model/frame",
                format!("frame {} ({} port writes): the border buffer is within the spec's tolerance but differs from the model; {}", self.frames, wl, what),
                format!("{:016x}", real),
                format!("{:016x}", mh),
            );
        }
        // reported colour
        out.evals += 1;
        let rep = self.e.border_color() as u8;
        if spec_rep != "-" && format!("{:x}", rep) != spec_rep {
            self.fail(
                Kind::SpecViolated,
                "C09/reported-colour",
                format!("frame {}: border_color() reports {} but the last value written to the ULA / loaded from a snapshot has low bits {}", self.frames, rep, spec_rep),
                format!("{}", rep),
                spec_rep.to_string(),
            );
        } else if format!("{:x}", rep) != model_rep {
            self.fail(
                Kind::ModelMismatch,
                "C09/model/reported-colour",
                format!("frame {}: border_color() reports {}, the model {}", self.frames, rep, model_rep),
                format!("{}", rep),
                model_rep.to_string(),
            );
        }
        out.classes.push(format!("reported colour {}", rep));
    }
    fn apply(&mut self, op: &Op, out: &mut Out) {
        match op {
            Op::Wait(n) => {
                self.e.verif_wait(*n);
                self.sync_frames();
                self.model_op(&format!("wait {:x}", n));
            }
            Op::SetClk(t) => {
                if *t < self.e.verif_frame_clocks() {
                    return; // the clock hook only moves forward; keep the current clock
                }
                let t = (*t).min(clocks_frame(self.m128) - 1);
                self.e.verif_set_frame_clocks(t);
                self.model_op(&format!("setclk {:x}", t));
            }
            Op::Out(p, v) => {
                let f0 = self.e.verif_frames_count();
                self.e.verif_write_io(*p, *v);
                // attribute the write to the frame in which it was latched
                let crossed = self.e.verif_frames_count() != f0;
                let latch_first = crossed && self.e.verif_frame_clocks() >= 4;
                if crossed && latch_first {
                    self.sync_frames();
                }
                self.writes_this_frame += 1;
                self.sync_frames();
                let latch = self.model_op(&format!("out {:04x} {:02x}", p, v));
                if let Ok(t) = usize::from_str_radix(&latch, 16) {
                    let reg = region(self.m128, t);
                    out.counts.push(("write_region".into(), reg.into()));
                    out.classes.push(format!("m128={} write in {} colour {}", self.m128, reg, v & 7));
                    out.classes.push(format!("m128={} line phase {}", self.m128, (t + line_len(self.m128) * 400 - origin(self.m128)) % line_len(self.m128)));
                } else {
                    out.counts.push(("write_region".into(), "not routed to the ULA".into()));
                }
            }
            Op::Z80Out(n, a) => {
                // OUT (n),A at 0x8000: port = A*256 + n, data = A
                for (i, b) in [0xD3u8, *n].iter().enumerate() {
                    self.e.verif_write_mem(0x8000 + i as u16, *b, 0);
                    let _ = self.model.ask("wait 0");
                }
                let cpu = self.e.verif_cpu();
                cpu.regs.set_acc(*a);
                cpu.regs.set_pc(0x8000);
                cpu.regs.set_sp(0x9000);
                cpu.regs.set_iff1(false);
                cpu.halted = false;
                self.sync_frames();
                let r = catch_unwind(AssertUnwindSafe(|| {
                    let _ = self.e.emulate_frames(Duration::from_secs(1));
                }));
                if r.is_err() {
                    self.fail(Kind::ModelMismatch, "C09/panic", "panic in OUT (n),A".into(), "panic".into(), "-".into());
                }
                let passed = self.e.verif_frames_count();
                self.last_fc = 0;
                if passed > 0 {
                    self.frames += passed as u64;
                    self.writes_last_frame = self.writes_this_frame;
                    self.writes_this_frame = 0;
                }
                self.last_fc = passed;
                self.writes_this_frame += 1;
                let _ = self.model.ask("wait 4");
                let _ = self.model.ask("wait 3");
                let port = ((*a as u16) << 8) | *n as u16;
                let latch = self.model_op(&format!("out {:04x} {:02x}", port, a));
                if let Ok(t) = usize::from_str_radix(&latch, 16) {
                    out.counts.push(("write_region".into(), format!("{} (OUT (n),A)", region(self.m128, t))));
                }
            }
            Op::Snap(c) => {
                if self.m128 {
                    return;
                }
                let mut f = vec![0u8; 27];
                f[24] = 0x90;
                f[25] = 1;
                f[26] = *c;
                f.extend_from_slice(&vec![0u8; 49152]);
                let c0 = self.e.verif_frame_clocks();
                if self.e.load_snapshot(Snapshot::Sna(VAsset::new(f))).is_ok() {
                    let _ = self.model.ask(&format!("snap {:x}", c & 7));
                    let d = self.e.verif_frame_clocks() - c0;
                    self.sync_frames();
                    self.model_op(&format!("wait {:x}", d));
                    out.counts.push(("write_region".into(), "snapshot border".into()));
                }
            }
            Op::SnapSzx(b, fe) => {
                let mut f = b"ZXST".to_vec();
                f.extend_from_slice(&[1, 4, if self.m128 { 2 } else { 1 }, 0]);
                f.extend_from_slice(b"SPCR");
                f.extend_from_slice(&8u32.to_le_bytes());
                f.extend_from_slice(&[*b & 7, 0, 0, *fe, 0, 0, 0, 0]);
                let f0 = self.e.verif_frames_count();
                if self.e.load_snapshot(Snapshot::Szx(VAsset::new(f))).is_ok() {
                    if self.e.verif_frames_count() != f0 {
                        self.sync_frames();
                    }
                    self.model_op(&format!("snapszx {:x} {:x}", b & 7, fe));
                    out.counts.push(("write_region".into(), "SZX snapshot border".into()));
                }
            }
            Op::Frame => {
                self.finish_frame();
                self.check_frame(out);
            }
        }
    }
}

fn run_case(model: &mut Model, case: &Case, out: &mut Out) -> Vec<Fail> {
    let mut sim = Sim::new(model, case.m128);
    for op in &case.ops {
        let r = catch_unwind(AssertUnwindSafe(|| sim.apply(op, out)));
        if r.is_err() {
            sim.fail(Kind::ModelMismatch, "C09/panic", format!("the emulator panicked during `{}`", op.text()), "panic".into(), "no panic".into());
            break;
        }
    }
    sim.fails
}

fn shrink(model: &mut Model, case: &Case, key: &str) -> Case {
    let mut budget = 300usize;
    let mut fails = |model: &mut Model, c: &Case| -> bool {
        if budget == 0 {
            return false;
        }
        budget -= 1;
        let mut o = Out::default();
        run_case(model, c, &mut o).iter().any(|f| f.key == key)
    };
    let mut cur = case.clone();
    let mut chunk = (cur.ops.len() / 2).max(1);
    loop {
        let mut i = 0;
        let mut changed = false;
        while i < cur.ops.len() {
            let end = (i + chunk).min(cur.ops.len());
            let mut cand = cur.clone();
            cand.ops.drain(i..end);
            if !cand.ops.is_empty() && fails(model, &cand) {
                cur = cand;
                changed = true;
            } else {
                i = end;
            }
        }
        if chunk == 1 && !changed {
            break;
        }
        if !changed || chunk > 1 {
            chunk = (chunk / 2).max(1);
        }
    }
    cur
}

/// even ports of every kind: the usual 0xFE with various high bytes, other low bytes with A1 set, and even
/// addresses with A1 = 0 and A15 = 0, which on the 128K also match the paging latch's decoding (an OUT to an
/// even port is a ULA write whatever else it matches)
const PORTS: [u16; 12] = [0x00FE, 0xFEFE, 0x7FFE, 0x00FA, 0x1236, 0x40FE, 0xBF3E, 0xFF7E, 0x02FC, 0x0200, 0x7EF4, 0x3FFC];

/// one frame worth of ops: port writes at sorted clocks, biased to the interesting places
fn frame_ops(r: &mut Rng, m128: bool, ops: &mut Vec<Op>) {
    let f = clocks_frame(m128);
    let l = line_len(m128);
    let o = origin(m128);
    let n = match r.below(10) {
        0 | 1 => 0,
        2 | 3 => 1,
        4 => r.range(20, 60) as usize,
        _ => r.range(2, 12) as usize,
    };
    let mut ts: Vec<usize> = vec![];
    while ts.len() < n {
        let t = match r.below(12) {
            0 => r.below(o as u64 + 4) as usize,                                  // before the first visible line
            1 => o + 240 * l - 8 + r.below(40) as usize,                             // around the end of the last line
            2 => f - 1 - r.below(24) as usize,                                       // about to cross the frame end
            3 => o + r.below(240) as usize * l + 152 + r.below((l - 152) as u64) as usize, // right border / retrace
            4 => o + r.below(240) as usize * l + r.below(20) as usize,               // left border
            5 | 6 => {
                // several on one line
                let base = o + r.below(240) as usize * l;
                for _ in 0..r.range(1, 4) {
                    ts.push(base + r.below(l as u64) as usize);
                }
                base + r.below(l as u64) as usize
            }
            7 => o + r.below(3) as usize,                                            // the very first pixels
            _ => r.below(f as u64) as usize,
        };
        ts.push(t.min(f - 1));
    }
    ts.sort();
    for t in ts {
        ops.push(Op::SetClk(t));
        let port = if r.chance(1, 12) { *r.pick(&[0xFFFDu16, 0xBFFD, 0x00FF, 0x7FFD]) } else { *r.pick(&PORTS) };
        if r.chance(1, 10) {
            ops.push(Op::Z80Out(0xFE, r.u8() & 0x3F));
        } else {
            ops.push(Op::Out(port, r.u8()));
        }
    }
    ops.push(Op::Frame);
}

pub fn run(o: &Opts) -> Report {
    let mut rep = Report::new("C09");
    rep.rule = "real Emulator vs. the Lean border model, per completed frame: the 320x240 border buffer must equal the \
model's (FNV-1a hash) and satisfy the executable spec (colour of the last ULA write whose beam position is <= the pixel, \
+-16 px on the line; frames without a write: the colour in force); border_color() against the low 3 bits of the last \
ULA write / snapshot border. Cases: both machines, 3-8 frames each, 0-60 port writes per frame at sorted frame clocks \
biased to: before the first visible line, first pixels, left border, right border and horizontal retrace, several \
writes on one line, the end of the last visible line, after it, and the last T-states before the frame end (writes \
whose contention wait crosses the frame boundary); even ports of eight shapes plus non-ULA ports (AY, 7FFD, odd) that \
must not change the border; one in ten writes is a real OUT (n),A executed by the emulated CPU; SNA loads for the \
snapshot border. distinct/non-trivial = (machine, region of the frame in which the write is latched, colour), (machine, \
clock within the line), reported colours"
        .into();
    let mut model = Model::spawn(&o.model, "C09");
    if let Some(text) = &o.replay {
        let case = Case::parse(text);
        rep.sample(J::s(text.clone()));
        let mut out = Out::default();
        let fails = run_case(&mut model, &case, &mut out);
        rep.evaluations += out.evals;
        for f in fails {
            rep.violation(Violation {
                kind: f.kind,
                key: f.key.clone(),
                what: f.what.clone(),
                correspondence: CORR.into(),
                case: J::obj(vec![("text", J::s(case.text()))]),
                implementation: f.imp.clone(),
                expected: f.exp.clone(),
            });
        }
        return rep;
    }

    let mut rng = Rng::new(o.seed ^ 0xC09);
    let mut cases: Vec<Case> = vec![];
    // fixed cases first: no write at all; one write; writes only after the last line; snapshot border
    for m128 in [false, true] {
        cases.push(Case { m128, ops: vec![Op::Frame, Op::Frame, Op::Out(0xFE, 2), Op::Frame, Op::Frame, Op::Frame] });
        let f = clocks_frame(m128);
        cases.push(Case {
            m128,
            ops: vec![Op::Out(0xFE, 1), Op::Frame, Op::SetClk(f - 3000), Op::Out(0xFE, 4), Op::Frame, Op::Frame, Op::SetClk(f - 2), Op::Out(0xFE, 6), Op::Frame, Op::Frame],
        });
    }
    cases.push(Case { m128: false, ops: vec![Op::Out(0xFE, 3), Op::Frame, Op::Snap(5), Op::Frame, Op::Frame, Op::SetClk(20000), Op::Out(0xFE, 1), Op::Snap(0x0E), Op::Frame, Op::Frame] });
    for m128 in [false, true] {
        cases.push(Case { m128, ops: vec![Op::Out(0xFE, 3), Op::Frame, Op::SnapSzx(2, 0x05), Op::Frame, Op::Frame, Op::SetClk(30000), Op::SnapSzx(6, 0x11), Op::Frame, Op::Frame] });
    }
    // the same value written again after a snapshot load put another colour there: the write is a write
    for m128 in [false, true] {
        for (v, snap_border) in [(0x02u8, 5u8), (0x1A, 7), (0x07, 0)] {
            let mut ops = vec![Op::Out(0x00FE, v), Op::Frame];
            if !m128 {
                ops.extend_from_slice(&[Op::Snap(snap_border), Op::Out(0x00FE, v), Op::Frame, Op::Frame]);
            }
            ops.extend_from_slice(&[Op::SnapSzx(snap_border, snap_border), Op::SetClk(20000), Op::Out(0x00FE, v), Op::Frame, Op::Frame, Op::Frame]);
            cases.push(Case { m128, ops });
        }
    }
    // very busy frames: more border changes in one frame than any fixed-size queue a renderer might keep
    // (1025, 1100, 2050 writes), the last one of its own colour, then quiet frames
    for m128 in [false, true] {
        for n in [1025usize, 1100, 2050] {
            let mut ops = vec![Op::Frame];
            let gap = (clocks_frame(m128) - 600) / n;
            for k in 0..n {
                ops.push(Op::SetClk(200 + k * gap));
                let colour = if k + 1 == n { 4 } else { [2u8, 6, 1, 5, 3, 7, 0][k % 7] };
                ops.push(Op::Out(0x00FE, colour));
            }
            ops.extend_from_slice(&[Op::Frame, Op::Frame, Op::Frame]);
            cases.push(Case { m128, ops });
        }
    }
    // exact counts around the sizes an eight-bit or ten-bit change counter wraps at, every write above the bottom blanking
    for m128 in [false, true] {
        for n in [255usize, 256, 257, 512, 768, 1024] {
            let mut ops = vec![Op::Frame];
            let gap = 50000 / n;
            for k in 0..n {
                ops.push(Op::SetClk(200 + k * gap));
                ops.push(Op::Out(0x00FE, [2u8, 6, 1, 5, 3, 7, 0][k % 7]));
            }
            ops.extend_from_slice(&[Op::Frame, Op::Frame]);
            cases.push(Case { m128, ops });
        }
    }
    let n_cases = o.n(90, 9000) as usize;
    for i in 0..n_cases {
        let mut r = rng.fork();
        let m128 = i % 2 == 1;
        let mut ops = vec![];
        for _ in 0..r.range(3, 8) {
            frame_ops(&mut r, m128, &mut ops);
        }
        if !m128 && r.chance(1, 6) {
            let k = r.below(ops.len() as u64) as usize;
            ops.insert(k, Op::Snap(r.u8()));
        }
        if r.chance(1, 6) {
            let k = r.below(ops.len() as u64 + 1) as usize;
            ops.insert(k, Op::SnapSzx(r.below(8) as u8, r.u8()));
        }
        cases.push(Case { m128, ops });
    }

    let threads = std::thread::available_parallelism().map(|n| n.get()).unwrap_or(4).clamp(1, 12);
    let results: Vec<Vec<(usize, Out, Vec<Fail>)>> = std::thread::scope(|s| {
        let handles: Vec<_> = (0..threads)
            .map(|t| {
                let cases = &cases;
                let path = o.model.clone();
                s.spawn(move || {
                    let mut model = Model::spawn(&path, "C09");
                    let mut res = vec![];
                    for (i, case) in cases.iter().enumerate() {
                        if i % threads != t {
                            continue;
                        }
                        let mut out = Out::default();
                        let fails = run_case(&mut model, case, &mut out);
                        res.push((i, out, fails));
                    }
                    res
                })
            })
            .collect();
        handles.into_iter().map(|h| h.join().unwrap_or_default()).collect()
    });
    let mut flat: Vec<(usize, Out, Vec<Fail>)> = results.into_iter().flatten().collect();
    flat.sort_by_key(|x| x.0);
    if flat.len() != cases.len() {
        rep.notes.push(format!("{} of {} cases did not complete (worker died)", cases.len() - flat.len(), cases.len()));
    }
    let mut frames = 0u64;
    for (i, out, fails) in flat {
        let case = &cases[i];
        rep.evaluations += out.evals;
        frames += case.ops.iter().filter(|o| matches!(o, Op::Frame)).count() as u64;
        for c in out.classes {
            rep.class(c);
        }
        for (h, b) in out.counts {
            rep.count(&h, b);
        }
        rep.count("cases", if case.m128 { "128K" } else { "48K" });
        if i == 1 || i == 6 {
            rep.sample(J::s(case.text()));
        }
        for f in fails {
            if rep.has_key(&f.key) {
                rep.count("repeat_violations", f.key.clone());
                continue;
            }
            let small = shrink(&mut model, case, &f.key);
            let mut o2 = Out::default();
            let f2 = run_case(&mut model, &small, &mut o2).into_iter().find(|x| x.key == f.key).unwrap_or(f);
            rep.violation(Violation {
                kind: f2.kind,
                key: f2.key.clone(),
                what: f2.what.clone(),
                correspondence: CORR.into(),
                case: J::obj(vec![("text", J::s(small.text()))]),
                implementation: f2.imp.clone(),
                expected: f2.exp.clone(),
            });
        }
    }
    rep.extra.push(("cases".into(), J::I(cases.len() as i64)));
    rep.extra.push(("frames".into(), J::I(frames as i64)));
    rep.extra.push(("worker_threads".into(), J::I(threads as i64)));
    rep
}
