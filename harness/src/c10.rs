//! C10 — fast tape loading leaves the machine exactly as the ROM's LD-BYTES would.
//! Real code, system level: a real `Emulator` with the embedded ROM and fast loading enabled; the
//! CPU is placed at ROM 0x0556 with the request in A/F/IX/DE and a return address (breakpoint) on
//! the stack. Component level: `Tap::next_block/next_block_byte` through the hook `verif_tape`.
use crate::host::*;
use crate::util::*;
use rustzx_core::host::Tape;
use rustzx_core::zx::verif_tape::{Tap, TapeImpl};
use rustzx_core::EmulationStopReason;
use rustzx_z80::RegName16;
use std::panic::{catch_unwind, AssertUnwindSafe};
use std::time::Duration;

pub const SP0: u16 = 0xFF40; // caller's SP after its CALL: return address on top
pub const RET_ADDR: u16 = 0xFE00; // breakpoint
const SCRATCH_LO: u16 = SP0 - 24; // the ROM's own stack use below the return address
const SCRATCH_HI: u16 = SP0 + 2;

#[derive(Clone, Debug, PartialEq)]
pub enum Fill {
    None,
    Rand(u32, usize),
    Bytes(Vec<u8>),
}

impl Fill {
    pub fn bytes(&self) -> Vec<u8> {
        match self {
            Fill::None => vec![],
            Fill::Rand(seed, n) => {
                let mut r = Rng::new(*seed as u64);
                r.bytes(*n)
            }
            Fill::Bytes(b) => b.clone(),
        }
    }
    fn text(&self) -> String {
        match self {
            Fill::None => "-".into(),
            Fill::Rand(s, n) => format!("r:{:x}:{:x}", s, n),
            Fill::Bytes(b) => {
                if b.is_empty() {
                    "-".into()
                } else {
                    format!("h:{}", hex(b))
                }
            }
        }
    }
    fn parse(s: &str) -> Fill {
        if let Some(rest) = s.strip_prefix("r:") {
            let mut it = rest.split(':');
            let seed = u32::from_str_radix(it.next().unwrap_or("0"), 16).unwrap_or(0);
            let n = usize::from_str_radix(it.next().unwrap_or("0"), 16).unwrap_or(0);
            Fill::Rand(seed, n)
        } else if let Some(h) = s.strip_prefix("h:") {
            Fill::Bytes(unhex(h))
        } else {
            Fill::None
        }
    }
}

#[derive(Clone, Debug, PartialEq)]
pub struct Req {
    pub a: u8,
    pub load: bool,
    pub ix: u16,
    pub de: u16,
    pub fill: Fill,
}

#[derive(Clone, Debug, PartialEq)]
pub struct Case {
    pub m128: bool,
    pub tape: Vec<u8>,
    pub reqs: Vec<Req>,
}

pub fn case_text(c: &Case) -> String {
    let mut s = format!(
        "m128={} tape={}",
        if c.m128 { 1 } else { 0 },
        if c.tape.is_empty() { "-".to_string() } else { hex(&c.tape) }
    );
    for r in &c.reqs {
        s.push_str(&format!(
            " ; req {:02x} {} {:04x} {:04x} {}",
            r.a,
            if r.load { 1 } else { 0 },
            r.ix,
            r.de,
            r.fill.text()
        ));
    }
    s
}

pub fn parse_case(s: &str) -> Case {
    let mut parts = s.split(';').map(|x| x.trim());
    let head = parts.next().unwrap_or("");
    let mut m128 = false;
    let mut tape = vec![];
    for kv in head.split_whitespace() {
        if kv == "m128=1" {
            m128 = true;
        }
        if let Some(h) = kv.strip_prefix("tape=") {
            if h != "-" {
                tape = unhex(h);
            }
        }
    }
    let mut reqs = vec![];
    for p in parts {
        let t: Vec<&str> = p.split_whitespace().collect();
        if t.len() == 6 && t[0] == "req" {
            reqs.push(Req {
                a: u8::from_str_radix(t[1], 16).unwrap_or(0),
                load: t[2] == "1",
                ix: u16::from_str_radix(t[3], 16).unwrap_or(0),
                de: u16::from_str_radix(t[4], 16).unwrap_or(0),
                fill: Fill::parse(t[5]),
            });
        }
    }
    Case { m128, tape, reqs }
}

/// splits a TAP image the way the harness' generator thinks of it (only used to size windows)
fn max_block_len(tape: &[u8]) -> usize {
    let mut p = 0;
    let mut m = 0;
    while p + 2 <= tape.len() {
        let n = tape[p] as usize + 256 * tape[p + 1] as usize;
        m = m.max(n);
        p += 2 + n;
    }
    m
}

#[derive(Clone, Debug, PartialEq)]
pub struct Obs {
    pub outcome: String, // ret1 | ret0 | loops | err:<e> | panic
    pub ix: u16,
    pub de: u16,
    pub win: Vec<u8>,
    pub stray: Option<(u16, u8, u8)>, // memory outside window and scratch changed
}

pub fn new_emu(m128: bool, tape: &[u8], fastload: bool) -> Emu {
    let mut c = Cfg::new(m128);
    c.rom = true;
    // every third tape: fast loading is off in the settings and switched on by the host afterwards
    let late = fastload && tape.len() % 3 == 2;
    c.fastload = fastload && !late;
    let mut e = emu(&c);
    if late {
        e.set_fast_load(true);
    }
    if m128 {
        // page the 48K BASIC ROM (ROM 1) in, as the 128K does when it enters 48K BASIC/tape loader
        e.verif_write_io(0x7FFD, 0x10);
        if tape.len() % 2 == 1 {
            // … and, on every other tape, as a program that has locked itself into 48K mode does: the lock bit set,
            // then a further write (other bank, ROM bit clear) that the locked latch ignores
            e.verif_write_io(0x7FFD, 0x30);
            e.verif_write_io(0x7FFD, 0x07);
        }
    }
    let mut d = Dbg::default();
    d.bps.insert(RET_ADDR);
    e.set_debug_interface(d);
    let _ = e.load_tape(Tape::Tap(VAsset::new(tape.to_vec())));
    e
}

pub fn window_span(de: u16, maxblk: usize) -> usize {
    (de as usize).min(maxblk) + 1
}

fn in_scratch(a: u16) -> bool {
    a >= SCRATCH_LO && a < SCRATCH_HI
}

/// Places the CPU at the entry of LD-BYTES as a CALL 0x0556 from `RET_ADDR - 3` would.
pub fn setup_call(e: &mut Emu, r: &Req, f_other: u8, settle: bool) {
    e.verif_write_mem(SP0, (RET_ADDR & 0xFF) as u8, 0);
    e.verif_write_mem(SP0 + 1, (RET_ADDR >> 8) as u8, 0);
    // keep the few instructions around the trap away from the INT window at the frame start (the
    // ROM's EI just before returning would let the interrupt routine touch FRAMES); time only moves
    // forward, and only while the tape is not being played in real time
    if settle {
        let fc = e.verif_frame_clocks();
        if fc > 60000 || fc < 64 {
            e.verif_wait(12000);
        }
    }
    let cpu = e.verif_cpu();
    cpu.regs.set_acc(r.a);
    cpu.regs.set_flags((f_other & 0xFE) | if r.load { 1 } else { 0 });
    cpu.regs.set_reg_16(RegName16::IX, r.ix);
    cpu.regs.set_de(r.de);
    cpu.regs.set_sp(SP0);
    cpu.regs.set_pc(0x0556);
    cpu.regs.set_iff1(false);
    cpu.regs.set_iff2(false);
    cpu.halted = false;
    cpu.skip_interrupt = false;
}

/// Runs until the breakpoint at the return address or for `frames` frames.
pub fn run_until_return(e: &mut Emu, frames: usize) -> String {
    for _ in 0..frames {
        let res = catch_unwind(AssertUnwindSafe(|| e.emulate_frames(Duration::from_secs(3600))));
        match res {
            Err(_) => return "panic".into(),
            Ok(Err(err)) => {
                let s = format!("{:?}", err);
                return if s.contains("UnexpectedEof") {
                    "err:eof".into()
                } else if s.contains("InvalidTapFile") {
                    "err:invalid".into()
                } else {
                    format!("err:{}", s.replace(' ', ""))
                };
            }
            Ok(Ok(info)) => {
                if info.stop_reason == EmulationStopReason::Breakpoint {
                    let f = e.verif_cpu().regs.get_flags();
                    return if f & 1 != 0 { "ret1".into() } else { "ret0".into() };
                }
            }
        }
    }
    "loops".into()
}

fn snapshot(e: &Emu) -> Vec<u8> {
    (0..=0xFFFFu16).map(|a| e.peek(a)).collect()
}

/// One request against the real emulator. Returns (window before, observation).
fn real_request(e: &mut Emu, r: &Req, span: usize, f_other: u8) -> (Vec<u8>, Obs) {
    for (i, b) in r.fill.bytes().iter().enumerate() {
        let a = r.ix.wrapping_add(i as u16);
        if !in_scratch(a) {
            e.verif_write_mem(a, *b, 0);
        }
    }
    setup_call(e, r, f_other, true);
    let before = snapshot(e);
    let win_before: Vec<u8> = (0..span).map(|i| before[r.ix.wrapping_add(i as u16) as usize]).collect();
    let outcome = run_until_return(e, 2);
    let after = snapshot(e);
    let win: Vec<u8> = (0..span).map(|i| after[r.ix.wrapping_add(i as u16) as usize]).collect();
    let mut stray = None;
    for a in 0..=0xFFFFu16 {
        let off = a.wrapping_sub(r.ix) as usize;
        if off < span || in_scratch(a) {
            continue;
        }
        if before[a as usize] != after[a as usize] {
            stray = Some((a, before[a as usize], after[a as usize]));
            break;
        }
    }
    let cpu = e.verif_cpu();
    let obs = Obs {
        outcome,
        ix: cpu.regs.get_reg_16(RegName16::IX),
        de: cpu.regs.get_de(),
        win,
        stray,
    };
    (win_before, obs)
}

#[derive(Clone, Debug)]
pub struct Dis {
    pub kind: Kind,
    pub key: String,
    pub what: String,
    pub implementation: String,
    pub expected: String,
    pub at: usize,
}

fn hex_or_dash(b: &[u8]) -> String {
    if b.is_empty() {
        "-".into()
    } else {
        hex(b)
    }
}

fn short(b: &[u8]) -> String {
    if b.len() <= 24 {
        hex_or_dash(b)
    } else {
        format!("{}..({} bytes)", hex(&b[..24]), b.len())
    }
}

struct Side {
    outcome: String,
    ix: u16,
    de: u16,
    win: Vec<u8>,
}

fn parse_sides(ans: &str) -> (Side, Option<Side>) {
    // M <o> <ix> <de> <win> S <o> <ix> <de> <win>   |   ... S undecided
    let t: Vec<&str> = ans.split(' ').collect();
    let side = |k: usize| Side {
        outcome: t[k].to_string(),
        ix: u16::from_str_radix(t[k + 1], 16).unwrap(),
        de: u16::from_str_radix(t[k + 2], 16).unwrap(),
        win: if t[k + 3] == "-" { vec![] } else { unhex(t[k + 3]) },
    };
    assert!(t.len() >= 7 && t[0] == "M" && t[5] == "S", "driver answer: {}", ans);
    let m = side(1);
    let s = if t[6] == "undecided" { None } else { Some(side(6)) };
    (m, s)
}

fn diff_field(o: &Obs, s: &Side) -> Option<(&'static str, String, String)> {
    if o.outcome != s.outcome {
        return Some(("outcome", o.outcome.clone(), s.outcome.clone()));
    }
    if o.win != s.win {
        let k = o.win.iter().zip(s.win.iter()).position(|(a, b)| a != b).unwrap_or(0);
        return Some((
            "mem",
            format!("byte {} of the destination = {:02x}", k, o.win.get(k).copied().unwrap_or(0)),
            format!("{:02x}", s.win.get(k).copied().unwrap_or(0)),
        ));
    }
    if o.ix != s.ix {
        return Some(("ix", format!("{:04x}", o.ix), format!("{:04x}", s.ix)));
    }
    if o.de != s.de {
        return Some(("de", format!("{:04x}", o.de), format!("{:04x}", s.de)));
    }
    None
}

/// Detects which variant of fast_load_tap the tree implements: false = AF swapped before the
/// tape is asked for a block (the code as found), true = block requested first (C10-1.diff).
pub fn detect_variant() -> bool {
    let mut e = new_emu(false, &[], true);
    let r = Req { a: 0xFF, load: true, ix: 0x8000, de: 0x0010, fill: Fill::None };
    setup_call(&mut e, &r, 0, true);
    run_until_return(&mut e, 2) == "loops"
}

/// Runs a case on a fresh emulator and a fresh model; returns the first disagreement.
pub fn run_case(model: &mut Model, fixed: bool, c: &Case, mut rep: Option<&mut Report>) -> Option<Dis> {
    let mut e = new_emu(c.m128, &c.tape, true);
    let maxblk = max_block_len(&c.tape);
    let a0 = model.ask(&format!("variant {}", if fixed { 1 } else { 0 }));
    assert_eq!(a0, "ok");
    let a1 = model.ask(&format!("tape {}", hex_or_dash(&c.tape)));
    assert!(a1.starts_with("ok"), "driver: {}", a1);
    let mut frng = Rng::new(c.tape.len() as u64 ^ 0xC10);
    for (i, r) in c.reqs.iter().enumerate() {
        let span = window_span(r.de, maxblk);
        let (wb, obs) = real_request(&mut e, r, span, frng.u8());
        let ans = model.ask(&format!(
            "req {:02x} {} {:04x} {:04x} {:04x} {}",
            r.a,
            if r.load { 1 } else { 0 },
            r.ix,
            r.de,
            SP0,
            hex_or_dash(&wb)
        ));
        let (m, s) = parse_sides(&ans);
        if let Some(rp) = rep.as_deref_mut() {
            rp.eval();
            rp.count("outcome", obs.outcome.clone());
            let moved = obs.ix.wrapping_sub(r.ix);
            let cls = format!(
                "{} {} flagchk={} de={} moved={} rom={} wrap={}",
                obs.outcome,
                if r.load { "load" } else { "verify" },
                r.de >> 8 != 0xFF,
                match r.de { 0 => "0", 1 => "1", _ => "n" },
                match moved { 0 => "0".to_string(), 1..=127 => "<128".into(), 128 => "128".into(), 129..=255 => "<256".into(), 256 => "256".into(), _ => ">256".into() },
                r.ix < 0x4000,
                (r.ix as usize + moved as usize) > 0xFFFF,
            );
            if obs.outcome.starts_with("ret") {
                rp.class(cls);
            }
        }
        if let Some((a, b, n)) = obs.stray {
            return Some(Dis {
                kind: if s.is_some() { Kind::SpecViolated } else { Kind::ModelMismatch },
                key: "C10/stray-write".into(),
                what: format!("request {} changed memory outside the destination: {:04x}: {:02x} -> {:02x}", i, a, b, n),
                implementation: format!("{:04x}={:02x}", a, n),
                expected: format!("{:04x}={:02x}", a, b),
                at: i,
            });
        }
        if let Some(s) = &s {
            if let Some((field, got, want)) = diff_field(&obs, s) {
                let key = if s.outcome == "loops" && obs.outcome == "ret1" {
                    "C10/end-of-tape/success-reported".to_string()
                } else if s.outcome == "loops" && obs.outcome == "ret0" {
                    "C10/end-of-tape/request-completed".to_string()
                } else if s.outcome == "loops" {
                    format!("C10/end-of-tape/{}", field)
                } else {
                    format!("C10/{}", field)
                };
                return Some(Dis {
                    kind: Kind::SpecViolated,
                    key,
                    what: format!(
                        "request {} (A={:02x} {} IX={:04x} DE={:04x}): {} is {} but LD-BYTES gives {}",
                        i, r.a, if r.load { "LOAD" } else { "VERIFY" }, r.ix, r.de, field, got, want
                    ),
                    implementation: format!("{} ix={:04x} de={:04x} mem={}", obs.outcome, obs.ix, obs.de, short(&obs.win)),
                    expected: format!("{} ix={:04x} de={:04x} mem={}", s.outcome, s.ix, s.de, short(&s.win)),
                    at: i,
                });
            }
        }
        // a bare length word is no block: after `i` complete records (each request consumes exactly one block)
        // nothing of a further block is on the tape — the request must not complete and the CPU stays as it was
        if s.is_none() && obs.outcome.starts_with("ret") && truncated_tail_after(&c.tape, i) {
            return Some(Dis {
                kind: Kind::SpecViolated,
                key: format!("C10/truncated-tail/{}", if obs.outcome == "ret1" { "success-reported" } else { "request-completed" }),
                what: format!(
                    "request {} (A={:02x} {} IX={:04x} DE={:04x}) meets a length word with nothing behind it (no block is left): the routine returned ({}), IX={:04x} DE={:04x}",
                    i, r.a, if r.load { "LOAD" } else { "VERIFY" }, r.ix, r.de, obs.outcome, obs.ix, obs.de
                ),
                implementation: format!("{} ix={:04x} de={:04x} mem={}", obs.outcome, obs.ix, obs.de, short(&obs.win)),
                expected: "the request does not complete and the CPU state is not disturbed (as with a silent tape)".into(),
                at: i,
            });
        }
        if let Some((field, got, want)) = diff_field(&obs, &m) {
            return Some(Dis {
                kind: Kind::ModelMismatch,
                key: format!("C10/model/{}", field),
                what: format!(
                    "request {} (A={:02x} {} IX={:04x} DE={:04x}): {} is {} but the Lean model gives {}",
                    i, r.a, if r.load { "LOAD" } else { "VERIFY" }, r.ix, r.de, field, got, want
                ),
                implementation: format!("{} ix={:04x} de={:04x} mem={}", obs.outcome, obs.ix, obs.de, short(&obs.win)),
                expected: format!("{} ix={:04x} de={:04x} mem={}", m.outcome, m.ix, m.de, short(&m.win)),
                at: i,
            });
        }
    }
    None
}

/// After `k` complete records, does the image end in a (partial) length word with no byte of a block behind it?
pub fn truncated_tail_after(tape: &[u8], k: usize) -> bool {
    let mut pos = 0usize;
    for _ in 0..k {
        if pos + 2 > tape.len() {
            return false;
        }
        let n = tape[pos] as usize + 256 * tape[pos + 1] as usize;
        if pos + 2 + n > tape.len() {
            return false;
        }
        pos += 2 + n;
    }
    if pos == tape.len() {
        return false; // clean end of tape
    }
    if pos + 2 > tape.len() {
        return true; // half a length word
    }
    // a length word announcing a block of which not a single byte is on the tape
    // (a record cut *inside* its body is left to the model comparison: the ROM itself would take the bytes
    // that are there, and a request that needs no more than those completes legitimately)
    let n = tape[pos] as usize + 256 * tape[pos + 1] as usize;
    n > 0 && pos + 2 == tape.len()
}

// ---------------------------------------------------------------- generation

pub const BOUNDARY_LENS: [usize; 20] = [
    0, 1, 2, 3, 19, 127, 128, 129, 130, 255, 256, 257, 258, 300, 383, 384, 385, 386, 512, 513,
];

pub struct GenBlock {
    pub payload: Vec<u8>,
}

/// A block of total length `len` (flag + data + checksum when len >= 2).
pub fn gen_block(rng: &mut Rng, len: usize) -> Vec<u8> {
    if len == 0 {
        return vec![];
    }
    let flag = match rng.below(6) {
        0 | 1 => 0x00,
        2 | 3 => 0xFF,
        _ => rng.u8(),
    };
    let mut b = vec![flag];
    if len == 1 {
        return b;
    }
    for _ in 0..len - 2 {
        b.push(rng.u8());
    }
    let mut x = 0u8;
    for v in &b {
        x ^= v;
    }
    if rng.chance(1, 6) {
        x ^= 1 << rng.below(8); // wrong checksum
    }
    b.push(x);
    b
}

pub fn gen_len(rng: &mut Rng, thorough: bool) -> usize {
    match rng.below(20) {
        0..=9 => *rng.pick(&BOUNDARY_LENS),
        10..=16 => rng.range(2, 40) as usize,
        17 | 18 => rng.range(100, 700) as usize,
        _ => {
            if thorough && rng.chance(1, 10) {
                *rng.pick(&[65535usize, 65534, 32768, 16385])
            } else {
                rng.range(700, 3000) as usize
            }
        }
    }
}

pub fn gen_tape(rng: &mut Rng, thorough: bool) -> (Vec<u8>, Vec<Vec<u8>>) {
    let nblocks = match rng.below(10) {
        0 => 0,
        1 | 2 => 1,
        _ => rng.range(2, 6),
    } as usize;
    let mut tape = vec![];
    let mut blocks = vec![];
    for _ in 0..nblocks {
        let len = gen_len(rng, thorough);
        let b = gen_block(rng, len);
        tape.push((b.len() & 0xFF) as u8);
        tape.push((b.len() >> 8) as u8);
        tape.extend_from_slice(&b);
        blocks.push(b);
    }
    match rng.below(10) {
        0 => tape.push(rng.u8()), // stray byte
        1 => {
            // truncated block: header promises more than is there
            let promised = rng.range(1, 400) as usize;
            let present = rng.below(promised as u64) as usize;
            tape.push((promised & 0xFF) as u8);
            tape.push((promised >> 8) as u8);
            tape.extend(rng.bytes(present));
        }
        _ => {}
    }
    (tape, blocks)
}

fn gen_ix(rng: &mut Rng, span: usize) -> u16 {
    let ix = match rng.below(12) {
        0 => rng.range(0, 0x3F00) as u16,                       // into ROM
        1 => (0x4000 - rng.range(1, 40) as i32) as u16,         // crossing ROM -> RAM
        2 => (0x10000 - rng.range(1, 40) as i64) as u16,        // wrapping past 0xFFFF
        3 => 0x4000,
        _ => rng.range(0x4000, 0xF000) as u16,
    };
    // keep the destination clear of the stack scratch area (the ROM's own pushes would show up in it)
    if clashes(ix, span) {
        // directly above the scratch area; wraps through ROM and RAM and ends below it (span is capped by gen_req)
        let alt = if clashes(0x8000, span) { SCRATCH_HI } else { 0x8000 };
        debug_assert!(!clashes(alt, span));
        alt
    } else {
        ix
    }
}

/// does [ix, ix+span+2) (mod 64K) touch the stack scratch area?
fn clashes(ix: u16, span: usize) -> bool {
    (SCRATCH_LO..SCRATCH_HI).any(|a| (a.wrapping_sub(ix) as usize) < span + 2)
}

/// largest destination span that still leaves the scratch area alone
const MAX_SPAN: usize = 0x10000 - (SCRATCH_HI - SCRATCH_LO) as usize - 4;

pub fn gen_req(rng: &mut Rng, block: Option<&Vec<u8>>, maxblk: usize) -> Req {
    let blen = block.map(|b| b.len()).unwrap_or(0);
    let flag = block.and_then(|b| b.first().copied()).unwrap_or(0xFF);
    let a = if rng.chance(5, 6) { flag } else { rng.u8() };
    let load = rng.chance(3, 5);
    let matching = blen.saturating_sub(2) as u16;
    let de = match rng.below(14) {
        0 => 0,
        1 => 1,
        2 => matching.wrapping_add(1),
        3 => matching.saturating_sub(1),
        4 => matching.wrapping_add(rng.range(2, 300) as u16),
        5 => 0xFF00 | rng.u8() as u16, // D = 0xFF: no flag check
        6 => rng.range(0, 600) as u16,
        7 => blen as u16,
        _ => matching,
    };
    // a destination of (nearly) 64 K cannot avoid the caller's stack: shorten such requests
    let de = if window_span(de, maxblk) > MAX_SPAN {
        if de >> 8 == 0xFF { 0xFF00 | (de & 0x3F) } else { (MAX_SPAN - 1) as u16 }
    } else {
        de
    };
    let span = window_span(de, maxblk);
    let ix = gen_ix(rng, span);
    let fill = if load {
        if rng.bool() { Fill::Rand(rng.next() as u32, span.min(600)) } else { Fill::None }
    } else {
        // VERIFY: memory holds the block's data (flag stripped unless D=0xFF), sometimes one byte off
        let mut data: Vec<u8> = match block {
            Some(b) if !b.is_empty() => {
                if de >> 8 == 0xFF { b.clone() } else { b[1..].to_vec() }
            }
            _ => vec![],
        };
        data.truncate(span);
        if !data.is_empty() && rng.chance(1, 3) {
            let k = rng.below(data.len() as u64) as usize;
            data[k] ^= 1 << rng.below(8);
        }
        if rng.chance(1, 8) { Fill::Rand(rng.next() as u32, span.min(64)) } else { Fill::Bytes(data) }
    };
    Req { a, load, ix, de, fill }
}

pub fn gen_case(rng: &mut Rng, thorough: bool) -> Case {
    let (tape, blocks) = gen_tape(rng, thorough);
    let maxblk = max_block_len(&tape);
    let extra = rng.range(0, 2) as usize;
    let mut reqs = vec![];
    for i in 0..blocks.len() + extra {
        reqs.push(gen_req(rng, blocks.get(i), maxblk));
    }
    if reqs.is_empty() {
        reqs.push(gen_req(rng, None, maxblk));
    }
    Case { m128: rng.chance(1, 4), tape, reqs }
}

// ---------------------------------------------------------------- shrinking

fn reencode(blocks: &[Vec<u8>], tail: &[u8]) -> Vec<u8> {
    let mut t = vec![];
    for b in blocks {
        t.push((b.len() & 0xFF) as u8);
        t.push((b.len() >> 8) as u8);
        t.extend_from_slice(b);
    }
    t.extend_from_slice(tail);
    t
}

fn split_tape(tape: &[u8]) -> (Vec<Vec<u8>>, Vec<u8>) {
    let mut p = 0;
    let mut blocks = vec![];
    while p + 2 <= tape.len() {
        let n = tape[p] as usize + 256 * tape[p + 1] as usize;
        if p + 2 + n > tape.len() {
            break;
        }
        blocks.push(tape[p + 2..p + 2 + n].to_vec());
        p += 2 + n;
    }
    (blocks, tape[p..].to_vec())
}

fn candidates(c: &Case) -> Vec<Case> {
    let mut out = vec![];
    // cut requests after / drop single requests
    for n in 1..c.reqs.len() {
        let mut d = c.clone();
        d.reqs.truncate(n);
        out.push(d);
    }
    for i in 0..c.reqs.len() {
        if c.reqs.len() > 1 {
            let mut d = c.clone();
            d.reqs.remove(i);
            out.push(d);
        }
    }
    let (blocks, tail) = split_tape(&c.tape);
    if !tail.is_empty() {
        let mut d = c.clone();
        d.tape = reencode(&blocks, &[]);
        out.push(d);
    }
    for i in 0..blocks.len() {
        let mut b = blocks.clone();
        b.remove(i);
        let mut d = c.clone();
        d.tape = reencode(&b, &tail);
        out.push(d.clone());
        // with the matching request
        if i < c.reqs.len() && c.reqs.len() > 1 {
            let mut d2 = d.clone();
            d2.reqs.remove(i);
            out.push(d2);
        }
        if blocks[i].len() > 1 {
            for newlen in [blocks[i].len() / 2, blocks[i].len() - 1, 1, 0] {
                let mut b = blocks.clone();
                b[i].truncate(newlen);
                let mut d = c.clone();
                d.tape = reencode(&b, &tail);
                out.push(d);
            }
        }
        if blocks[i].iter().any(|v| *v != 0) {
            let mut b = blocks.clone();
            for v in b[i].iter_mut() {
                *v = 0;
            }
            let mut d = c.clone();
            d.tape = reencode(&b, &tail);
            out.push(d);
        }
    }
    if c.m128 {
        let mut d = c.clone();
        d.m128 = false;
        out.push(d);
    }
    for i in 0..c.reqs.len() {
        let r = &c.reqs[i];
        let mut alts: Vec<Req> = vec![];
        if r.fill != Fill::None {
            alts.push(Req { fill: Fill::None, ..r.clone() });
        }
        if r.ix != 0x8000 {
            alts.push(Req { ix: 0x8000, ..r.clone() });
        }
        if r.de > 0 {
            alts.push(Req { de: r.de / 2, ..r.clone() });
            alts.push(Req { de: r.de - 1, ..r.clone() });
        }
        if r.a != 0 && r.a != 0xFF {
            alts.push(Req { a: 0xFF, ..r.clone() });
            alts.push(Req { a: 0, ..r.clone() });
        }
        if !r.load {
            alts.push(Req { load: true, ..r.clone() });
        }
        for a in alts {
            let mut d = c.clone();
            d.reqs[i] = a;
            out.push(d);
        }
    }
    out
}

pub fn shrink(model: &mut Model, fixed: bool, c: &Case, key: &str) -> Case {
    let mut cur = c.clone();
    let mut budget = 400;
    'outer: loop {
        for cand in candidates(&cur) {
            if budget == 0 {
                break 'outer;
            }
            budget -= 1;
            if let Some(d) = run_case(model, fixed, &cand, None) {
                if d.key == key {
                    cur = cand;
                    continue 'outer;
                }
            }
        }
        break;
    }
    cur
}

fn report_failure(model: &mut Model, rep: &mut Report, fixed: bool, c: &Case, d: Dis) {
    if rep.has_key(&d.key) {
        rep.count("repeat_violations", d.key.clone());
        return;
    }
    let small = shrink(model, fixed, c, &d.key);
    let d2 = run_case(model, fixed, &small, None).unwrap_or(d);
    rep.violation(Violation {
        kind: d2.kind,
        key: d2.key.clone(),
        what: format!("{} [case: {}]", d2.what, truncate_text(&case_text(&small), 300)),
        correspondence: "corr.C10.fastload (Model.Tape.sysCall/fastLoadTap/nextBlock vs Emulator + fast_load_tap + Tap)".into(),
        case: J::obj(vec![("text", J::s(case_text(&small)))]),
        implementation: d2.implementation.clone(),
        expected: d2.expected.clone(),
    });
}

pub fn truncate_text(s: &str, n: usize) -> String {
    if s.len() <= n {
        s.to_string()
    } else {
        format!("{}…", &s[..n])
    }
}

// ---------------------------------------------------------------- component level

/// Random interleavings of next_block / next_block_byte on the real `Tap` against the model and
/// the block-list spec. Returns a description of the first disagreement.
fn component_case(model: &mut Model, tape: &[u8], ops: &[(bool, usize)], chunk: usize, eof_zero: bool, rep: Option<&mut Report>) -> Option<Dis> {
    let mut asset = VAsset::new(tape.to_vec());
    asset.max_chunk = chunk;
    asset.eof_zero = eof_zero;
    let mut tap = match Tap::from_asset(asset) {
        Ok(t) => t,
        Err(_) => return None,
    };
    let mut lines = vec![format!("tape {}", hex_or_dash(tape))];
    let mut impls = vec![];
    for (is_nb, n) in ops {
        if *is_nb {
            lines.push("nb".into());
            let r = catch_unwind(AssertUnwindSafe(|| tap.next_block()));
            impls.push(match r {
                Err(_) => "panic".to_string(),
                Ok(Ok(b)) => format!("{}", b),
                Ok(Err(e)) => err_name(&format!("{:?}", e)),
            });
        } else {
            lines.push(format!("nbb {:x}", n));
            let mut bytes = vec![];
            let mut st = "more".to_string();
            for _ in 0..*n {
                let r = catch_unwind(AssertUnwindSafe(|| tap.next_block_byte()));
                match r {
                    Err(_) => {
                        st = "panic".into();
                        break;
                    }
                    Ok(Ok(Some(b))) => bytes.push(b),
                    Ok(Ok(None)) => {
                        st = "none".into();
                        break;
                    }
                    Ok(Err(e)) => {
                        st = err_name(&format!("{:?}", e));
                        break;
                    }
                }
            }
            impls.push(format!("{} {}", hex_or_dash(&bytes), st));
        }
    }
    let answers = model.ask_many(&lines);
    let mut rep = rep;
    for (k, got) in impls.iter().enumerate() {
        let ans = &answers[k + 1];
        let (m, s) = ans[2..].split_once(" S ").unwrap_or((ans, "undecided"));
        if let Some(r) = rep.as_deref_mut() {
            r.eval();
            r.count("component_ops", if ops[k].0 { "next_block" } else { "next_block_byte xN" });
        }
        let opname = if ops[k].0 { "next_block".to_string() } else { format!("next_block_byte x{}", ops[k].1) };
        if s != "undecided" && got != s {
            return Some(Dis {
                kind: Kind::SpecViolated,
                key: format!("C10/stream/{}", if ops[k].0 { "next_block" } else { "bytes" }),
                what: format!("operation {} ({}) returned {} but the tape's blocks give {}", k, opname, truncate_text(got, 80), truncate_text(s, 80)),
                implementation: got.clone(),
                expected: s.to_string(),
                at: k,
            });
        }
        if got != m {
            return Some(Dis {
                kind: Kind::ModelMismatch,
                key: format!("C10/model/stream/{}", if ops[k].0 { "next_block" } else { "bytes" }),
                what: format!("operation {} ({}) returned {} but the Lean model gives {}", k, opname, truncate_text(got, 80), truncate_text(m, 80)),
                implementation: got.clone(),
                expected: m.to_string(),
                at: k,
            });
        }
    }
    None
}

pub fn err_name(s: &str) -> String {
    if s.contains("UnexpectedEof") {
        "err:eof".into()
    } else if s.contains("InvalidTapFile") {
        "err:invalid".into()
    } else {
        format!("err:{}", s.replace(' ', ""))
    }
}

fn comp_text(tape: &[u8], ops: &[(bool, usize)], chunk: usize, eof_zero: bool) -> String {
    let mut s = format!("component chunk={} eofzero={} tape={}", chunk, if eof_zero { 1 } else { 0 }, hex_or_dash(tape));
    for (nb, n) in ops {
        if *nb {
            s.push_str(" ; nb");
        } else {
            s.push_str(&format!(" ; nbb {:x}", n));
        }
    }
    s
}

fn parse_comp(s: &str) -> (Vec<u8>, Vec<(bool, usize)>, usize, bool) {
    let mut parts = s.split(';').map(|x| x.trim());
    let head = parts.next().unwrap_or("");
    let mut tape = vec![];
    let mut chunk = 0;
    let mut eofz = false;
    for kv in head.split_whitespace() {
        if let Some(h) = kv.strip_prefix("tape=") {
            if h != "-" {
                tape = unhex(h);
            }
        }
        if let Some(h) = kv.strip_prefix("chunk=") {
            chunk = h.parse().unwrap_or(0);
        }
        if kv == "eofzero=1" {
            eofz = true;
        }
    }
    let mut ops = vec![];
    for p in parts {
        if p == "nb" {
            ops.push((true, 0));
        } else if let Some(n) = p.strip_prefix("nbb ") {
            ops.push((false, usize::from_str_radix(n.trim(), 16).unwrap_or(0)));
        }
    }
    (tape, ops, chunk, eofz)
}

fn report_comp_failure(model: &mut Model, rep: &mut Report, tape: &[u8], ops: &[(bool, usize)], chunk: usize, eofz: bool, d: Dis) {
    if rep.has_key(&d.key) {
        rep.count("repeat_violations", d.key.clone());
        return;
    }
    // shrink: cut after the failing op, drop ops, drop/shorten blocks
    let mut cur_t = tape.to_vec();
    let mut cur_o = ops[..=d.at.min(ops.len() - 1)].to_vec();
    let mut budget = 300;
    let fails = |model: &mut Model, t: &[u8], o: &[(bool, usize)]| {
        matches!(component_case(model, t, o, chunk, eofz, None), Some(ref x) if x.key == d.key)
    };
    loop {
        let mut changed = false;
        for i in 0..cur_o.len() {
            if cur_o.len() > 1 && budget > 0 {
                budget -= 1;
                let mut o = cur_o.clone();
                o.remove(i);
                if fails(model, &cur_t, &o) {
                    cur_o = o;
                    changed = true;
                    break;
                }
            }
        }
        if !changed {
            let (blocks, tail) = split_tape(&cur_t);
            'b: for i in 0..blocks.len() {
                for newlen in [0usize, 1, blocks[i].len() / 2, blocks[i].len().saturating_sub(1)] {
                    if newlen < blocks[i].len() && budget > 0 {
                        budget -= 1;
                        let mut b = blocks.clone();
                        b[i].truncate(newlen);
                        let t = reencode(&b, &tail);
                        if fails(model, &t, &cur_o) {
                            cur_t = t;
                            changed = true;
                            break 'b;
                        }
                    }
                }
            }
        }
        if !changed || budget == 0 {
            break;
        }
    }
    let d2 = component_case(model, &cur_t, &cur_o, chunk, eofz, None).unwrap_or(d);
    let text = comp_text(&cur_t, &cur_o, chunk, eofz);
    rep.violation(Violation {
        kind: d2.kind,
        key: d2.key.clone(),
        what: format!("{} [case: {}]", d2.what, truncate_text(&text, 300)),
        correspondence: "corr.C10.stream (Model.Tape.nextBlock/nextBlockByte vs Tap::next_block/next_block_byte)".into(),
        case: J::obj(vec![("text", J::s(text))]),
        implementation: d2.implementation.clone(),
        expected: d2.expected.clone(),
    });
}

pub fn run(o: &Opts) -> Report {
    let mut rep = Report::new("C10");
    rep.rule = "(plus eight/120 scripted scenarios in which the trap and the ROM in real time serve one tape in turn) system level: random TAP images (0-6 blocks; lengths from {0,1,2,3,19,127,128,129,130,255,256,257,258,300,383..386,512,513}, \
random short, 100-3000, thorough also 16385..65535; good and bad checksums; optional stray byte or truncated last block) loaded into a real \
Emulator (48K, a quarter 128K with ROM1 paged) with the embedded ROM and fast loading on; per tape one request per block plus 0-2 past the \
end, each a call of ROM 0x0556 (LOAD/VERIFY, matching or wrong flag, DE = matching/0/1/short/long/block length/0xFFxx, IX in RAM, in ROM, \
crossing 0x4000, wrapping 0xFFFF; VERIFY with equal or one-bit-off memory); observed: returned-with-carry / not returned within 2 frames / error, \
IX, DE, destination bytes, every other memory byte. Component level: random interleavings of next_block and runs of next_block_byte on \
Tap<VAsset> (short reads, both EOF conventions). distinct/non-trivial = distinct (outcome, load|verify, flag checked, DE class, bytes moved \
class, IX in ROM, wrapped) of requests that returned to the caller"
        .into();
    let mut model = Model::spawn(&o.model, "C10");
    let fixed = detect_variant();
    rep.extra.push(("tree_variant".into(), J::s(if fixed { "block requested before AF swap (C10-1 repair present)" } else { "AF swapped before next_block (code as found)" })));

    if let Some(text) = &o.replay {
        rep.sample(J::s(truncate_text(text, 400)));
        if text.starts_with("system") {
            let c = crate::c11::parse_sys(text);
            if let Some(d) = crate::c11::run_sys_case(&mut model, &c, &c.tape.clone(), "C10", Some(&mut rep)) {
                rep.violation(Violation {
                    kind: d.kind,
                    key: format!("{}/replay", d.key),
                    what: d.what.clone(),
                    correspondence: "corr.C10.fastload (requests served by the trap and by the ROM in real time on one tape)".into(),
                    case: J::obj(vec![("text", J::s(text.clone()))]),
                    implementation: d.implementation.clone(),
                    expected: d.expected.clone(),
                });
            }
        } else if text.starts_with("component") {
            let (tape, ops, chunk, eofz) = parse_comp(text);
            if let Some(d) = component_case(&mut model, &tape, &ops, chunk, eofz, Some(&mut rep)) {
                report_comp_failure(&mut model, &mut rep, &tape, &ops, chunk, eofz, d);
            }
        } else {
            let c = parse_case(text);
            if let Some(d) = run_case(&mut model, fixed, &c, Some(&mut rep)) {
                report_failure(&mut model, &mut rep, fixed, &c, d);
            }
        }
        return rep;
    }

    // 0. fixed regression cases: the empty tape and a request past the end
    let corpus = [
        "m128=0 tape=- ; req ff 1 8000 0010 -",
        "m128=0 tape=- ; req ff 0 8000 0010 -",
        "m128=0 tape=- ; req ff 1 8000 ff10 -",
        "m128=0 tape=0300ff01fe ; req ff 1 8000 0001 - ; req ff 1 9000 0001 -",
        "m128=1 tape=0300ff01fe ; req ff 0 8000 0001 h:01 ; req ff 0 9000 0001 -",
    ];
    for t in corpus {
        let c = parse_case(t);
        rep.count("cases", "corpus");
        if let Some(d) = run_case(&mut model, fixed, &c, Some(&mut rep)) {
            report_failure(&mut model, &mut rep, fixed, &c, d);
        }
    }

    // 0b. the longest blocks (the 16-bit length word allows 65535 bytes): a short request leaves nearly all of
    // the block unread, the next request has to skip the leftovers across the 65408/65536 marks
    {
        let mut r = Rng::new(o.seed ^ 0x0C10_B16);
        let lens: Vec<usize> = if o.thorough() { vec![65409, 65410, 65535, 65534, 40000] } else { vec![65410, 65535] };
        for len in lens {
            let big = gen_block(&mut r, len);
            let small = gen_block(&mut r, 19);
            let mut tape = vec![(len & 0xFF) as u8, (len >> 8) as u8];
            tape.extend_from_slice(&big);
            tape.extend_from_slice(&[19, 0]);
            tape.extend_from_slice(&small);
            let reqs = vec![
                Req { a: big[0], load: true, ix: 0x8000, de: 10, fill: Fill::None },
                Req { a: small[0], load: true, ix: 0x9000, de: 17, fill: Fill::None },
                Req { a: 0xFF, load: true, ix: 0xA000, de: 4, fill: Fill::None },
            ];
            let c = Case { m128: len % 2 == 1, tape, reqs };
            rep.count("cases", "longest blocks");
            if let Some(d) = run_case(&mut model, fixed, &c, Some(&mut rep)) {
                report_failure(&mut model, &mut rep, fixed, &c, d);
            }
        }
    }

    // 1. component level
    let mut rng = Rng::new(o.seed ^ 0x0C10_0001);
    for n in 0..o.n(300, 30_000) {
        let mut r = rng.fork();
        let (tape, blocks) = gen_tape(&mut r, o.thorough());
        let mut ops = vec![];
        for b in blocks.iter().chain(std::iter::once(&vec![])) {
            ops.push((true, 0));
            // full drain, partial drain (leftovers to skip), or byte-by-byte pieces
            match r.below(4) {
                0 => ops.push((false, b.len() + 2)),
                1 => {
                    if !b.is_empty() {
                        ops.push((false, r.below(b.len() as u64 + 1) as usize));
                    }
                }
                2 => {
                    let mut left = b.len() + 1;
                    while left > 0 {
                        let k = (r.range(1, 200) as usize).min(left);
                        ops.push((false, k));
                        left -= k;
                    }
                }
                _ => {}
            }
        }
        ops.push((true, 0));
        ops.push((false, 3));
        let chunk = *r.pick(&[0usize, 0, 1, 7, 128]);
        let eofz = r.bool();
        rep.count("cases", "component");
        if n < 1 {
            rep.sample(J::s(truncate_text(&comp_text(&tape, &ops, chunk, eofz), 300)));
        }
        if let Some(d) = component_case(&mut model, &tape, &ops, chunk, eofz, Some(&mut rep)) {
            report_comp_failure(&mut model, &mut rep, &tape, &ops, chunk, eofz, d);
        }
    }

    // 2. system level
    let mut rng = Rng::new(o.seed);
    let target = o.n(1500, 200_000);
    let mut nreq = 0u64;
    let mut ncase = 0;
    while nreq < target {
        let mut r = rng.fork();
        let c = gen_case(&mut r, o.thorough());
        nreq += c.reqs.len() as u64;
        ncase += 1;
        rep.count("cases", if c.m128 { "system 128K" } else { "system 48K" });
        for rq in &c.reqs {
            rep.count("requests", if rq.load { "LOAD" } else { "VERIFY" });
            rep.count("request_de", match rq.de { 0 => "0", 1 => "1", d if d >> 8 == 0xFF => "D=FF", _ => "n" });
            rep.count("request_ix", if rq.ix < 0x4000 { "ROM" } else { "RAM" });
        }
        let (blocks, tail) = split_tape(&c.tape);
        for b in &blocks {
            rep.count("block_len", match b.len() { 0 => "0", 1 => "1", 2..=126 => "2-126", 127..=129 => "127-129", 130..=254 => "130-254", 255..=257 => "255-257", 258..=1000 => "258-1000", _ => ">1000" });
        }
        rep.count("tape_tail", match tail.len() { 0 => "none", 1 => "stray byte", _ => "truncated block" });
        if ncase <= 2 {
            rep.sample(J::s(truncate_text(&case_text(&c), 400)));
        }
        if let Some(d) = run_case(&mut model, fixed, &c, Some(&mut rep)) {
            rep.count("disagreeing_cases", format!("{:?} {}", d.kind, d.key));
            report_failure(&mut model, &mut rep, fixed, &c, d);
        }
    }
    // 3. the trap next to a playing deck: the same tape served in turn by the trap (deck standing still) and by the
    // ROM in real time (deck playing); every request gets the next block of the tape
    let mut rng = Rng::new(o.seed ^ 0x5C1A);
    for (c, name) in crate::c11::mixed_cases(&mut rng, o.n(8, 120)) {
        rep.count("cases", format!("trap and real time mixed: {}", name));
        if let Some(d) = crate::c11::run_sys_case(&mut model, &c, &c.tape.clone(), "C10", Some(&mut rep)) {
            if !rep.has_key(&d.key) {
                rep.violation(Violation {
                    kind: d.kind,
                    key: format!("{}/{}", d.key, name.replace(' ', "-")),
                    what: format!("{} (scenario: {}) [case: {}]", d.what, name, truncate_text(&crate::c11::sys_text(&c), 300)),
                    correspondence: "corr.C10.fastload (requests served by the trap and by the ROM in real time on one tape)".into(),
                    case: J::obj(vec![("text", J::s(crate::c11::sys_text(&c)))]),
                    implementation: d.implementation.clone(),
                    expected: d.expected.clone(),
                });
            }
        }
    }
    let _ = model.ask(&format!("variant {}", if fixed { 1 } else { 0 }));
    rep.extra.push(("system_cases".into(), J::I(ncase)));
    rep.extra.push(("model_requests".into(), J::I(model.requests as i64)));
    rep
}
