//! C11 — a playing tape presents each TAP block as the standard loader waveform.
//! Component level: the real `Tap` (hook `verif_tape`) is driven with step schedules of 1..16 T and
//! the times of its EAR edges are compared exactly with the Lean model and, through the waveform
//! spec, with the standard pulse sequence. System level: the real 48K ROM loads the playing tape in
//! real time and the result is compared with fast loading and with the LD-BYTES spec.
use crate::c10::{self, Fill, Req};
use crate::host::*;
use crate::util::*;
use rustzx_core::zx::verif_tape::{Tap, TapeImpl};
use rustzx_z80::RegName16;
use std::panic::{catch_unwind, AssertUnwindSafe};

// ---------------------------------------------------------------- schedules and commands

/// Step `i` of schedule `kind` (mirrors `nextStep` in lean/Driver/C11.lean).
pub fn next_step(kind: u8, seed: u32, i: u64, rng: &mut Rng) -> usize {
    match kind {
        5 => seed as usize,
        1 => (seed % 16 + 1) as usize,
        3 => {
            if i % 2 == 0 {
                16
            } else {
                1
            }
        }
        2 => {
            let x = rng.next();
            if x % 16 == 0 {
                16
            } else {
                1 + ((x >> 8) % 4) as usize
            }
        }
        4 => {
            let x = rng.next();
            [3usize, 4, 4, 4, 5, 6, 7, 8, 3, 1][(x % 10) as usize]
        }
        _ => {
            let x = rng.next();
            1 + (x % 16) as usize
        }
    }
}

#[derive(Clone, Debug, PartialEq)]
pub enum Cmd {
    Play,
    Stop,
    Rewind,
    Run { kind: u8, seed: u32, n: u64 },
}

impl Cmd {
    pub fn line(&self) -> String {
        match self {
            Cmd::Play => "cmd play".into(),
            Cmd::Stop => "cmd stop".into(),
            Cmd::Rewind => "cmd rewind".into(),
            Cmd::Run { kind, seed, n } => format!("run {:x} {:x} {:x}", kind, seed, n),
        }
    }
    pub fn parse(s: &str) -> Option<Cmd> {
        let t: Vec<&str> = s.split_whitespace().collect();
        match t.as_slice() {
            ["cmd", "play"] => Some(Cmd::Play),
            ["cmd", "stop"] => Some(Cmd::Stop),
            ["cmd", "rewind"] => Some(Cmd::Rewind),
            ["run", k, s, n] => Some(Cmd::Run {
                kind: u8::from_str_radix(k, 16).ok()?,
                seed: u32::from_str_radix(s, 16).ok()?,
                n: u64::from_str_radix(n, 16).ok()?,
            }),
            _ => None,
        }
    }
}

/// The real pulse generator plus the harness' clock.
pub struct RealTap {
    pub tap: Tap<VAsset>,
    pub now: u64,
    pub stop_time: Option<u64>,
    pub all_edges: Vec<(u64, bool)>,
}

#[derive(Clone, Debug, PartialEq)]
pub struct RunObs {
    pub status: String,
    pub now: u64,
    pub stopped: bool,
    pub stop_time: Option<u64>,
    pub edges: Vec<(u64, bool)>,
}

impl RunObs {
    pub fn text(&self) -> String {
        let mut s = format!(
            "{} {:x} {} {} E",
            self.status,
            self.now,
            if self.stopped { 1 } else { 0 },
            self.stop_time.map(|t| format!("{:x}", t)).unwrap_or("-".into())
        );
        for (t, l) in &self.edges {
            s.push_str(&format!(" {:x}:{}", t, if *l { 1 } else { 0 }));
        }
        s
    }
}

impl RealTap {
    pub fn new(tape: &[u8], chunk: usize) -> RealTap {
        let mut a = VAsset::new(tape.to_vec());
        a.max_chunk = chunk;
        let tap = match Tap::from_asset(a) {
            Ok(t) => t,
            Err(_) => panic!("Tap::from_asset failed"),
        };
        RealTap { tap, now: 0, stop_time: None, all_edges: vec![] }
    }

    /// Applies a command; `Run` returns what was observed.
    pub fn cmd(&mut self, c: &Cmd) -> Option<RunObs> {
        match c {
            Cmd::Play => {
                self.tap.play();
                None
            }
            Cmd::Stop => {
                self.tap.stop();
                None
            }
            Cmd::Rewind => {
                let _ = self.tap.rewind();
                None
            }
            Cmd::Run { kind, seed, n } => {
                let mut rng = Rng::new(*seed as u64);
                let mut edges = vec![];
                let mut status = "ok".to_string();
                for i in 0..*n {
                    let c = next_step(*kind, *seed, i, &mut rng);
                    let was_running = !self.tap.can_fast_load();
                    let lvl = self.tap.current_bit();
                    let r = catch_unwind(AssertUnwindSafe(|| self.tap.process_clocks(c)));
                    self.now += c as u64;
                    let l2 = self.tap.current_bit();
                    if l2 != lvl {
                        edges.push((self.now, l2));
                    }
                    if was_running && self.tap.can_fast_load() && self.stop_time.is_none() {
                        self.stop_time = Some(self.now);
                    }
                    match r {
                        Err(_) => {
                            status = "panic".into();
                            break;
                        }
                        Ok(Err(e)) => {
                            status = c10::err_name(&format!("{:?}", e));
                            break;
                        }
                        Ok(Ok(())) => {}
                    }
                }
                self.all_edges.extend_from_slice(&edges);
                Some(RunObs {
                    status,
                    now: self.now,
                    stopped: self.tap.can_fast_load(),
                    stop_time: self.stop_time,
                    edges,
                })
            }
        }
    }
}

pub fn edges_text(edges: &[(u64, bool)]) -> String {
    let mut s = String::new();
    for (t, l) in edges {
        s.push_str(&format!(" {:x}:{}", t, if *l { 1 } else { 0 }));
    }
    s
}

#[derive(Clone, Debug, PartialEq)]
pub struct Case {
    pub tape: Vec<u8>,
    pub chunk: usize,
    pub cmds: Vec<Cmd>,
}

pub fn case_text(c: &Case) -> String {
    let mut s = format!(
        "component chunk={} tape={}",
        c.chunk,
        if c.tape.is_empty() { "-".to_string() } else { hex(&c.tape) }
    );
    for k in &c.cmds {
        s.push_str(" ; ");
        s.push_str(&k.line());
    }
    s
}

pub fn parse_case(s: &str) -> Case {
    let mut parts = s.split(';').map(|x| x.trim());
    let head = parts.next().unwrap_or("");
    let mut tape = vec![];
    let mut chunk = 0;
    for kv in head.split_whitespace() {
        if let Some(h) = kv.strip_prefix("tape=") {
            if h != "-" {
                tape = unhex(h);
            }
        }
        if let Some(h) = kv.strip_prefix("chunk=") {
            chunk = h.parse().unwrap_or(0);
        }
    }
    Case { tape, chunk, cmds: parts.filter_map(Cmd::parse).collect() }
}

#[derive(Clone, Debug)]
pub struct Dis {
    pub kind: Kind,
    pub key: String,
    pub what: String,
    pub implementation: String,
    pub expected: String,
}

fn first_diff(a: &[(u64, bool)], b: &[(u64, bool)]) -> String {
    let k = a.iter().zip(b.iter()).position(|(x, y)| x != y).unwrap_or(a.len().min(b.len()));
    let show = |v: &[(u64, bool)]| {
        v.get(k)
            .map(|(t, l)| format!("edge #{} at T={} to level {}", k, t, if *l { 1 } else { 0 }))
            .unwrap_or(format!("no edge #{}", k))
    };
    format!("{} vs {}", show(a), show(b))
}

fn parse_edges(t: &[&str]) -> Vec<(u64, bool)> {
    t.iter()
        .filter_map(|e| {
            let (a, b) = e.split_once(':')?;
            Some((u64::from_str_radix(a, 16).ok()?, b == "1"))
        })
        .collect()
}

/// Component-level case against the `C11` driver: edges exactly as the model, waveform as the spec.
pub fn run_case(model: &mut Model, fixed: bool, c: &Case, mut rep: Option<&mut Report>) -> Option<Dis> {
    let mut real = RealTap::new(&c.tape, c.chunk);
    let mut lines = vec![
        format!("variant {}", if fixed { 1 } else { 0 }),
        format!("tape {}", if c.tape.is_empty() { "-".to_string() } else { hex(&c.tape) }),
    ];
    let mut obs = vec![];
    for k in &c.cmds {
        lines.push(k.line());
        obs.push(real.cmd(k));
    }
    lines.push("verdict".into());
    let answers = model.ask_many(&lines);
    let mut mismatch: Option<(String, String, String)> = None;
    for (i, o) in obs.iter().enumerate() {
        let ans = &answers[i + 2];
        if let Some(o) = o {
            if let Some(r) = rep.as_deref_mut() {
                // every edge time is one exact comparison, plus status/stop time of the run
                r.evaluations += o.edges.len() as u64 + 1;
                r.count_n("edges_compared", "edges", o.edges.len() as u64);
            }
            let got = o.text();
            if &got != ans && mismatch.is_none() {
                let t: Vec<&str> = ans.split(' ').collect();
                let medges = if t.len() > 5 { parse_edges(&t[5..]) } else { vec![] };
                let head_m = t.iter().take(4).cloned().collect::<Vec<_>>().join(" ");
                let head_i = got.split(' ').take(4).collect::<Vec<_>>().join(" ");
                let what = if medges != o.edges {
                    format!("command {} ({}): {}", i, c.cmds[i].line(), first_diff(&o.edges, &medges))
                } else {
                    format!("command {} ({}): status/time/stop '{}' vs '{}'", i, c.cmds[i].line(), head_i, head_m)
                };
                mismatch = Some((what, truncate(&got, 200), truncate(ans, 200)));
            }
        } else {
            assert_eq!(ans, "ok", "driver rejected {}", lines[i + 2]);
        }
    }
    // the waveform spec adjudicates the implementation's edges
    let verdict_model = answers.last().unwrap().clone();
    let verdict = if mismatch.is_some() {
        model.ask(&format!(
            "adjudicate {}{}",
            real.stop_time.map(|t| format!("{:x}", t)).unwrap_or("-".into()),
            edges_text(&real.all_edges)
        ))
    } else {
        verdict_model
    };
    if let Some(r) = rep.as_deref_mut() {
        r.count("spec_verdict", verdict.split(':').next().unwrap_or("?").to_string());
    }
    if let Some(v) = verdict.strip_prefix("violates:") {
        let class = v.split(':').last().unwrap_or(v).to_string();
        return Some(Dis {
            kind: Kind::SpecViolated,
            key: format!("C11/waveform/{}", class),
            what: format!("the EAR waveform is not the standard one: {}", v),
            implementation: mismatch.as_ref().map(|m| m.1.clone()).unwrap_or(truncate(&edges_text(&real.all_edges), 200)),
            expected: format!("standard waveform of the tape (Spec.acceptsBlock); verdict {}", verdict),
        });
    }
    if let Some((what, got, want)) = mismatch {
        return Some(Dis {
            kind: Kind::ModelMismatch,
            key: "C11/model/edges".into(),
            what,
            implementation: got,
            expected: want,
        });
    }
    None
}

pub fn truncate(s: &str, n: usize) -> String {
    c10::truncate_text(s, n)
}

// ---------------------------------------------------------------- generation

pub fn encode(blocks: &[Vec<u8>]) -> Vec<u8> {
    let mut t = vec![];
    for b in blocks {
        t.push((b.len() & 0xFF) as u8);
        t.push((b.len() >> 8) as u8);
        t.extend_from_slice(b);
    }
    t
}

/// Nominal duration of a block in T-states (for sizing runs).
pub fn nominal_t(b: &[u8]) -> u64 {
    if b.is_empty() {
        return 0;
    }
    let pilot = if b[0] == 0 { 8063 } else { 3223 };
    let mut t = pilot * 2168 + 667 + 735 + 3_500_000;
    for v in b {
        let ones = v.count_ones() as u64;
        t += ones * 2 * 1710 + (8 - ones) * 2 * 855;
    }
    t
}

pub const FLAGS: [u8; 6] = [0x00, 0xFF, 0x00, 0x01, 0x80, 0x7F];
/// total block lengths (flag and checksum included); 19 is the standard header, 258 carries all byte values
pub const LENGTHS: [usize; 16] = [19, 1, 2, 3, 17, 18, 20, 21, 127, 128, 129, 130, 256, 257, 258, 300];

/// One block with the given flag byte and total length (checksum last when there is room for one).
pub fn make_block(rng: &mut Rng, flag: u8, len: usize) -> Vec<u8> {
    let mut b = vec![flag];
    if len == 258 {
        // all 256 byte values, rotated so that over time every value meets every buffer position
        let mut v: Vec<u8> = (0..=255u8).collect();
        let r = rng.below(256) as usize;
        v.rotate_left(r);
        b.extend(v);
    } else if len >= 2 {
        b.extend(rng.bytes(len - 2));
    }
    if len >= 2 {
        let x = b.iter().fold(0u8, |a, v| a ^ v);
        b.push(x);
    }
    b
}

/// Flag bytes and block lengths are chosen independently of each other: `idx` walks through all
/// (flag, length) pairs of FLAGS x LENGTHS (coprime strides), every third block is fully random.
pub fn gen_block(rng: &mut Rng, idx: u64) -> Vec<u8> {
    if idx % 3 == 2 {
        let flag = match rng.below(4) {
            0 => 0x00,
            1 => 0xFF,
            _ => rng.u8(),
        };
        let len = if rng.chance(1, 4) { rng.range(1, 320) as usize } else { rng.range(1, 40) as usize };
        return make_block(rng, flag, len);
    }
    let k = idx - idx / 3; // consecutive numbering of the non-random blocks
    let flag = FLAGS[(k % FLAGS.len() as u64) as usize];
    let len = LENGTHS[((k / FLAGS.len() as u64 + k) % LENGTHS.len() as u64) as usize];
    make_block(rng, flag, len)
}

pub fn gen_blocks(rng: &mut Rng, idx: u64) -> Vec<Vec<u8>> {
    let n = if rng.chance(1, 4) { 2 } else { 1 };
    (0..n).map(|j| gen_block(rng, idx * 2 + j)).collect()
}

pub fn block_class(b: &[u8]) -> String {
    format!(
        "flag {} len {}",
        match b[0] { 0x00 => "00", 0xFF => "ff", _ => "other" },
        match b.len() { 1 => "1", 2 => "2", 3..=16 => "3-16", 17 | 18 => "17-18", 19 => "19", 20 | 21 => "20-21", 22..=126 => "22-126", 127..=130 => "127-130", 131..=255 => "131-255", 256..=258 => "256-258", _ => ">258" }
    )
}

pub fn gen_runs(rng: &mut Rng, total_t: u64) -> Vec<Cmd> {
    // split the tape's duration (plus a margin past the end) into 1-3 runs with different schedules
    let mut cmds = vec![];
    let parts = rng.range(1, 3);
    let mut left = total_t + 200_000;
    for p in 0..parts {
        let kind = rng.below(5) as u8;
        let seed = rng.next() as u32;
        let avg: f64 = match kind {
            1 => (seed % 16 + 1) as f64,
            2 => 3.3,
            3 => 8.5,
            4 => 4.5,
            _ => 8.5,
        };
        let t = if p + 1 == parts { left } else { rng.range(left / 8, left / 2) };
        let n = ((t as f64) / avg * 1.15) as u64 + 64;
        cmds.push(Cmd::Run { kind, seed, n });
        left = left.saturating_sub(t);
    }
    cmds
}

fn shrink(model: &mut Model, fixed: bool, c: &Case, key: &str) -> Case {
    let mut cur = c.clone();
    let mut budget = 40;
    loop {
        let mut cands: Vec<Case> = vec![];
        let (blocks, tail) = split(&cur.tape);
        for i in 0..blocks.len() {
            if blocks.len() > 1 {
                let mut b = blocks.clone();
                b.remove(i);
                cands.push(Case { tape: [encode(&b), tail.clone()].concat(), ..cur.clone() });
            }
            for newlen in [1usize, 2, blocks[i].len() / 2] {
                if newlen >= 1 && newlen < blocks[i].len() {
                    let mut b = blocks.clone();
                    b[i].truncate(newlen);
                    cands.push(Case { tape: [encode(&b), tail.clone()].concat(), ..cur.clone() });
                }
            }
            if !blocks[i].is_empty() && (blocks[i].iter().skip(1).any(|v| *v != 0) || blocks[i][0] != 0xFF) {
                let mut b = blocks.clone();
                for v in b[i].iter_mut() {
                    *v = 0;
                }
                b[i][0] = 0xFF;
                cands.push(Case { tape: [encode(&b), tail.clone()].concat(), ..cur.clone() });
            }
        }
        if cur.cmds.len() > 2 {
            // merge all runs into one constant-step run
            let total: u64 = cur.cmds.iter().map(|k| if let Cmd::Run { n, .. } = k { *n } else { 0 }).sum();
            let mut cmds: Vec<Cmd> = cur.cmds.iter().filter(|k| !matches!(k, Cmd::Run { .. })).cloned().collect();
            cmds.push(Cmd::Run { kind: 1, seed: 7, n: total * 2 });
            cands.push(Case { cmds, ..cur.clone() });
        }
        if cur.chunk != 0 {
            cands.push(Case { chunk: 0, ..cur.clone() });
        }
        let mut changed = false;
        for cand in cands {
            if budget == 0 {
                return cur;
            }
            budget -= 1;
            if let Some(d) = run_case(model, fixed, &cand, None) {
                if d.key == key {
                    cur = cand;
                    changed = true;
                    break;
                }
            }
        }
        if !changed {
            return cur;
        }
    }
}

pub fn split(tape: &[u8]) -> (Vec<Vec<u8>>, Vec<u8>) {
    let mut p = 0;
    let mut blocks = vec![];
    while p + 2 <= tape.len() {
        let n = tape[p] as usize + 256 * tape[p + 1] as usize;
        if p + 2 + n > tape.len() {
            break;
        }
        blocks.push(tape[p + 2..p + 2 + n].to_vec());
        p += 2 + n;
    }
    (blocks, tape[p..].to_vec())
}

fn report_failure(model: &mut Model, rep: &mut Report, fixed: bool, c: &Case, d: Dis) {
    if rep.has_key(&d.key) {
        rep.count("repeat_violations", d.key.clone());
        return;
    }
    let small = shrink(model, fixed, c, &d.key);
    let d2 = run_case(model, fixed, &small, None).unwrap_or(d);
    rep.violation(Violation {
        kind: d2.kind,
        key: d2.key.clone(),
        what: format!("{} [case: {}]", d2.what, truncate(&case_text(&small), 300)),
        correspondence: "corr.C11.edges (Model.Tape.processClocks/fire vs Tap::process_clocks/current_bit)".into(),
        case: J::obj(vec![("text", J::s(case_text(&small)))]),
        implementation: d2.implementation.clone(),
        expected: d2.expected.clone(),
    });
}

// ---------------------------------------------------------------- system level: the real ROM loader

#[derive(Clone, Debug, PartialEq)]
pub enum SysOp {
    Play,
    Stop,
    Rewind,
    /// let the machine idle (JR $ at the return address) for so many frames
    Idle(usize),
    Load(Req),
}

#[derive(Clone, Debug, PartialEq)]
pub struct SysCase {
    pub tape: Vec<u8>,
    pub ops: Vec<SysOp>,
    /// fast loading enabled in the settings: a request issued while the deck stands still is served by the trap, a
    /// request issued while it plays by the ROM in real time — both consume the same tape, in order
    pub fastload: bool,
}

pub fn sys_text(c: &SysCase) -> String {
    let mut s = format!("system tape={}{}", if c.tape.is_empty() { "-".to_string() } else { hex(&c.tape) }, if c.fastload { " fl=1" } else { "" });
    for o in &c.ops {
        s.push_str(" ; ");
        match o {
            SysOp::Play => s.push_str("play"),
            SysOp::Stop => s.push_str("stop"),
            SysOp::Rewind => s.push_str("rewind"),
            SysOp::Idle(n) => s.push_str(&format!("idle {}", n)),
            SysOp::Load(r) => s.push_str(&format!(
                "req {:02x} {} {:04x} {:04x} {}",
                r.a,
                if r.load { 1 } else { 0 },
                r.ix,
                r.de,
                match &r.fill {
                    Fill::Bytes(b) if !b.is_empty() => format!("h:{}", hex(b)),
                    _ => "-".to_string(),
                }
            )),
        }
    }
    s
}

pub fn parse_sys(s: &str) -> SysCase {
    let mut parts = s.split(';').map(|x| x.trim());
    let head = parts.next().unwrap_or("");
    let mut tape = vec![];
    let mut fastload = false;
    for kv in head.split_whitespace() {
        if let Some(h) = kv.strip_prefix("tape=") {
            if h != "-" {
                tape = unhex(h);
            }
        }
        if kv == "fl=1" {
            fastload = true;
        }
    }
    let mut ops = vec![];
    for p in parts {
        let t: Vec<&str> = p.split_whitespace().collect();
        match t.as_slice() {
            ["play"] => ops.push(SysOp::Play),
            ["stop"] => ops.push(SysOp::Stop),
            ["rewind"] => ops.push(SysOp::Rewind),
            ["idle", n] => ops.push(SysOp::Idle(n.parse().unwrap_or(0))),
            ["req", a, l, ix, de, f] => ops.push(SysOp::Load(Req {
                a: u8::from_str_radix(a, 16).unwrap_or(0),
                load: *l == "1",
                ix: u16::from_str_radix(ix, 16).unwrap_or(0),
                de: u16::from_str_radix(de, 16).unwrap_or(0),
                fill: match f.strip_prefix("h:") {
                    Some(h) => Fill::Bytes(unhex(h)),
                    None => Fill::None,
                },
            })),
            _ => {}
        }
    }
    SysCase { tape, ops, fastload }
}

#[derive(Clone, Debug, PartialEq)]
pub struct LoadObs {
    pub outcome: String,
    pub ix: u16,
    pub de: u16,
    pub win: Vec<u8>,
}

/// One LD-BYTES call on `e` (real time or fast, depending on how `e` was built); `frames` bounds
/// the wait for the return.
pub fn sys_load(e: &mut Emu, r: &Req, span: usize, frames: usize, realtime: bool) -> (Vec<u8>, LoadObs) {
    for (i, b) in r.fill.bytes().iter().enumerate() {
        e.verif_write_mem(r.ix.wrapping_add(i as u16), *b, 0);
    }
    let before: Vec<u8> = (0..span).map(|i| e.peek(r.ix.wrapping_add(i as u16))).collect();
    c10::setup_call(e, r, 0, !realtime);
    let outcome = c10::run_until_return(e, frames);
    let cpu = e.verif_cpu();
    let ix = cpu.regs.get_reg_16(RegName16::IX);
    let de = cpu.regs.get_de();
    let win = (0..span).map(|i| e.peek(r.ix.wrapping_add(i as u16))).collect();
    (before, LoadObs { outcome, ix, de, win })
}

/// Parks the CPU in `JR $` at the return address (interrupts off) and lets `frames` frames pass.
pub fn sys_idle(e: &mut Emu, frames: usize) {
    e.verif_write_mem(c10::RET_ADDR + 0x10, 0x18, 0);
    e.verif_write_mem(c10::RET_ADDR + 0x11, 0xFE, 0);
    let cpu = e.verif_cpu();
    cpu.regs.set_pc(c10::RET_ADDR + 0x10);
    cpu.regs.set_iff1(false);
    cpu.regs.set_iff2(false);
    cpu.halted = false;
    for _ in 0..frames {
        let _ = catch_unwind(AssertUnwindSafe(|| e.emulate_frames(std::time::Duration::from_secs(3600))));
    }
}

/// Runs the ops on a real-time emulator (fast load off; the tape deck is operated through
/// Emulator::play_tape/stop_tape/rewind_tape) and returns the observation of every load.
pub fn sys_realtime(c: &SysCase) -> Vec<(Req, Vec<u8>, LoadObs)> {
    let mut e = c10::new_emu(false, &c.tape, c.fastload);
    let maxblk = c.tape.len();
    let mut out = vec![];
    for o in &c.ops {
        match o {
            SysOp::Play => e.play_tape(),
            SysOp::Stop => e.stop_tape(),
            SysOp::Rewind => {
                let _ = e.rewind_tape();
            }
            SysOp::Idle(n) => sys_idle(&mut e, *n),
            SysOp::Load(r) => {
                let span = c10::window_span(r.de, maxblk);
                // a header block needs ~370 frames; allow generously, a silent tape is cut off here
                let (wb, obs) = sys_load(&mut e, r, span, 700, true);
                out.push((r.clone(), wb, obs));
            }
        }
    }
    out
}

/// System-level case: real-time ROM loads vs the LD-BYTES spec / fast-load model served by the `C10`
/// driver with the expected block sequence `expect_tape` (what the deck should deliver, in order).
pub fn run_sys_case(m10: &mut Model, c: &SysCase, expect_tape: &[u8], prop: &str, mut rep: Option<&mut Report>) -> Option<Dis> {
    let loads = sys_realtime(c);
    // fast-load reference on a second emulator with the expected block sequence
    let mut fast = c10::new_emu(false, expect_tape, true);
    let a0 = m10.ask("variant 1");
    assert_eq!(a0, "ok");
    let a1 = m10.ask(&format!("tape {}", if expect_tape.is_empty() { "-".to_string() } else { hex(expect_tape) }));
    assert!(a1.starts_with("ok"));
    for (i, (r, wb, obs)) in loads.iter().enumerate() {
        let span = wb.len();
        // same memory contents for the fast path
        for (k, b) in wb.iter().enumerate() {
            fast.verif_write_mem(r.ix.wrapping_add(k as u16), *b, 0);
        }
        let (_, fobs) = sys_load(&mut fast, &Req { fill: Fill::None, ..r.clone() }, span, 2, false);
        let ans = m10.ask(&format!(
            "req {:02x} {} {:04x} {:04x} {:04x} {}",
            r.a,
            if r.load { 1 } else { 0 },
            r.ix,
            r.de,
            c10::SP0,
            if wb.is_empty() { "-".to_string() } else { hex(wb) }
        ));
        let t: Vec<&str> = ans.split(' ').collect();
        // M o ix de win S o ix de win
        let spec = if t.len() >= 10 && t[5] == "S" {
            Some(LoadObs {
                outcome: t[6].to_string(),
                ix: u16::from_str_radix(t[7], 16).unwrap(),
                de: u16::from_str_radix(t[8], 16).unwrap(),
                win: if t[9] == "-" { vec![] } else { unhex(t[9]) },
            })
        } else {
            None
        };
        if let Some(rp) = rep.as_deref_mut() {
            rp.eval();
            rp.count("rom_loads", obs.outcome.clone());
            rp.class(format!("rom-load {} {} de={}", obs.outcome, if r.load { "load" } else { "verify" }, r.de.min(2)));
        }
        let show = |o: &LoadObs| format!("{} ix={:04x} de={:04x} mem={}", o.outcome, o.ix, o.de, truncate(&hex(&o.win), 48));
        if let Some(s) = &spec {
            if s != obs {
                return Some(Dis {
                    kind: Kind::SpecViolated,
                    key: format!("{}/rom-load", prop),
                    what: format!(
                        "load {} (A={:02x} {} IX={:04x} DE={:04x}) by the real ROM from the playing tape differs from LD-BYTES on the expected block",
                        i, r.a, if r.load { "LOAD" } else { "VERIFY" }, r.ix, r.de
                    ),
                    implementation: show(obs),
                    expected: show(s),
                });
            }
        }
        // fast loading is only defined to agree when a block is there (its end-of-tape defect is C10's)
        if fobs != *obs && spec.as_ref().map(|s| s.outcome != "loops").unwrap_or(false) {
            return Some(Dis {
                kind: Kind::SpecViolated,
                key: format!("{}/rom-vs-fastload", prop),
                what: format!("load {}: real-time ROM load and fast load of the same block differ", i),
                implementation: show(obs),
                expected: show(&fobs),
            });
        }
    }
    None
}

pub fn gen_sys_case(rng: &mut Rng, idx: u64) -> SysCase {
    // small tapes: the pilot dominates the cost (about 100 frames per block with a short pilot, 250 with the long one).
    // Flag byte and length are independent: flag 0x00 with lengths other than 19, other flags with length 19, ...
    let nb = if idx % 3 == 0 { 2 } else { 1 };
    let mut blocks = vec![];
    for j in 0..nb {
        let flag = [0xFFu8, 0x00, 0xFF, 0x01, 0x00, 0x80][((idx + j) % 6) as usize];
        let len = match (idx / 2 + j) % 8 {
            0 => 19,
            1 => 3,
            2 => 17,
            3 => 20,
            4 => rng.range(130, 200) as usize,
            5 => 18,
            6 => 2,
            _ => rng.range(3, 24) as usize,
        };
        let mut b = make_block(rng, flag, len);
        if rng.chance(1, 8) {
            let l = b.len() - 1;
            b[l] ^= 0x10;
        }
        blocks.push(b);
    }
    let mut ops = vec![SysOp::Play];
    for (j, b) in blocks.iter().enumerate() {
        let last = j + 1 == blocks.len();
        let matching = b.len().saturating_sub(2) as u16;
        // requests that leave the tape in mid-block are only issued last
        let de = if last {
            match rng.below(6) {
                0 => matching.saturating_sub(1),
                1 => 0,
                _ => matching,
            }
        } else if rng.chance(1, 5) {
            matching + 3
        } else {
            matching
        };
        let a = if last && rng.chance(1, 6) { b[0] ^ 0x55 } else { b[0] };
        let load = rng.chance(2, 3);
        let fill = if load {
            Fill::None
        } else {
            let mut d = b[1..].to_vec();
            d.truncate(de as usize);
            if rng.chance(1, 4) && !d.is_empty() {
                let k = rng.below(d.len() as u64) as usize;
                d[k] ^= 4;
            }
            Fill::Bytes(d)
        };
        ops.push(SysOp::Load(Req { a, load, ix: rng.range(0x4000, 0xF000) as u16, de, fill }));
    }
    SysCase { tape: encode(&blocks), ops, fastload: false }
}

/// Fast loading and real-time play on one tape: requests served by the trap (deck standing still) and by the ROM
/// (deck playing) alternate; every request must get the next block of the tape.
pub fn mixed_cases(rng: &mut Rng, n: u64) -> Vec<(SysCase, &'static str)> {
    let mut out = vec![];
    for idx in 0..n {
        let mk = |rng: &mut Rng, tag: u8, len: usize| {
            let mut b = vec![0xFF, tag];
            b.extend(rng.bytes(len));
            let x = b.iter().fold(0u8, |a, v| a ^ v);
            b.push(x);
            b
        };
        let long = idx % 3 == 2;
        let (l1, l2, l3) = (if long { rng.range(130, 180) as usize } else { rng.range(3, 10) as usize }, rng.range(3, 10) as usize, rng.range(3, 10) as usize);
        let b1 = mk(rng, 0x11, l1);
        let b2 = mk(rng, 0x22, l2);
        let b3 = mk(rng, 0x33, l3);
        let tape = encode(&[b1.clone(), b2.clone(), b3.clone()]);
        let ix = rng.range(0x5000, 0xE000) as u16;
        let load = |b: &Vec<u8>| SysOp::Load(Req { a: 0xFF, load: true, ix, de: (b.len() - 2) as u16, fill: Fill::None });
        let (ops, name): (Vec<SysOp>, &'static str) = match idx % 4 {
            // a request for a header (A=0x00) hits the data block: the trap gives up on the flag byte with the block
            // half read; then the deck is started and the next block is loaded in real time
            0 => (vec![SysOp::Load(Req { a: 0x00, load: true, ix, de: 17, fill: Fill::None }), SysOp::Play, load(&b2), SysOp::Stop, load(&b3)], "trap gives up mid-block; play"),
            // a short request (DE smaller than the block) by the trap, then real time
            1 => (vec![SysOp::Load(Req { a: 0xFF, load: true, ix, de: 1, fill: Fill::None }), SysOp::Play, load(&b2), SysOp::Stop, load(&b3)], "trap short request; play"),
            // block 1 in real time, the deck stopped in the pause behind it, blocks 2 and 3 by the trap
            2 => (vec![SysOp::Play, load(&b1), SysOp::Idle(rng.range(1, 30) as usize), SysOp::Stop, load(&b2), load(&b3)], "play; stop in the pause; trap"),
            // trap, real time, trap
            _ => (vec![load(&b1), SysOp::Play, load(&b2), SysOp::Idle(rng.range(1, 20) as usize), SysOp::Stop, load(&b3)], "trap; play; stop in the pause; trap"),
        };
        out.push((SysCase { tape, ops, fastload: true }, name));
    }
    out
}

fn report_sys_failure(rep: &mut Report, c: &SysCase, d: Dis) {
    if rep.has_key(&d.key) {
        rep.count("repeat_violations", d.key.clone());
        return;
    }
    rep.violation(Violation {
        kind: d.kind,
        key: d.key.clone(),
        what: format!("{} [case: {}]", d.what, truncate(&sys_text(c), 300)),
        correspondence: "corr.C11.rom (real ROM LD-BYTES on the playing tape vs Spec.ldBytes / fast load)".into(),
        case: J::obj(vec![("text", J::s(sys_text(c)))]),
        implementation: d.implementation.clone(),
        expected: d.expected.clone(),
    });
}

// ---------------------------------------------------------------- system level: EAR under arbitrary code

/// What the CPU executes while the tape plays (the property: "whatever instructions the CPU is executing").
pub const PROGRAMS: [&str; 9] = [
    "DI:HALT",
    "EI:HALT IM1 (ROM handler)",
    "EI:HALT IM2",
    "LDIR 64K",
    "OTIR to port FE",
    "JR $",
    "DJNZ/INC/JP loop",
    "random instruction stream, DI",
    "random instruction stream, EI IM1",
];

#[derive(Clone, Debug, PartialEq)]
pub struct EarCase {
    pub m128: bool,
    pub prog: usize,
    /// where the program runs: 0x8000 (uncontended on both machines) or 0x6000 (contended)
    pub at: u16,
    pub pseed: u32,
    pub tape: Vec<u8>,
}

pub fn ear_text(c: &EarCase) -> String {
    format!(
        "ear m128={} prog={} at={:04x} pseed={:x} tape={}",
        if c.m128 { 1 } else { 0 },
        c.prog,
        c.at,
        c.pseed,
        if c.tape.is_empty() { "-".to_string() } else { hex(&c.tape) }
    )
}

pub fn parse_ear(s: &str) -> EarCase {
    let mut c = EarCase { m128: false, prog: 0, at: 0x8000, pseed: 0, tape: vec![] };
    for kv in s.split_whitespace() {
        if kv == "m128=1" {
            c.m128 = true;
        }
        if let Some(v) = kv.strip_prefix("prog=") {
            c.prog = v.parse().unwrap_or(0);
        }
        if let Some(v) = kv.strip_prefix("at=") {
            c.at = u16::from_str_radix(v, 16).unwrap_or(0x8000);
        }
        if let Some(v) = kv.strip_prefix("pseed=") {
            c.pseed = u32::from_str_radix(v, 16).unwrap_or(0);
        }
        if let Some(v) = kv.strip_prefix("tape=") {
            if v != "-" {
                c.tape = unhex(v);
            }
        }
    }
    c
}

/// A stream of instructions without jumps, stores outside the scratch page, HALT or stack imbalance.
fn random_stream(rng: &mut Rng, n: usize) -> Vec<u8> {
    let mut p = vec![];
    for _ in 0..n {
        match rng.below(16) {
            0 => p.push(0x00),
            1 | 2 => {
                // LD r,r' / LD r,(HL) / LD (HL),r   (0x76 = HALT excluded)
                let mut op = 0x40 + rng.below(0x40) as u8;
                if op == 0x76 {
                    op = 0x7E;
                }
                // keep H and L (the scratch pointer) intact
                if (op >> 3) & 7 == 4 || (op >> 3) & 7 == 5 {
                    op = 0x78 | (op & 7);
                    if op == 0x7E - 8 {
                        op = 0x7E;
                    }
                }
                p.push(op);
            }
            3 | 4 => p.push(0x80 + rng.below(0x40) as u8), // ALU A,r / A,(HL)
            5 => p.push(*rng.pick(&[0x04u8, 0x05, 0x0C, 0x0D, 0x14, 0x15, 0x1C, 0x1D, 0x3C, 0x3D, 0x34, 0x35])),
            6 => p.push(*rng.pick(&[0x07u8, 0x0F, 0x17, 0x1F, 0x27, 0x2F, 0x37, 0x3F, 0x08, 0xD9])),
            7 => p.extend_from_slice(&[0xC5, 0xC1]), // PUSH BC ; POP BC
            8 => {
                // rotates, BIT/RES/SET on registers and (HL); H and L (the scratch pointer) are left alone
                let mut op = rng.u8();
                if op & 7 == 4 || op & 7 == 5 {
                    op &= 0xF8;
                }
                p.extend_from_slice(&[0xCB, op]);
            }
            9 => p.extend_from_slice(&[*rng.pick(&[0xDDu8, 0xFD]), 0x46 + 8 * rng.below(4) as u8, rng.below(0x40) as u8]), // LD r,(IX/IY+d)
            10 => p.extend_from_slice(&[0xDB, 0xFE]), // IN A,(FE)
            11 => p.extend_from_slice(&[0xD3, 0xFE]), // OUT (FE),A
            12 => p.extend_from_slice(&[0xED, *rng.pick(&[0x44u8, 0x5F, 0x57, 0x6F, 0x67])]), // NEG, LD A,R, LD A,I, RLD, RRD
            13 => p.extend_from_slice(&[0x3E, rng.u8()]),
            14 => p.extend_from_slice(&[0x01, rng.u8(), rng.u8()]), // LD BC,nn
            _ => p.extend_from_slice(&[0xED, 0xA0, 0x2B, 0x1B]), // LDI ; DEC HL ; DEC DE
        }
    }
    p
}

/// The machine code of program `prog` placed at `at`.
fn program_bytes(c: &EarCase) -> Vec<u8> {
    let at = c.at;
    let jp_start = [0xC3, (at & 0xFF) as u8, (at >> 8) as u8];
    match c.prog {
        0 => vec![0xF3, 0x76],
        1 => vec![0xED, 0x56, 0xFB, 0x76, 0x18, 0xFD],
        2 => vec![0xED, 0x5E, 0x3E, 0xBE, 0xED, 0x47, 0xFB, 0x76, 0x18, 0xFD],
        3 => {
            // source in contended screen memory when the code itself is contended
            let src: u16 = if at < 0x8000 { 0x4000 } else { 0x9000 };
            let mut p = vec![0x21, (src & 0xFF) as u8, (src >> 8) as u8, 0x11, 0x00, 0xA0, 0x01, 0x00, 0x00, 0xED, 0xB0];
            p.extend_from_slice(&jp_start);
            p
        }
        4 => {
            let mut p = vec![0x21, 0x00, 0x90, 0x01, 0xFE, 0x00, 0xED, 0xB3];
            p.extend_from_slice(&jp_start);
            p
        }
        5 => vec![0x18, 0xFE],
        6 => {
            let mut p = vec![0x10, 0xFE, 0x3C];
            p.extend_from_slice(&jp_start);
            p
        }
        _ => {
            let mut r = Rng::new(c.pseed as u64 ^ 0xEA7);
            let mut p = if c.prog == 8 { vec![0xED, 0x56, 0xFB] } else { vec![0xF3] };
            let body_at = at + p.len() as u16;
            p.extend(random_stream(&mut r, 120));
            p.extend_from_slice(&[0xC3, (body_at & 0xFF) as u8, (body_at >> 8) as u8]);
            p
        }
    }
}

#[derive(Clone, Debug, Default)]
pub struct EarObs {
    pub status: String,
    /// every EAR edge: seen low/high at `a`, the other level at `b` (T-states since play)
    pub edges: Vec<(u64, u64, bool)>,
    pub last_t: u64,
    pub steps: u64,
    pub max_step: u64,
    pub halted_steps: u64,
}

/// Plays `tape` on a real machine while the CPU runs the program; EAR (bit 6 of port 0xFFFE) is
/// sampled after every emulated instruction. Runs until `until_t` T-states have passed.
pub fn ear_observe(c: &EarCase, until_t: u64) -> EarObs {
    let mut cfg = Cfg::new(c.m128);
    cfg.rom = true;
    let mut e = emu(&cfg);
    if c.m128 {
        e.verif_write_io(0x7FFD, 0x10);
    }
    let frame_len: u64 = if c.m128 { 70908 } else { 69888 };
    for (i, b) in program_bytes(c).iter().enumerate() {
        e.verif_write_mem(c.at.wrapping_add(i as u16), *b, 0);
    }
    // IM 2: 257-byte vector table at 0xBE00 pointing to 0xBFBF: EI ; RETI
    for i in 0..=256u16 {
        e.verif_write_mem(0xBE00 + i, 0xBF, 0);
    }
    for (i, b) in [0xFBu8, 0xED, 0x4D].iter().enumerate() {
        e.verif_write_mem(0xBFBF + i as u16, *b, 0);
    }
    {
        let cpu = e.verif_cpu();
        cpu.regs.set_pc(c.at);
        cpu.regs.set_sp(0xFF00);
        cpu.regs.set_hl(if c.at < 0x8000 { 0x5000 } else { 0x9800 });
        cpu.regs.set_de(0xA800);
        cpu.regs.set_reg_16(RegName16::IX, if c.at < 0x8000 { 0x5080 } else { 0x9880 });
        cpu.regs.set_reg_16(RegName16::IY, 0x5C3A);
        cpu.regs.set_iff1(false);
        cpu.regs.set_iff2(false);
        cpu.halted = false;
    }
    let mut d = Dbg::default();
    d.break_all = true;
    e.set_debug_interface(d);
    let _ = e.load_tape(rustzx_core::host::Tape::Tap(VAsset::new(c.tape.clone())));
    // time base: frames completed * frame length + position in the frame; emulate_frames resets the
    // frame counter on entry, so completed frames are banked before every call
    let mut bank: u64 = 0;
    let now = |e: &Emu, bank: u64| bank + e.verif_frames_count() as u64 * frame_len + e.verif_frame_clocks() as u64;
    let t0 = now(&e, bank);
    e.play_tape();
    let mut obs = EarObs { status: "ok".into(), ..Default::default() };
    // the deck starts with EAR low; the very first sample is taken like all the others
    let mut level = false;
    let mut t_prev: u64 = 0;
    {
        let l = e.verif_read_io(0xFFFE) & 0x40 != 0;
        let t = now(&e, bank) - t0;
        if l != level {
            obs.edges.push((t_prev, t, l));
            level = l;
        }
        t_prev = t;
    }
    while t_prev < until_t {
        bank += e.verif_frames_count() as u64 * frame_len;
        let before = now(&e, bank) - e.verif_frames_count() as u64 * frame_len; // the counter is reset on entry
        let halted = e.verif_cpu().is_halted();
        let r = catch_unwind(AssertUnwindSafe(|| e.emulate_frames(std::time::Duration::from_secs(3600))));
        match r {
            Err(_) => {
                obs.status = "panic".into();
                break;
            }
            Ok(Err(err)) => {
                obs.status = c10::err_name(&format!("{:?}", err));
                break;
            }
            Ok(Ok(_)) => {}
        }
        let after = now(&e, bank);
        obs.steps += 1;
        if halted {
            obs.halted_steps += 1;
        }
        obs.max_step = obs.max_step.max(after - before);
        let l = e.verif_read_io(0xFFFE) & 0x40 != 0;
        let t = now(&e, bank) - t0;
        if l != level {
            obs.edges.push((t_prev, t, l));
            level = l;
        }
        t_prev = t;
    }
    obs.last_t = t_prev;
    obs
}

/// The sampled waveform against the spec (widened by the sampling resolution, `Spec.pulseOkWide`).
pub fn run_ear_case(model: &mut Model, c: &EarCase, mut rep: Option<&mut Report>) -> Option<Dis> {
    let (blocks, _) = split(&c.tape);
    let total: u64 = blocks.iter().map(|b| nominal_t(b)).sum();
    // to the end of the last block's data, a little into its pause
    let until = total.saturating_sub(3_500_000) + 33 * (blocks.iter().map(|b| 8100 + 16 * b.len() as u64).sum::<u64>()) + 160_000;
    let obs = ear_observe(c, until);
    let a0 = model.ask(&format!("tape {}", if c.tape.is_empty() { "-".to_string() } else { hex(&c.tape) }));
    assert!(a0.starts_with("ok"));
    let mut line = format!("adjwide {:x}", obs.last_t);
    for (a, b, l) in &obs.edges {
        line.push_str(&format!(" {:x}:{:x}:{}", a, b, if *l { 1 } else { 0 }));
    }
    let verdict = model.ask(&line);
    if let Some(r) = rep.as_deref_mut() {
        r.evaluations += obs.edges.len() as u64 + 1;
        r.count_n("ear_layer_edges", PROGRAMS[c.prog.min(8)], obs.edges.len() as u64);
        r.count_n("ear_layer_steps", if obs.halted_steps * 2 > obs.steps { "CPU halted" } else { "CPU running" }, obs.steps);
        r.count("ear_layer_verdict", verdict.split(':').next().unwrap_or("?").to_string());
        r.class(format!("ear prog {} {} at {:04x} {}", c.prog, if c.m128 { "128K" } else { "48K" }, c.at, blocks.iter().map(|b| block_class(b)).collect::<Vec<_>>().join(",")));
        let m = r.extra.iter().position(|(k, _)| k == "ear_max_step_t");
        let cur = match m { Some(i) => if let J::I(v) = r.extra[i].1 { v } else { 0 }, None => 0 };
        let v = cur.max(obs.max_step as i64);
        match m { Some(i) => r.extra[i].1 = J::I(v), None => r.extra.push(("ear_max_step_t".into(), J::I(v))) }
    }
    if obs.status != "ok" {
        return Some(Dis {
            kind: Kind::ModelMismatch,
            key: format!("C11/ear/{}", obs.status),
            what: format!("the machine failed while the tape was playing under program '{}': {}", PROGRAMS[c.prog.min(8)], obs.status),
            implementation: obs.status.clone(),
            expected: "ok".into(),
        });
    }
    if let Some(v) = verdict.strip_prefix("violates:") {
        let class = v.split(':').last().unwrap_or(v).to_string();
        let blk = v.split(':').next().unwrap_or("");
        // for the message: how much waveform arrived in how much time
        let first = obs.edges.first().map(|e| e.1).unwrap_or(0);
        let last = obs.edges.last().map(|e| e.0).unwrap_or(0);
        let pilot = if blocks.first().map(|b| b[0] == 0).unwrap_or(false) { 8063 } else { 3223 };
        let seen = obs.edges.len().saturating_sub(1) as u64;
        let nominal_seen = if seen <= pilot { format!("{} T nominal", seen * 2168) } else { format!("more than {} T nominal", pilot * 2168) };
        return Some(Dis {
            kind: Kind::SpecViolated,
            key: format!("C11/ear/{}", class),
            what: format!(
                "EAR sampled through the real machine while the CPU runs '{}' ({}, code at {:04x}) is not the standard waveform: {} {} ({} pulses, {}, were seen between T={} and T={}; largest single emulation step {} T)",
                PROGRAMS[c.prog.min(8)], if c.m128 { "128K" } else { "48K" }, c.at, blk, class, seen, nominal_seen, first, last, obs.max_step
            ),
            implementation: format!("{} edges in {} T, max step {} T", obs.edges.len(), obs.last_t, obs.max_step),
            expected: "every pulse within nominal..nominal+32 T (widened by the sampling interval), pilot count by flag byte".into(),
        });
    }
    // The theorems assume that the tape is fed in steps of at most 16 T. One emulated instruction is
    // many such steps, but an instruction that takes longer than the shortest pulse can only come from
    // time being passed in one piece: the waveform could then lose edges without this layer resolving them.
    if obs.max_step > 512 {
        return Some(Dis {
            kind: Kind::ModelMismatch,
            key: "C11/ear/step-granularity".into(),
            what: format!(
                "one emulation step under '{}' lasted {} T-states: the machine no longer advances the tape in bus-wait steps of at most 16 T \
(hypothesis of timer_lemma/waveform); no pulse outside tolerance was resolved",
                PROGRAMS[c.prog.min(8)], obs.max_step
            ),
            implementation: format!("max step {} T", obs.max_step),
            expected: "every emulation step well below the shortest pulse (667 T)".into(),
        });
    }
    None
}

fn report_ear_failure(model: &mut Model, rep: &mut Report, c: &EarCase, d: Dis) {
    if rep.has_key(&d.key) {
        rep.count("repeat_violations", d.key.clone());
        return;
    }
    // shrink: shorter tape (one block, one byte), simpler program, 48K
    let mut cur = c.clone();
    let mut cands: Vec<EarCase> = vec![];
    let (blocks, _) = split(&c.tape);
    if !blocks.is_empty() {
        let flag = blocks[0][0];
        cands.push(EarCase { tape: encode(&[vec![flag]]), ..c.clone() });
        cands.push(EarCase { tape: encode(&[vec![flag]]), m128: false, at: 0x8000, ..c.clone() });
        cands.push(EarCase { tape: encode(&[vec![0xFF]]), m128: false, at: 0x8000, ..c.clone() });
    }
    for cand in cands {
        if let Some(d2) = run_ear_case(model, &cand, None) {
            if d2.key == d.key {
                cur = cand;
            }
        }
    }
    let d2 = run_ear_case(model, &cur, None).unwrap_or(d);
    rep.violation(Violation {
        kind: d2.kind,
        key: d2.key.clone(),
        what: format!("{} [case: {}]", d2.what, truncate(&ear_text(&cur), 300)),
        correspondence: "corr.C11.ear (EAR bit of port 0xFE sampled per emulated instruction on a real Emulator vs Spec.nominal, tolerance widened by the sampling interval)".into(),
        case: J::obj(vec![("text", J::s(ear_text(&cur)))]),
        implementation: d2.implementation.clone(),
        expected: d2.expected.clone(),
    });
}

pub fn gen_ear_case(rng: &mut Rng, idx: u64) -> EarCase {
    let prog = (idx % 9) as usize;
    // short blocks: the pilot is what takes time (a flag-0x00 block takes 2.5 times longer: only under the
    // coarser-stepping programs in the quick tier)
    let long_ok = matches!(prog, 3 | 4 | 6);
    let flag = if long_ok && idx % 2 == 0 { 0x00 } else { *rng.pick(&[0xFFu8, 0xFF, 0x01, 0x80, 0xAA]) };
    let len = *rng.pick(&[1usize, 2, 3, 5, 19, 20]);
    let blocks = vec![make_block(rng, flag, len)];
    EarCase {
        m128: idx % 4 == 3,
        prog,
        at: if idx % 5 == 2 { 0x6000 } else { 0x8000 },
        pseed: rng.next() as u32,
        tape: encode(&blocks),
    }
}

pub fn run(o: &Opts) -> Report {
    let mut rep = Report::new("C11");
    rep.rule = "component level: TAP images of 1-2 non-empty blocks whose flag byte (00, ff, 01, 80, 7f, random) and total length (1, 2, 3, \
17-21, 127-130, 256-258 incl. all 256 byte values, 300, random) are chosen independently, played on the real Tap<VAsset> (short reads varied) \
under 1-3 consecutive step schedules (uniform 1..16, constant, mostly 1..4, alternating 16/1, instruction-like) until past the end of the \
tape; every EAR edge time and the stop time compared exactly with the Lean model and the pulse list adjudicated by the waveform spec (pilot \
count by flag byte, 2168/667/735/855/1710 within +0..32 T, pause 3.0-4.5 MT); malformed images (empty block, truncated block) compared with \
the model only. System level 1: the real 48K ROM LD-BYTES loading the playing tape in real time (1-2 small blocks, flags and lengths \
independent, LOAD/VERIFY, matching/short/zero/long DE, wrong flag, bad checksum) compared with Spec.ldBytes and with fast loading. System \
level 2: the tape played on a real Emulator (48K/128K) while the CPU executes DI:HALT, EI:HALT with IM1 and IM2, LDIR, OTIR, tight loops and \
random instruction streams from uncontended or contended memory; EAR sampled after every emulated instruction, every pulse and every running \
total checked against nominal with the tolerance widened by exactly the sampling interval, pilot count by flag byte, no emulation step \
longer than 512 T. distinct/non-trivial = distinct (schedule kind, flag class, length class) of component runs plus distinct ROM load \
classes plus distinct (program, machine, code address, block class) of EAR runs"
        .into();
    let mut model = Model::spawn(&o.model, "C11");
    let mut m10 = Model::spawn(&o.model, "C10");
    let fixed = detect_variant();
    rep.extra.push(("tree_variant".into(), J::s(if fixed { "stop/rewind repaired (C12-1 present)" } else { "code as found" })));

    if let Some(text) = &o.replay {
        rep.sample(J::s(truncate(text, 400)));
        if text.starts_with("ear") {
            let c = parse_ear(text);
            if let Some(d) = run_ear_case(&mut model, &c, Some(&mut rep)) {
                report_ear_failure(&mut model, &mut rep, &c, d);
            }
        } else if text.starts_with("system") {
            let c = parse_sys(text);
            if let Some(d) = run_sys_case(&mut m10, &c, &c.tape.clone(), "C11", Some(&mut rep)) {
                report_sys_failure(&mut rep, &c, d);
            }
        } else {
            let c = parse_case(text);
            if let Some(d) = run_case(&mut model, fixed, &c, Some(&mut rep)) {
                report_failure(&mut model, &mut rep, fixed, &c, d);
            }
        }
        return rep;
    }

    // 1. component level
    let mut rng = Rng::new(o.seed ^ 0x0C11);
    let ntapes = o.n(48, 2000);
    for idx in 0..ntapes {
        let mut r = rng.fork();
        let blocks = gen_blocks(&mut r, idx);
        let total: u64 = blocks.iter().map(|b| nominal_t(b)).sum();
        let mut cmds = vec![Cmd::Play];
        cmds.extend(gen_runs(&mut r, total));
        let c = Case { tape: encode(&blocks), chunk: *r.pick(&[0usize, 0, 1, 100]), cmds };
        for b in &blocks {
            rep.count("block_class", block_class(b));
        }
        for k in &c.cmds {
            if let Cmd::Run { kind, .. } = k {
                rep.count("schedule_kind", ["uniform 1..16", "constant", "mostly 1..4", "alternating 16/1", "instruction-like"][*kind as usize]);
                rep.class(format!("kind {} blocks {:?}", kind, blocks.iter().map(|b| block_class(b)).collect::<Vec<_>>()));
            }
        }
        if idx < 2 {
            rep.sample(J::s(truncate(&case_text(&c), 300)));
        }
        if let Some(d) = run_case(&mut model, fixed, &c, Some(&mut rep)) {
            rep.count("disagreeing_cases", format!("{:?} {}", d.kind, d.key));
            report_failure(&mut model, &mut rep, fixed, &c, d);
        }
    }
    // long blocks (more than 8192 bytes, beyond any 16-bit bit count): the real Tap under constant 16-T steps,
    // its edge list adjudicated by the waveform spec alone (the model is not run: tens of millions of steps)
    let long_lens: Vec<usize> = if o.thorough() { vec![8193, 8300, 16385, 40000] } else { vec![8300] };
    for (i, len) in long_lens.iter().enumerate() {
        let mut r = rng.fork();
        let block = make_block(&mut r, if i % 2 == 0 { 0xFF } else { 0x00 }, *len);
        let tape = encode(&[block.clone()]);
        let n = nominal_t(&block) / 16 + 400_000;
        let mut real = RealTap::new(&tape, 0);
        real.cmd(&Cmd::Play);
        let obs = real.cmd(&Cmd::Run { kind: 1, seed: 15, n });
        let _ = model.ask("variant 1");
        let _ = model.ask(&format!("tape {}", hex(&tape)));
        let verdict = model.ask(&format!(
            "adjudicate {}{}",
            real.stop_time.map(|t| format!("{:x}", t)).unwrap_or("-".into()),
            edges_text(&real.all_edges)
        ));
        rep.evaluations += real.all_edges.len() as u64;
        rep.count("block_class", "long block (> 8192 bytes), spec only");
        rep.count("spec_verdict", verdict.split(':').next().unwrap_or("?").to_string());
        rep.class(format!("long block {} bytes", len));
        let status = obs.map(|o| o.status).unwrap_or_default();
        if let Some(v) = verdict.strip_prefix("violates:") {
            let class = v.split(':').last().unwrap_or(v).to_string();
            rep.violation(Violation {
                kind: Kind::SpecViolated,
                key: format!("C11/waveform/long-block/{}", class),
                what: format!("a block of {} bytes played under 16-T steps: the EAR waveform is not the standard one: {} (run status {})", len, v, status),
                correspondence: "corr.C11.component (Tap::process_clocks edges vs Model.Tape; Spec.Tape adjudicating)".into(),
                case: J::obj(vec![("text", J::s(format!("longblock flag={:02x} len={} fill-seed={}", block[0], len, o.seed)))]),
                implementation: truncate(&edges_text(&real.all_edges), 200),
                expected: format!("standard waveform of the tape (Spec.acceptsBlock); verdict {}", truncate(&verdict, 200)),
            });
        }
    }
    // a tape longer than 2^32 T-states (20.5 minutes) played in one pass under constant 16-T steps: no pulse may be
    // shorter than nominal — measured at step granularity: two edges closer than 640 T, or further apart than
    // 2168 + 48 T outside the one-second pauses, contradict the waveform — and every pulse of every block is there
    {
        let mut r = rng.fork();
        let blocks: Vec<Vec<u8>> = (0..8).map(|_| make_block(&mut r, 0xFF, 27392)).collect();
        let tape = encode(&blocks);
        let expected_pulses: u64 = blocks.iter().map(|b| 3223 + 2 + 16 * b.len() as u64).sum();
        let mut a = VAsset::new(tape.clone());
        a.max_chunk = 0;
        if let Ok(mut tap) = Tap::from_asset(a) {
            tap.play();
            let mut now: u64 = 0;
            let mut last_edge: u64 = 0;
            let mut level = tap.current_bit();
            let mut edges: u64 = 0;
            let mut bad: Option<String> = None;
            let limit: u64 = (1u64 << 32) + 400_000_000;
            let res = catch_unwind(AssertUnwindSafe(|| {
                while now < limit && !tap.can_fast_load() {
                    if tap.process_clocks(16).is_err() {
                        break;
                    }
                    now += 16;
                    let l = tap.current_bit();
                    if l != level {
                        let d = now - last_edge;
                        if edges > 0 && bad.is_none() && (d < 640 || (d > 2168 + 48 && d < 3_400_000) || d > 3_600_000) {
                            bad = Some(format!("two edges {} T apart at T = {} (edge number {})", d, now, edges));
                        }
                        edges += 1;
                        last_edge = now;
                        level = l;
                    }
                }
            }));
            rep.evaluations += edges;
            rep.count("block_class", "tape longer than 2^32 T-states, spec only");
            rep.class("long tape 8 x 27392 bytes".to_string());
            if res.is_err() {
                bad = Some("process_clocks panicked".into());
            }
            if bad.is_none() && now >= limit && (edges + 16 < expected_pulses * limit / (limit + 1) && edges < expected_pulses - 2_000_000) {
                bad = Some(format!("only {} edges in {} T", edges, now));
            }
            if let Some(b) = bad {
                rep.violation(Violation {
                    kind: Kind::SpecViolated,
                    key: "C11/waveform/long-tape".into(),
                    what: format!("eight blocks of 27392 bytes played in one pass under 16-T steps: {}", b),
                    correspondence: "corr.C11.component (Tap::process_clocks edges; Spec.Tape pulse lengths adjudicating)".into(),
                    case: J::obj(vec![("text", J::s(format!("longtape seed={}", o.seed)))]),
                    implementation: b,
                    expected: "every pulse 667..2168 T (+32), pauses of about one second".into(),
                });
            }
        }
    }
    // malformed images: model only
    for (i, tape) in [vec![0u8, 0], vec![2, 0, 0xFF], vec![3, 0, 0xFF, 1, 0xFE, 0, 0, 2, 0, 0xFF, 0xFF], vec![0x90, 0, 0xFF, 1, 2, 3]].iter().enumerate() {
        let c = Case { tape: tape.clone(), chunk: 0, cmds: vec![Cmd::Play, Cmd::Run { kind: 0, seed: i as u32, n: 3_000_000 }] };
        rep.count("block_class", "malformed image");
        if let Some(d) = run_case(&mut model, fixed, &c, Some(&mut rep)) {
            report_failure(&mut model, &mut rep, fixed, &c, d);
        }
    }

    // 2. system level
    let mut rng = Rng::new(o.seed ^ 0x5C11);
    for idx in 0..o.n(16, 300) {
        let mut r = rng.fork();
        let c = gen_sys_case(&mut r, idx);
        if idx < 1 {
            rep.sample(J::s(truncate(&sys_text(&c), 300)));
        }
        rep.count("cases", "system (real ROM)");
        if let Some(d) = run_sys_case(&mut m10, &c, &c.tape.clone(), "C11", Some(&mut rep)) {
            report_sys_failure(&mut rep, &c, d);
        }
    }
    // 2b. the same tape served in turn by the fast-load trap (deck standing still) and by the ROM in real time
    let mut rng = Rng::new(o.seed ^ 0x5C1B);
    for (c, name) in mixed_cases(&mut rng, o.n(8, 120)) {
        rep.count("cases", format!("system (trap and real time mixed): {}", name));
        if let Some(d) = run_sys_case(&mut m10, &c, &c.tape.clone(), "C11", Some(&mut rep)) {
            report_sys_failure(&mut rep, &c, d);
        }
    }
    // 2c. a snapshot loaded while the deck plays (an SZX that puts the frame clock somewhere else): host operations
    // take no tape time, the pulse in progress keeps its length
    szx_during_play(o, &mut rep);
    // 3. system level: EAR under arbitrary code
    let mut rng = Rng::new(o.seed ^ 0xEA11);
    for idx in 0..o.n(27, 600) {
        let mut r = rng.fork();
        let c = gen_ear_case(&mut r, idx + (o.seed % 9));
        if idx < 1 {
            rep.sample(J::s(truncate(&ear_text(&c), 300)));
        }
        rep.count("cases", "system (EAR under arbitrary code)");
        if let Some(d) = run_ear_case(&mut model, &c, Some(&mut rep)) {
            rep.count("disagreeing_cases", format!("{:?} {}", d.kind, d.key));
            report_ear_failure(&mut model, &mut rep, &c, d);
        }
    }
    rep.extra.push(("model_requests".into(), J::I((model.requests + m10.requests) as i64)));
    rep
}

fn szx_during_play(o: &Opts, rep: &mut Report) {
    let mut rng = Rng::new(o.seed ^ 0x5211);
    for k in 0..o.n(12, 200) as usize {
        let m128 = k % 2 == 1;
        let l = if m128 { 70908u64 } else { 69888 };
        let mut e = emu(&Cfg::new(m128));
        let mut blk = vec![0x00u8; 19];
        blk[18] = blk.iter().fold(0, |a, b| a ^ b);
        let mut tap = vec![19u8, 0];
        tap.extend_from_slice(&blk);
        let _ = e.load_tape(rustzx_core::host::Tape::Tap(VAsset::new(tap)));
        e.play_tape();
        let stamp = |e: &Emu| e.verif_frames_count() as u64 * l + e.verif_frame_clocks() as u64;
        // emulated time as the sum of what every wait and every port read took (the load in between takes none)
        let mut t: u64 = 0;
        let load_at: u64 = 30_000 + rng.below(200_000);
        let target: u32 = match k % 3 { 0 => rng.below(2000) as u32, 1 => 20_000 + rng.below(40_000) as u32, _ => (l as u32) - 1 - rng.below(3000) as u32 };
        let mut loaded = false;
        let mut level = e.verif_read_io(0x7FFE) & 0x40;
        let mut last_edge: Option<u64> = None;
        let mut bad: Option<String> = None;
        while t < load_at + 400_000 && bad.is_none() {
            if !loaded && t >= load_at {
                let mut f = b"ZXST".to_vec();
                f.extend_from_slice(&[1, 4, if m128 { 2 } else { 1 }, 0]);
                f.extend_from_slice(b"SPCR");
                f.extend_from_slice(&8u32.to_le_bytes());
                f.extend_from_slice(&[0, 0, 0, 0, 0, 0, 0, 0]);
                f.extend_from_slice(b"Z80R");
                f.extend_from_slice(&37u32.to_le_bytes());
                let mut z = [0u8; 37];
                z[29..33].copy_from_slice(&target.to_le_bytes());
                f.extend_from_slice(&z);
                let _ = e.load_snapshot(rustzx_core::host::Snapshot::Szx(VAsset::new(f)));
                loaded = true;
            }
            let s0 = stamp(&e);
            e.verif_wait(9);
            let lv = e.verif_read_io(0x7FFE) & 0x40;
            let s1 = stamp(&e);
            t += if s1 >= s0 { s1 - s0 } else { 0 };
            if lv != level {
                if let Some(le) = last_edge {
                    let d = t - le;
                    // pilot pulses of 2168 T, seen through steps of 9 T plus a port read (13..25 T)
                    if !(2168 - 30..=2168 + 60).contains(&d) {
                        bad = Some(format!("two edges {} T apart around T = {} (snapshot loaded at {}, its frame clock {})", d, t, load_at, target));
                    }
                }
                last_edge = Some(t);
                level = lv;
            }
        }
        rep.eval();
        rep.class(format!("szx during play m128={} target-class={}", m128, k % 3));
        if let Some(b) = bad {
            rep.violation(Violation {
                kind: Kind::SpecViolated,
                key: "C11/waveform/snapshot-during-play".into(),
                what: format!("{}: pilot tone playing, an SZX snapshot is loaded: {}", if m128 { "128K" } else { "48K" }, b),
                correspondence: "corr.C11.component (the deck is fed the T-states that pass; a host operation passes none)".into(),
                case: J::obj(vec![("text", J::s(format!("szxplay seed={} k={}", o.seed, k)))]),
                implementation: b,
                expected: "every pilot pulse 2168 T (+32)".into(),
            });
            return;
        }
    }
}

/// false = stop()/rewind() as found, true = with proposed_fixes/C12-1.diff.
/// Probe: one-block tape, play, a little pilot, stop, stop, play. As found the second stop forgets
/// the position, play restarts at `Play`, which asks for the next block, finds none and stops the
/// deck; repaired, the pilot simply continues.
pub fn detect_variant() -> bool {
    let mut t = RealTap::new(&[3, 0, 0xFF, 1, 0xFE], 0);
    t.cmd(&Cmd::Play);
    t.cmd(&Cmd::Run { kind: 1, seed: 15, n: 1000 });
    t.cmd(&Cmd::Stop);
    t.cmd(&Cmd::Stop);
    t.cmd(&Cmd::Play);
    let o = t.cmd(&Cmd::Run { kind: 1, seed: 15, n: 400 }).unwrap();
    !o.stopped
}
