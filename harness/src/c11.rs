//! C11 — a playing tape presents each TAP block as the standard loader waveform.
//! Component level: the real `Tap` (hook `verif_tape`) is driven with step schedules of 1..16 T and
//! the times of its EAR edges are compared exactly with the Lean model and, through the waveform
//! spec, with the standard pulse sequence. System level: the real 48K ROM loads the playing tape in
//! real time and the result is compared with fast loading and with the LD-BYTES spec.
use crate::c10::{self, Fill, Req};
use crate::host::*;
use crate::util::*;
use rustzx_core::zx::verif_tape::{Tap, TapeImpl};
use rustzx_z80::RegName16;
use std::panic::{catch_unwind, AssertUnwindSafe};

// ---------------------------------------------------------------- schedules and commands

/// Step `i` of schedule `kind` (mirrors `nextStep` in lean/Driver/C11.lean).
pub fn next_step(kind: u8, seed: u32, i: u64, rng: &mut Rng) -> usize {
    match kind {
        5 => seed as usize,
        1 => (seed % 16 + 1) as usize,
        3 => {
            if i % 2 == 0 {
                16
            } else {
                1
            }
        }
        2 => {
            let x = rng.next();
            if x % 16 == 0 {
                16
            } else {
                1 + ((x >> 8) % 4) as usize
            }
        }
        4 => {
            let x = rng.next();
            [3usize, 4, 4, 4, 5, 6, 7, 8, 3, 1][(x % 10) as usize]
        }
        _ => {
            let x = rng.next();
            1 + (x % 16) as usize
        }
    }
}

#[derive(Clone, Debug, PartialEq)]
pub enum Cmd {
    Play,
    Stop,
    Rewind,
    Run { kind: u8, seed: u32, n: u64 },
}

impl Cmd {
    pub fn line(&self) -> String {
        match self {
            Cmd::Play => "cmd play".into(),
            Cmd::Stop => "cmd stop".into(),
            Cmd::Rewind => "cmd rewind".into(),
            Cmd::Run { kind, seed, n } => format!("run {:x} {:x} {:x}", kind, seed, n),
        }
    }
    pub fn parse(s: &str) -> Option<Cmd> {
        let t: Vec<&str> = s.split_whitespace().collect();
        match t.as_slice() {
            ["cmd", "play"] => Some(Cmd::Play),
            ["cmd", "stop"] => Some(Cmd::Stop),
            ["cmd", "rewind"] => Some(Cmd::Rewind),
            ["run", k, s, n] => Some(Cmd::Run {
                kind: u8::from_str_radix(k, 16).ok()?,
                seed: u32::from_str_radix(s, 16).ok()?,
                n: u64::from_str_radix(n, 16).ok()?,
            }),
            _ => None,
        }
    }
}

/// The real pulse generator plus the harness' clock.
pub struct RealTap {
    pub tap: Tap<VAsset>,
    pub now: u64,
    pub stop_time: Option<u64>,
    pub all_edges: Vec<(u64, bool)>,
}

#[derive(Clone, Debug, PartialEq)]
pub struct RunObs {
    pub status: String,
    pub now: u64,
    pub stopped: bool,
    pub stop_time: Option<u64>,
    pub edges: Vec<(u64, bool)>,
}

impl RunObs {
    pub fn text(&self) -> String {
        let mut s = format!(
            "{} {:x} {} {} E",
            self.status,
            self.now,
            if self.stopped { 1 } else { 0 },
            self.stop_time.map(|t| format!("{:x}", t)).unwrap_or("-".into())
        );
        for (t, l) in &self.edges {
            s.push_str(&format!(" {:x}:{}", t, if *l { 1 } else { 0 }));
        }
        s
    }
}

impl RealTap {
    pub fn new(tape: &[u8], chunk: usize) -> RealTap {
        let mut a = VAsset::new(tape.to_vec());
        a.max_chunk = chunk;
        let tap = match Tap::from_asset(a) {
            Ok(t) => t,
            Err(_) => panic!("Tap::from_asset failed"),
        };
        RealTap { tap, now: 0, stop_time: None, all_edges: vec![] }
    }

    /// Applies a command; `Run` returns what was observed.
    pub fn cmd(&mut self, c: &Cmd) -> Option<RunObs> {
        match c {
            Cmd::Play => {
                self.tap.play();
                None
            }
            Cmd::Stop => {
                self.tap.stop();
                None
            }
            Cmd::Rewind => {
                let _ = self.tap.rewind();
                None
            }
            Cmd::Run { kind, seed, n } => {
                let mut rng = Rng::new(*seed as u64);
                let mut edges = vec![];
                let mut status = "ok".to_string();
                for i in 0..*n {
                    let c = next_step(*kind, *seed, i, &mut rng);
                    let was_running = !self.tap.can_fast_load();
                    let lvl = self.tap.current_bit();
                    let r = catch_unwind(AssertUnwindSafe(|| self.tap.process_clocks(c)));
                    self.now += c as u64;
                    let l2 = self.tap.current_bit();
                    if l2 != lvl {
                        edges.push((self.now, l2));
                    }
                    if was_running && self.tap.can_fast_load() && self.stop_time.is_none() {
                        self.stop_time = Some(self.now);
                    }
                    match r {
                        Err(_) => {
                            status = "panic".into();
                            break;
                        }
                        Ok(Err(e)) => {
                            status = c10::err_name(&format!("{:?}", e));
                            break;
                        }
                        Ok(Ok(())) => {}
                    }
                }
                self.all_edges.extend_from_slice(&edges);
                Some(RunObs {
                    status,
                    now: self.now,
                    stopped: self.tap.can_fast_load(),
                    stop_time: self.stop_time,
                    edges,
                })
            }
        }
    }
}

pub fn edges_text(edges: &[(u64, bool)]) -> String {
    let mut s = String::new();
    for (t, l) in edges {
        s.push_str(&format!(" {:x}:{}", t, if *l { 1 } else { 0 }));
    }
    s
}

#[derive(Clone, Debug, PartialEq)]
pub struct Case {
    pub tape: Vec<u8>,
    pub chunk: usize,
    pub cmds: Vec<Cmd>,
}

pub fn case_text(c: &Case) -> String {
    let mut s = format!(
        "component chunk={} tape={}",
        c.chunk,
        if c.tape.is_empty() { "-".to_string() } else { hex(&c.tape) }
    );
    for k in &c.cmds {
        s.push_str(" ; ");
        s.push_str(&k.line());
    }
    s
}

pub fn parse_case(s: &str) -> Case {
    let mut parts = s.split(';').map(|x| x.trim());
    let head = parts.next().unwrap_or("");
    let mut tape = vec![];
    let mut chunk = 0;
    for kv in head.split_whitespace() {
        if let Some(h) = kv.strip_prefix("tape=") {
            if h != "-" {
                tape = unhex(h);
            }
        }
        if let Some(h) = kv.strip_prefix("chunk=") {
            chunk = h.parse().unwrap_or(0);
        }
    }
    Case { tape, chunk, cmds: parts.filter_map(Cmd::parse).collect() }
}

#[derive(Clone, Debug)]
pub struct Dis {
    pub kind: Kind,
    pub key: String,
    pub what: String,
    pub implementation: String,
    pub expected: String,
}

fn first_diff(a: &[(u64, bool)], b: &[(u64, bool)]) -> String {
    let k = a.iter().zip(b.iter()).position(|(x, y)| x != y).unwrap_or(a.len().min(b.len()));
    let show = |v: &[(u64, bool)]| {
        v.get(k)
            .map(|(t, l)| format!("edge #{} at T={} to level {}", k, t, if *l { 1 } else { 0 }))
            .unwrap_or(format!("no edge #{}", k))
    };
    format!("{} vs {}", show(a), show(b))
}

fn parse_edges(t: &[&str]) -> Vec<(u64, bool)> {
    t.iter()
        .filter_map(|e| {
            let (a, b) = e.split_once(':')?;
            Some((u64::from_str_radix(a, 16).ok()?, b == "1"))
        })
        .collect()
}

/// Component-level case against the `C11` driver: edges exactly as the model, waveform as the spec.
pub fn run_case(model: &mut Model, fixed: bool, c: &Case, mut rep: Option<&mut Report>) -> Option<Dis> {
    let mut real = RealTap::new(&c.tape, c.chunk);
    let mut lines = vec![
        format!("variant {}", if fixed { 1 } else { 0 }),
        format!("tape {}", if c.tape.is_empty() { "-".to_string() } else { hex(&c.tape) }),
    ];
    let mut obs = vec![];
    for k in &c.cmds {
        lines.push(k.line());
        obs.push(real.cmd(k));
    }
    lines.push("verdict".into());
    let answers = model.ask_many(&lines);
    let mut mismatch: Option<(String, String, String)> = None;
    for (i, o) in obs.iter().enumerate() {
        let ans = &answers[i + 2];
        if let Some(o) = o {
            if let Some(r) = rep.as_deref_mut() {
                // every edge time is one exact comparison, plus status/stop time of the run
                r.evaluations += o.edges.len() as u64 + 1;
                r.count_n("edges_compared", "edges", o.edges.len() as u64);
            }
            let got = o.text();
            if &got != ans && mismatch.is_none() {
                let t: Vec<&str> = ans.split(' ').collect();
                let medges = if t.len() > 5 { parse_edges(&t[5..]) } else { vec![] };
                let head_m = t.iter().take(4).cloned().collect::<Vec<_>>().join(" ");
                let head_i = got.split(' ').take(4).collect::<Vec<_>>().join(" ");
                let what = if medges != o.edges {
                    format!("command {} ({}): {}", i, c.cmds[i].line(), first_diff(&o.edges, &medges))
                } else {
                    format!("command {} ({}): status/time/stop '{}' vs '{}'", i, c.cmds[i].line(), head_i, head_m)
                };
                mismatch = Some((what, truncate(&got, 200), truncate(ans, 200)));
            }
        } else {
            assert_eq!(ans, "ok", "driver rejected {}", lines[i + 2]);
        }
    }
    // the waveform spec adjudicates the implementation's edges
    let verdict_model = answers.last().unwrap().clone();
    let verdict = if mismatch.is_some() {
        model.ask(&format!(
            "adjudicate {}{}",
            real.stop_time.map(|t| format!("{:x}", t)).unwrap_or("-".into()),
            edges_text(&real.all_edges)
        ))
    } else {
        verdict_model
    };
    if let Some(r) = rep.as_deref_mut() {
        r.count("spec_verdict", verdict.split(':').next().unwrap_or("?").to_string());
    }
    if let Some(v) = verdict.strip_prefix("violates:") {
        let class = v.split(':').last().unwrap_or(v).to_string();
        return Some(Dis {
            kind: Kind::SpecViolated,
            key: format!("C11/waveform/{}", class),
            what: format!("the EAR waveform is not the standard one: {}", v),
            implementation: mismatch.as_ref().map(|m| m.1.clone()).unwrap_or(truncate(&edges_text(&real.all_edges), 200)),
            expected: format!("standard waveform of the tape (Spec.acceptsBlock); verdict {}", verdict),
        });
    }
    if let Some((what, got, want)) = mismatch {
        return Some(Dis {
            kind: Kind::ModelMismatch,
            key: "C11/model/edges".into(),
            what,
            implementation: got,
            expected: want,
        });
    }
    None
}

pub fn truncate(s: &str, n: usize) -> String {
    c10::truncate_text(s, n)
}

// ---------------------------------------------------------------- generation

pub fn encode(blocks: &[Vec<u8>]) -> Vec<u8> {
    let mut t = vec![];
    for b in blocks {
        t.push((b.len() & 0xFF) as u8);
        t.push((b.len() >> 8) as u8);
        t.extend_from_slice(b);
    }
    t
}

/// Nominal duration of a block in T-states (for sizing runs).
pub fn nominal_t(b: &[u8]) -> u64 {
    if b.is_empty() {
        return 0;
    }
    let pilot = if b[0] == 0 { 8063 } else { 3223 };
    let mut t = pilot * 2168 + 667 + 735 + 3_500_000;
    for v in b {
        let ones = v.count_ones() as u64;
        t += ones * 2 * 1710 + (8 - ones) * 2 * 855;
    }
    t
}

pub fn gen_blocks(rng: &mut Rng, idx: u64) -> Vec<Vec<u8>> {
    // every few tapes: a block with all 256 byte values, a block crossing the 128-byte buffer, a header block
    let mut blocks = vec![];
    let n = if rng.chance(1, 3) { 2 } else { 1 };
    for j in 0..n {
        let mut b = match (idx + j) % 6 {
            0 => {
                let mut v: Vec<u8> = (0..=255u8).collect();
                // random rotation so that every value meets every buffer position over time
                let r = rng.below(256) as usize;
                v.rotate_left(r);
                let mut b = vec![0xFF];
                b.extend(v);
                b
            }
            1 => {
                let len = *rng.pick(&[127usize, 128, 129, 130, 255, 256, 257]);
                let mut b = vec![0xFFu8];
                b.extend(rng.bytes(len - 1));
                b
            }
            2 => {
                // header-like block: flag 0, long pilot
                let mut b = vec![0x00u8];
                b.extend(rng.bytes(17));
                b
            }
            _ => {
                let len = rng.range(1, 24) as usize;
                let mut b = vec![if rng.bool() { 0xFF } else { rng.u8() | 1 }];
                b.extend(rng.bytes(len - 1));
                b
            }
        };
        let x = b.iter().fold(0u8, |a, v| a ^ v);
        b.push(x);
        blocks.push(b);
    }
    blocks
}

pub fn gen_runs(rng: &mut Rng, total_t: u64) -> Vec<Cmd> {
    // split the tape's duration (plus a margin past the end) into 1-3 runs with different schedules
    let mut cmds = vec![];
    let parts = rng.range(1, 3);
    let mut left = total_t + 200_000;
    for p in 0..parts {
        let kind = rng.below(5) as u8;
        let seed = rng.next() as u32;
        let avg: f64 = match kind {
            1 => (seed % 16 + 1) as f64,
            2 => 3.3,
            3 => 8.5,
            4 => 4.5,
            _ => 8.5,
        };
        let t = if p + 1 == parts { left } else { rng.range(left / 8, left / 2) };
        let n = ((t as f64) / avg * 1.15) as u64 + 64;
        cmds.push(Cmd::Run { kind, seed, n });
        left = left.saturating_sub(t);
    }
    cmds
}

fn shrink(model: &mut Model, fixed: bool, c: &Case, key: &str) -> Case {
    let mut cur = c.clone();
    let mut budget = 40;
    loop {
        let mut cands: Vec<Case> = vec![];
        let (blocks, tail) = split(&cur.tape);
        for i in 0..blocks.len() {
            if blocks.len() > 1 {
                let mut b = blocks.clone();
                b.remove(i);
                cands.push(Case { tape: [encode(&b), tail.clone()].concat(), ..cur.clone() });
            }
            for newlen in [1usize, 2, blocks[i].len() / 2] {
                if newlen >= 1 && newlen < blocks[i].len() {
                    let mut b = blocks.clone();
                    b[i].truncate(newlen);
                    cands.push(Case { tape: [encode(&b), tail.clone()].concat(), ..cur.clone() });
                }
            }
            if !blocks[i].is_empty() && (blocks[i].iter().skip(1).any(|v| *v != 0) || blocks[i][0] != 0xFF) {
                let mut b = blocks.clone();
                for v in b[i].iter_mut() {
                    *v = 0;
                }
                b[i][0] = 0xFF;
                cands.push(Case { tape: [encode(&b), tail.clone()].concat(), ..cur.clone() });
            }
        }
        if cur.cmds.len() > 2 {
            // merge all runs into one constant-step run
            let total: u64 = cur.cmds.iter().map(|k| if let Cmd::Run { n, .. } = k { *n } else { 0 }).sum();
            let mut cmds: Vec<Cmd> = cur.cmds.iter().filter(|k| !matches!(k, Cmd::Run { .. })).cloned().collect();
            cmds.push(Cmd::Run { kind: 1, seed: 7, n: total * 2 });
            cands.push(Case { cmds, ..cur.clone() });
        }
        if cur.chunk != 0 {
            cands.push(Case { chunk: 0, ..cur.clone() });
        }
        let mut changed = false;
        for cand in cands {
            if budget == 0 {
                return cur;
            }
            budget -= 1;
            if let Some(d) = run_case(model, fixed, &cand, None) {
                if d.key == key {
                    cur = cand;
                    changed = true;
                    break;
                }
            }
        }
        if !changed {
            return cur;
        }
    }
}

pub fn split(tape: &[u8]) -> (Vec<Vec<u8>>, Vec<u8>) {
    let mut p = 0;
    let mut blocks = vec![];
    while p + 2 <= tape.len() {
        let n = tape[p] as usize + 256 * tape[p + 1] as usize;
        if p + 2 + n > tape.len() {
            break;
        }
        blocks.push(tape[p + 2..p + 2 + n].to_vec());
        p += 2 + n;
    }
    (blocks, tape[p..].to_vec())
}

fn report_failure(model: &mut Model, rep: &mut Report, fixed: bool, c: &Case, d: Dis) {
    if rep.has_key(&d.key) {
        rep.count("repeat_violations", d.key.clone());
        return;
    }
    let small = shrink(model, fixed, c, &d.key);
    let d2 = run_case(model, fixed, &small, None).unwrap_or(d);
    rep.violation(Violation {
        kind: d2.kind,
        key: d2.key.clone(),
        what: format!("{} [case: {}]", d2.what, truncate(&case_text(&small), 300)),
        correspondence: "corr.C11.edges (Model.Tape.processClocks/fire vs Tap::process_clocks/current_bit)".into(),
        case: J::obj(vec![("text", J::s(case_text(&small)))]),
        implementation: d2.implementation.clone(),
        expected: d2.expected.clone(),
    });
}

// ---------------------------------------------------------------- system level: the real ROM loader

#[derive(Clone, Debug, PartialEq)]
pub enum SysOp {
    Play,
    Stop,
    Rewind,
    /// let the machine idle (JR $ at the return address) for so many frames
    Idle(usize),
    Load(Req),
}

#[derive(Clone, Debug, PartialEq)]
pub struct SysCase {
    pub tape: Vec<u8>,
    pub ops: Vec<SysOp>,
}

pub fn sys_text(c: &SysCase) -> String {
    let mut s = format!("system tape={}", if c.tape.is_empty() { "-".to_string() } else { hex(&c.tape) });
    for o in &c.ops {
        s.push_str(" ; ");
        match o {
            SysOp::Play => s.push_str("play"),
            SysOp::Stop => s.push_str("stop"),
            SysOp::Rewind => s.push_str("rewind"),
            SysOp::Idle(n) => s.push_str(&format!("idle {}", n)),
            SysOp::Load(r) => s.push_str(&format!(
                "req {:02x} {} {:04x} {:04x} {}",
                r.a,
                if r.load { 1 } else { 0 },
                r.ix,
                r.de,
                match &r.fill {
                    Fill::Bytes(b) if !b.is_empty() => format!("h:{}", hex(b)),
                    _ => "-".to_string(),
                }
            )),
        }
    }
    s
}

pub fn parse_sys(s: &str) -> SysCase {
    let mut parts = s.split(';').map(|x| x.trim());
    let head = parts.next().unwrap_or("");
    let mut tape = vec![];
    for kv in head.split_whitespace() {
        if let Some(h) = kv.strip_prefix("tape=") {
            if h != "-" {
                tape = unhex(h);
            }
        }
    }
    let mut ops = vec![];
    for p in parts {
        let t: Vec<&str> = p.split_whitespace().collect();
        match t.as_slice() {
            ["play"] => ops.push(SysOp::Play),
            ["stop"] => ops.push(SysOp::Stop),
            ["rewind"] => ops.push(SysOp::Rewind),
            ["idle", n] => ops.push(SysOp::Idle(n.parse().unwrap_or(0))),
            ["req", a, l, ix, de, f] => ops.push(SysOp::Load(Req {
                a: u8::from_str_radix(a, 16).unwrap_or(0),
                load: *l == "1",
                ix: u16::from_str_radix(ix, 16).unwrap_or(0),
                de: u16::from_str_radix(de, 16).unwrap_or(0),
                fill: match f.strip_prefix("h:") {
                    Some(h) => Fill::Bytes(unhex(h)),
                    None => Fill::None,
                },
            })),
            _ => {}
        }
    }
    SysCase { tape, ops }
}

#[derive(Clone, Debug, PartialEq)]
pub struct LoadObs {
    pub outcome: String,
    pub ix: u16,
    pub de: u16,
    pub win: Vec<u8>,
}

/// One LD-BYTES call on `e` (real time or fast, depending on how `e` was built); `frames` bounds
/// the wait for the return.
pub fn sys_load(e: &mut Emu, r: &Req, span: usize, frames: usize, realtime: bool) -> (Vec<u8>, LoadObs) {
    for (i, b) in r.fill.bytes().iter().enumerate() {
        e.verif_write_mem(r.ix.wrapping_add(i as u16), *b, 0);
    }
    let before: Vec<u8> = (0..span).map(|i| e.peek(r.ix.wrapping_add(i as u16))).collect();
    c10::setup_call(e, r, 0, !realtime);
    let outcome = c10::run_until_return(e, frames);
    let cpu = e.verif_cpu();
    let ix = cpu.regs.get_reg_16(RegName16::IX);
    let de = cpu.regs.get_de();
    let win = (0..span).map(|i| e.peek(r.ix.wrapping_add(i as u16))).collect();
    (before, LoadObs { outcome, ix, de, win })
}

/// Parks the CPU in `JR $` at the return address (interrupts off) and lets `frames` frames pass.
pub fn sys_idle(e: &mut Emu, frames: usize) {
    e.verif_write_mem(c10::RET_ADDR + 0x10, 0x18, 0);
    e.verif_write_mem(c10::RET_ADDR + 0x11, 0xFE, 0);
    let cpu = e.verif_cpu();
    cpu.regs.set_pc(c10::RET_ADDR + 0x10);
    cpu.regs.set_iff1(false);
    cpu.regs.set_iff2(false);
    cpu.halted = false;
    for _ in 0..frames {
        let _ = catch_unwind(AssertUnwindSafe(|| e.emulate_frames(std::time::Duration::from_secs(3600))));
    }
}

/// Runs the ops on a real-time emulator (fast load off; the tape deck is operated through
/// Emulator::play_tape/stop_tape/rewind_tape) and returns the observation of every load.
pub fn sys_realtime(c: &SysCase) -> Vec<(Req, Vec<u8>, LoadObs)> {
    let mut e = c10::new_emu(false, &c.tape, false);
    let maxblk = c.tape.len();
    let mut out = vec![];
    for o in &c.ops {
        match o {
            SysOp::Play => e.play_tape(),
            SysOp::Stop => e.stop_tape(),
            SysOp::Rewind => {
                let _ = e.rewind_tape();
            }
            SysOp::Idle(n) => sys_idle(&mut e, *n),
            SysOp::Load(r) => {
                let span = c10::window_span(r.de, maxblk);
                // a header block needs ~370 frames; allow generously, a silent tape is cut off here
                let (wb, obs) = sys_load(&mut e, r, span, 700, true);
                out.push((r.clone(), wb, obs));
            }
        }
    }
    out
}

/// System-level case: real-time ROM loads vs the LD-BYTES spec / fast-load model served by the `C10`
/// driver with the expected block sequence `expect_tape` (what the deck should deliver, in order).
pub fn run_sys_case(m10: &mut Model, c: &SysCase, expect_tape: &[u8], prop: &str, mut rep: Option<&mut Report>) -> Option<Dis> {
    let loads = sys_realtime(c);
    // fast-load reference on a second emulator with the expected block sequence
    let mut fast = c10::new_emu(false, expect_tape, true);
    let a0 = m10.ask("variant 1");
    assert_eq!(a0, "ok");
    let a1 = m10.ask(&format!("tape {}", if expect_tape.is_empty() { "-".to_string() } else { hex(expect_tape) }));
    assert!(a1.starts_with("ok"));
    for (i, (r, wb, obs)) in loads.iter().enumerate() {
        let span = wb.len();
        // same memory contents for the fast path
        for (k, b) in wb.iter().enumerate() {
            fast.verif_write_mem(r.ix.wrapping_add(k as u16), *b, 0);
        }
        let (_, fobs) = sys_load(&mut fast, &Req { fill: Fill::None, ..r.clone() }, span, 2, false);
        let ans = m10.ask(&format!(
            "req {:02x} {} {:04x} {:04x} {:04x} {}",
            r.a,
            if r.load { 1 } else { 0 },
            r.ix,
            r.de,
            c10::SP0,
            if wb.is_empty() { "-".to_string() } else { hex(wb) }
        ));
        let t: Vec<&str> = ans.split(' ').collect();
        // M o ix de win S o ix de win
        let spec = if t.len() >= 10 && t[5] == "S" {
            Some(LoadObs {
                outcome: t[6].to_string(),
                ix: u16::from_str_radix(t[7], 16).unwrap(),
                de: u16::from_str_radix(t[8], 16).unwrap(),
                win: if t[9] == "-" { vec![] } else { unhex(t[9]) },
            })
        } else {
            None
        };
        if let Some(rp) = rep.as_deref_mut() {
            rp.eval();
            rp.count("rom_loads", obs.outcome.clone());
            rp.class(format!("rom-load {} {} de={}", obs.outcome, if r.load { "load" } else { "verify" }, r.de.min(2)));
        }
        let show = |o: &LoadObs| format!("{} ix={:04x} de={:04x} mem={}", o.outcome, o.ix, o.de, truncate(&hex(&o.win), 48));
        if let Some(s) = &spec {
            if s != obs {
                return Some(Dis {
                    kind: Kind::SpecViolated,
                    key: format!("{}/rom-load", prop),
                    what: format!(
                        "load {} (A={:02x} {} IX={:04x} DE={:04x}) by the real ROM from the playing tape differs from LD-BYTES on the expected block",
                        i, r.a, if r.load { "LOAD" } else { "VERIFY" }, r.ix, r.de
                    ),
                    implementation: show(obs),
                    expected: show(s),
                });
            }
        }
        // fast loading is only defined to agree when a block is there (its end-of-tape defect is C10's)
        if fobs != *obs && spec.as_ref().map(|s| s.outcome != "loops").unwrap_or(false) {
            return Some(Dis {
                kind: Kind::SpecViolated,
                key: format!("{}/rom-vs-fastload", prop),
                what: format!("load {}: real-time ROM load and fast load of the same block differ", i),
                implementation: show(obs),
                expected: show(&fobs),
            });
        }
    }
    None
}

pub fn gen_sys_case(rng: &mut Rng, idx: u64) -> SysCase {
    // small tapes: the pilot dominates the cost (about 100 frames per data block, 250 per header)
    let nb = if idx % 3 == 0 { 2 } else { 1 };
    let mut blocks = vec![];
    for j in 0..nb {
        let len = if (idx + j) % 4 == 1 { rng.range(130, 200) as usize } else { rng.range(2, 20) as usize };
        let flag = if idx % 5 == 4 && j == 0 { 0x00 } else { 0xFF };
        let mut b = vec![flag];
        b.extend(rng.bytes(len - 1));
        let mut x = b.iter().fold(0u8, |a, v| a ^ v);
        if rng.chance(1, 8) {
            x ^= 0x10;
        }
        b.push(x);
        blocks.push(b);
    }
    let mut ops = vec![SysOp::Play];
    for (j, b) in blocks.iter().enumerate() {
        let last = j + 1 == blocks.len();
        let matching = (b.len() - 2) as u16;
        // requests that leave the tape in mid-block are only issued last
        let de = if last {
            match rng.below(6) {
                0 => matching.saturating_sub(1),
                1 => 0,
                _ => matching,
            }
        } else if rng.chance(1, 5) {
            matching + 3
        } else {
            matching
        };
        let a = if last && rng.chance(1, 6) { b[0] ^ 0x55 } else { b[0] };
        let load = rng.chance(2, 3);
        let fill = if load {
            Fill::None
        } else {
            let mut d = b[1..].to_vec();
            d.truncate(de as usize);
            if rng.chance(1, 4) && !d.is_empty() {
                let k = rng.below(d.len() as u64) as usize;
                d[k] ^= 4;
            }
            Fill::Bytes(d)
        };
        ops.push(SysOp::Load(Req { a, load, ix: rng.range(0x4000, 0xF000) as u16, de, fill }));
    }
    SysCase { tape: encode(&blocks), ops }
}

fn report_sys_failure(rep: &mut Report, c: &SysCase, d: Dis) {
    if rep.has_key(&d.key) {
        rep.count("repeat_violations", d.key.clone());
        return;
    }
    rep.violation(Violation {
        kind: d.kind,
        key: d.key.clone(),
        what: format!("{} [case: {}]", d.what, truncate(&sys_text(c), 300)),
        correspondence: "corr.C11.rom (real ROM LD-BYTES on the playing tape vs Spec.ldBytes / fast load)".into(),
        case: J::obj(vec![("text", J::s(sys_text(c)))]),
        implementation: d.implementation.clone(),
        expected: d.expected.clone(),
    });
}

pub fn run(o: &Opts) -> Report {
    let mut rep = Report::new("C11");
    rep.rule = "component level: TAP images of 1-2 non-empty blocks (rotating through: all 256 byte values, lengths \
127..130/255..257 around the 128-byte buffer, header blocks with flag 0x00 and the long pilot, short random blocks) played on the real \
Tap<VAsset> (short reads varied) under 1-3 consecutive step schedules (uniform 1..16, constant, mostly 1..4, alternating 16/1, \
instruction-like) until past the end of the tape; every EAR edge time and the stop time compared exactly with the Lean model and the \
pulse list adjudicated by the waveform spec (pilot count, 2168/667/735/855/1710 within +0..32 T, pause 3.0-4.5 MT); malformed images \
(empty block, truncated block) compared with the model only. System level: the real 48K ROM LD-BYTES loading the playing tape in real \
time (1-2 small blocks, LOAD/VERIFY, matching/short/zero/long DE, wrong flag, bad checksum) compared with Spec.ldBytes and with fast \
loading. distinct/non-trivial = distinct (schedule kind, block class) of component runs that reached the end of the tape plus distinct \
ROM load classes"
        .into();
    let mut model = Model::spawn(&o.model, "C11");
    let mut m10 = Model::spawn(&o.model, "C10");
    let fixed = detect_variant();
    rep.extra.push(("tree_variant".into(), J::s(if fixed { "stop/rewind repaired (C12-1 present)" } else { "code as found" })));

    if let Some(text) = &o.replay {
        rep.sample(J::s(truncate(text, 400)));
        if text.starts_with("system") {
            let c = parse_sys(text);
            if let Some(d) = run_sys_case(&mut m10, &c, &c.tape.clone(), "C11", Some(&mut rep)) {
                report_sys_failure(&mut rep, &c, d);
            }
        } else {
            let c = parse_case(text);
            if let Some(d) = run_case(&mut model, fixed, &c, Some(&mut rep)) {
                report_failure(&mut model, &mut rep, fixed, &c, d);
            }
        }
        return rep;
    }

    // 1. component level
    let mut rng = Rng::new(o.seed ^ 0x0C11);
    let ntapes = o.n(48, 2000);
    for idx in 0..ntapes {
        let mut r = rng.fork();
        let blocks = gen_blocks(&mut r, idx);
        let total: u64 = blocks.iter().map(|b| nominal_t(b)).sum();
        let mut cmds = vec![Cmd::Play];
        cmds.extend(gen_runs(&mut r, total));
        let c = Case { tape: encode(&blocks), chunk: *r.pick(&[0usize, 0, 1, 100]), cmds };
        for b in &blocks {
            rep.count("block_class", match b.len() { 0..=30 => if b[0] == 0 { "header (flag 00)" } else { "short" }, 31..=200 => "127-130", 201..=257 => "255-257", _ => "all byte values" });
        }
        for k in &c.cmds {
            if let Cmd::Run { kind, .. } = k {
                rep.count("schedule_kind", ["uniform 1..16", "constant", "mostly 1..4", "alternating 16/1", "instruction-like"][*kind as usize]);
                rep.class(format!("kind {} blocks {:?}", kind, blocks.iter().map(|b| (b.len() / 64, b[0] == 0)).collect::<Vec<_>>()));
            }
        }
        if idx < 2 {
            rep.sample(J::s(truncate(&case_text(&c), 300)));
        }
        if let Some(d) = run_case(&mut model, fixed, &c, Some(&mut rep)) {
            rep.count("disagreeing_cases", format!("{:?} {}", d.kind, d.key));
            report_failure(&mut model, &mut rep, fixed, &c, d);
        }
    }
    // malformed images: model only
    for (i, tape) in [vec![0u8, 0], vec![2, 0, 0xFF], vec![3, 0, 0xFF, 1, 0xFE, 0, 0, 2, 0, 0xFF, 0xFF], vec![0x90, 0, 0xFF, 1, 2, 3]].iter().enumerate() {
        let c = Case { tape: tape.clone(), chunk: 0, cmds: vec![Cmd::Play, Cmd::Run { kind: 0, seed: i as u32, n: 3_000_000 }] };
        rep.count("block_class", "malformed image");
        if let Some(d) = run_case(&mut model, fixed, &c, Some(&mut rep)) {
            report_failure(&mut model, &mut rep, fixed, &c, d);
        }
    }

    // 2. system level
    let mut rng = Rng::new(o.seed ^ 0x5C11);
    for idx in 0..o.n(16, 300) {
        let mut r = rng.fork();
        let c = gen_sys_case(&mut r, idx);
        if idx < 1 {
            rep.sample(J::s(truncate(&sys_text(&c), 300)));
        }
        rep.count("cases", "system (real ROM)");
        if let Some(d) = run_sys_case(&mut m10, &c, &c.tape.clone(), "C11", Some(&mut rep)) {
            report_sys_failure(&mut rep, &c, d);
        }
    }
    rep.extra.push(("model_requests".into(), J::I((model.requests + m10.requests) as i64)));
    rep
}

/// false = stop()/rewind() as found, true = with proposed_fixes/C12-1.diff.
/// Probe: one-block tape, play, a little pilot, stop, stop, play. As found the second stop forgets
/// the position, play restarts at `Play`, which asks for the next block, finds none and stops the
/// deck; repaired, the pilot simply continues.
pub fn detect_variant() -> bool {
    let mut t = RealTap::new(&[3, 0, 0xFF, 1, 0xFE], 0);
    t.cmd(&Cmd::Play);
    t.cmd(&Cmd::Run { kind: 1, seed: 15, n: 1000 });
    t.cmd(&Cmd::Stop);
    t.cmd(&Cmd::Stop);
    t.cmd(&Cmd::Play);
    let o = t.cmd(&Cmd::Run { kind: 1, seed: 15, n: 400 }).unwrap();
    !o.stopped
}
