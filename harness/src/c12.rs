//! C12 — play, stop and rewind behave like a cassette deck for every command history.
//! Component level: command histories on the real `Tap` (hook `verif_tape`), EAR edges and the
//! stopped state compared exactly with the Lean model and with the cassette-deck spec. System level:
//! the real ROM loads blocks after scripted Emulator::play_tape/stop_tape/rewind_tape calls.
use crate::c10::{Fill, Req};
use crate::c11::{self, case_text, parse_case, Case, Cmd, RealTap, SysCase, SysOp};
use crate::util::*;

#[derive(Clone, Debug)]
struct Dis {
    kind: Kind,
    key: String,
    what: String,
    implementation: String,
    expected: String,
    hazards: Vec<String>,
}

fn parse_edges(t: &[&str]) -> Vec<(u64, bool)> {
    t.iter()
        .filter_map(|e| {
            let (a, b) = e.split_once(':')?;
            Some((u64::from_str_radix(a, 16).ok()?, b == "1"))
        })
        .collect()
}

fn show_edge(v: &[(u64, bool)], k: usize) -> String {
    v.get(k)
        .map(|(t, l)| format!("edge #{} at T={} to level {}", k, t, if *l { 1 } else { 0 }))
        .unwrap_or(format!("no edge #{}", k))
}

/// Hazards of a history with respect to the three stale-state paths of `Tap` (they name the
/// finding; a history without any of them must never disagree with the deck).
fn hazards(cmds: &[Cmd], deck_playing_after: &[Option<bool>], upto: usize) -> Vec<String> {
    let mut playing = false;
    let mut played = false;
    let mut stopped_before = false;
    let mut hz: Vec<String> = vec![];
    for (i, c) in cmds.iter().enumerate() {
        if i > upto {
            break;
        }
        match c {
            Cmd::Play => playing = true,
            Cmd::Stop => {
                if !playing {
                    hz.push("stop-while-stopped".into());
                } else {
                    stopped_before = true;
                }
                playing = false;
            }
            Cmd::Rewind => {
                if played {
                    hz.push("rewind-stale-state".into());
                }
            }
            Cmd::Run { .. } => {
                if playing {
                    played = true;
                }
                if let Some(Some(p)) = deck_playing_after.get(i) {
                    if playing && !*p {
                        // the deck ran off the end during this run
                        if stopped_before {
                            hz.push("end-of-tape-stale-state".into());
                        }
                        playing = false;
                        played = false;
                    }
                }
            }
        }
    }
    hz.sort();
    hz.dedup();
    hz
}

fn run_case(model: &mut Model, fixed: bool, c: &Case, mut rep: Option<&mut Report>) -> Option<Dis> {
    let mut real = RealTap::new(&c.tape, c.chunk);
    let mut lines = vec![
        format!("variant {}", if fixed { 1 } else { 0 }),
        format!("tape {}", if c.tape.is_empty() { "-".to_string() } else { hex(&c.tape) }),
    ];
    let mut obs = vec![];
    for k in &c.cmds {
        lines.push(k.line());
        obs.push(real.cmd(k));
    }
    let answers = model.ask_many(&lines);
    let mut deck_playing: Vec<Option<bool>> = vec![];
    let mut first: Option<Dis> = None;
    for (i, o) in obs.iter().enumerate() {
        let ans = &answers[i + 2];
        let o = match o {
            None => {
                deck_playing.push(None);
                continue;
            }
            Some(o) => o,
        };
        let (mpart, dpart) = ans.split_once(" D ").unwrap_or((ans.as_str(), "undecided"));
        if let Some(r) = rep.as_deref_mut() {
            r.evaluations += o.edges.len() as u64 + 1;
            r.count_n("edges_compared", "edges", o.edges.len() as u64);
        }
        // deck (spec)
        let mut spec_dis: Option<(String, String, String)> = None;
        if dpart != "undecided" {
            let t: Vec<&str> = dpart.split(' ').collect();
            let dplaying = t[0] == "1";
            deck_playing.push(Some(dplaying));
            let dedges = if t.len() > 3 { parse_edges(&t[3..]) } else { vec![] };
            if dedges != o.edges {
                let k = dedges.iter().zip(o.edges.iter()).position(|(a, b)| a != b).unwrap_or(dedges.len().min(o.edges.len()));
                spec_dis = Some((
                    format!("command {} ({}): {} but a cassette deck gives {}", i, c.cmds[i].line(), show_edge(&o.edges, k), show_edge(&dedges, k)),
                    show_edge(&o.edges, k),
                    show_edge(&dedges, k),
                ));
            } else if dplaying == o.stopped {
                spec_dis = Some((
                    format!(
                        "command {} ({}): the tape is {} but a cassette deck is {}",
                        i,
                        c.cmds[i].line(),
                        if o.stopped { "stopped" } else { "running" },
                        if dplaying { "running" } else { "stopped" }
                    ),
                    format!("stopped={}", o.stopped),
                    format!("stopped={}", !dplaying),
                ));
            }
        } else {
            deck_playing.push(None);
        }
        if first.is_none() {
            if let Some((what, got, want)) = spec_dis {
                first = Some(Dis {
                    kind: Kind::SpecViolated,
                    key: String::new(),
                    what,
                    implementation: got,
                    expected: want,
                    hazards: hazards(&c.cmds, &deck_playing, i),
                });
            } else if o.text() != mpart {
                let t: Vec<&str> = mpart.split(' ').collect();
                let medges = if t.len() > 5 { parse_edges(&t[5..]) } else { vec![] };
                let k = medges.iter().zip(o.edges.iter()).position(|(a, b)| a != b).unwrap_or(medges.len().min(o.edges.len()));
                first = Some(Dis {
                    kind: Kind::ModelMismatch,
                    key: "C12/model/edges".into(),
                    what: format!(
                        "command {} ({}): {} / {} but the Lean model gives {} / {}",
                        i,
                        c.cmds[i].line(),
                        show_edge(&o.edges, k),
                        o.text().split(' ').take(4).collect::<Vec<_>>().join(" "),
                        show_edge(&medges, k),
                        t.iter().take(4).cloned().collect::<Vec<_>>().join(" ")
                    ),
                    implementation: c11::truncate(&o.text(), 200),
                    expected: c11::truncate(mpart, 200),
                    hazards: vec![],
                });
            }
        }
    }
    if let Some(mut d) = first {
        if d.kind == Kind::SpecViolated {
            d.key = if d.hazards.is_empty() { "C12/deck".to_string() } else { format!("C12/{}", d.hazards.join("+")) };
        }
        return Some(d);
    }
    None
}

fn shrink(model: &mut Model, fixed: bool, c: &Case, d0: &Dis) -> Case {
    let mut cur = c.clone();
    let mut cur_h = d0.hazards.len().max(1);
    let mut budget = 120;
    let ok = |model: &mut Model, cand: &Case, cur_h: usize| -> Option<usize> {
        match run_case(model, fixed, cand, None) {
            Some(d) if d.kind == d0.kind && (d.kind != Kind::SpecViolated || (d.hazards.len() <= cur_h && d.hazards.iter().all(|h| d0.hazards.contains(h)))) => {
                Some(d.hazards.len().max(1))
            }
            _ => None,
        }
    };
    'outer: loop {
        // drop single commands (from the end first), then simplify the tape, then shorten runs
        let mut cands: Vec<Case> = vec![];
        for i in (0..cur.cmds.len()).rev() {
            if cur.cmds.len() > 1 {
                let mut k = cur.clone();
                k.cmds.remove(i);
                cands.push(k);
            }
        }
        let (blocks, _) = c11::split(&cur.tape);
        if blocks.len() > 1 {
            for i in 0..blocks.len() {
                let mut b = blocks.clone();
                b.remove(i);
                cands.push(Case { tape: c11::encode(&b), ..cur.clone() });
            }
        }
        for i in 0..blocks.len() {
            if blocks[i].len() > 1 {
                let mut b = blocks.clone();
                b[i].truncate(1);
                cands.push(Case { tape: c11::encode(&b), ..cur.clone() });
            }
            if !blocks[i].is_empty() && blocks[i][0] != 0xFF {
                let mut b = blocks.clone();
                b[i][0] = 0xFF;
                cands.push(Case { tape: c11::encode(&b), ..cur.clone() });
            }
        }
        for i in 0..cur.cmds.len() {
            if let Cmd::Run { kind, seed, n } = cur.cmds[i] {
                if n > 1 {
                    let mut k = cur.clone();
                    k.cmds[i] = Cmd::Run { kind, seed, n: n / 2 };
                    cands.push(k);
                    let mut k = cur.clone();
                    k.cmds[i] = Cmd::Run { kind, seed, n: n - 1 };
                    cands.push(k);
                }
            }
        }
        if cur.chunk != 0 {
            cands.push(Case { chunk: 0, ..cur.clone() });
        }
        for cand in cands {
            if budget == 0 {
                break 'outer;
            }
            budget -= 1;
            if let Some(h) = ok(model, &cand, cur_h) {
                cur = cand;
                cur_h = h;
                continue 'outer;
            }
        }
        break;
    }
    cur
}

fn report_failure(model: &mut Model, rep: &mut Report, fixed: bool, c: &Case, d: Dis) {
    // a history whose hazards have all been recorded already is a repeat
    if d.kind == Kind::SpecViolated && !d.hazards.is_empty() && d.hazards.iter().all(|h| rep.has_key(&format!("C12/{}", h))) {
        rep.count("repeat_violations", d.key.clone());
        return;
    }
    if rep.has_key(&d.key) {
        rep.count("repeat_violations", d.key.clone());
        return;
    }
    let small = shrink(model, fixed, c, &d);
    let d2 = run_case(model, fixed, &small, None).unwrap_or(d);
    rep.violation(Violation {
        kind: d2.kind,
        key: d2.key.clone(),
        what: format!("{} [case: {}]", d2.what, c11::truncate(&case_text(&small), 300)),
        correspondence: "corr.C12.history (Model.Tape.Tap.cmd vs Tap::play/stop/rewind/process_clocks; Spec.Deck adjudicates)".into(),
        case: J::obj(vec![("text", J::s(case_text(&small)))]),
        implementation: d2.implementation.clone(),
        expected: d2.expected.clone(),
    });
}

// ---------------------------------------------------------------- generation

/// number of nominal pulses of a block
fn pulses_of(b: &[u8]) -> u64 {
    (if b[0] == 0 { 8063 } else { 3223 }) + 2 + 16 * b.len() as u64 + 1
}

fn gen_history(rng: &mut Rng, blocks: &[Vec<u8>]) -> Vec<Cmd> {
    let total_pulses: u64 = blocks.iter().map(|b| pulses_of(b)).sum();
    let mut cmds = vec![];
    let n = rng.range(3, 12);
    let mut playing = false;
    for _ in 0..n {
        match rng.below(10) {
            0 | 1 => {
                cmds.push(Cmd::Play);
                playing = true;
            }
            2 | 3 => {
                cmds.push(Cmd::Stop);
                playing = false;
            }
            4 => cmds.push(Cmd::Rewind),
            5 | 6 => {
                // coarse advance to an arbitrary point of the waveform: every call of 4000 T either
                // runs a pulse down or fires, so two calls per pulse (pauses need 875)
                let target = match rng.below(6) {
                    0 => rng.below(40),                               // early pilot
                    1 => total_pulses + rng.below(20),                // around / past the end
                    2 => pulses_of(&blocks[0]).saturating_sub(rng.below(30)), // end of first block, pause
                    _ => rng.below(total_pulses + 1),
                };
                cmds.push(Cmd::Run { kind: 5, seed: 4000, n: 2 * target + rng.below(3) });
                if rng.chance(1, 3) {
                    // get through a pause quickly
                    cmds.push(Cmd::Run { kind: 5, seed: 60000, n: rng.range(1, 70) });
                }
            }
            _ => {
                // fine-grained advance: a few pulses with steps of 1..16 T
                cmds.push(Cmd::Run { kind: rng.below(5) as u8, seed: rng.next() as u32, n: rng.range(1, 1500) });
            }
        }
        if !playing && rng.chance(1, 3) {
            cmds.push(Cmd::Play);
            playing = true;
        }
    }
    // always end with something observable
    cmds.push(Cmd::Play);
    cmds.push(Cmd::Run { kind: 5, seed: 4000, n: rng.range(2, 60) });
    cmds.push(Cmd::Run { kind: 0, seed: rng.next() as u32, n: rng.range(100, 800) });
    cmds
}

/// Directed histories: two stops in one pass — the first inside a block, the second in the pause after it —
/// and a redundant "play" on a deck that runs after a resume; positions random.
fn gen_pattern(rng: &mut Rng, blocks: &[Vec<u8>]) -> Vec<Cmd> {
    let p0 = pulses_of(&blocks[0]);
    let inside = match rng.below(3) {
        0 => rng.range(1, 200),                 // pilot
        1 => p0 - 1 - rng.below(16 * blocks[0].len() as u64), // data bits
        _ => rng.range(1, p0 - 2),
    };
    let mut cmds = vec![Cmd::Play, Cmd::Run { kind: 5, seed: 4000, n: 2 * inside + rng.below(2) }];
    if rng.chance(1, 3) {
        cmds.push(Cmd::Run { kind: rng.below(5) as u8, seed: rng.next() as u32, n: rng.range(1, 300) });
    }
    cmds.push(Cmd::Stop);
    cmds.push(Cmd::Play);
    if rng.bool() {
        // on to the pause after the block, stop there, play again
        cmds.push(Cmd::Run { kind: 5, seed: 4000, n: 2 * (p0 - inside) + 6 + rng.below(700) });
        cmds.push(Cmd::Stop);
        cmds.push(Cmd::Play);
    } else {
        // a second "play" while the deck runs
        cmds.push(Cmd::Run { kind: 5, seed: 4000, n: 2 * rng.range(1, p0 - inside + 40) });
        cmds.push(Cmd::Play);
    }
    cmds.push(Cmd::Run { kind: 5, seed: 60000, n: rng.range(1, 70) });
    cmds.push(Cmd::Run { kind: 5, seed: 4000, n: rng.range(2, 4000) });
    cmds.push(Cmd::Run { kind: 0, seed: rng.next() as u32, n: rng.range(100, 800) });
    cmds
}

fn gen_blocks(rng: &mut Rng) -> Vec<Vec<u8>> {
    let n = rng.range(1, 3);
    (0..n)
        .map(|_| {
            let len = match rng.below(5) {
                0 => 1,
                1 => rng.range(129, 140) as usize,
                _ => rng.range(2, 6) as usize,
            };
            let mut b = vec![if rng.chance(1, 6) { 0x00 } else { rng.u8() | 1 }];
            b.extend(rng.bytes(len - 1));
            b
        })
        .collect()
}

// ---------------------------------------------------------------- system level

fn sys_cases(rng: &mut Rng, n: u64) -> Vec<(SysCase, Vec<u8>, &'static str)> {
    let mut out = vec![];
    for idx in 0..n {
        let mk = |rng: &mut Rng, tag: u8| {
            let len = rng.range(3, 10) as usize;
            let mut b = vec![0xFF, tag];
            b.extend(rng.bytes(len));
            let x = b.iter().fold(0u8, |a, v| a ^ v);
            b.push(x);
            b
        };
        let b1 = mk(rng, 0x11);
        let b2 = mk(rng, 0x22);
        let tape = c11::encode(&[b1.clone(), b2.clone()]);
        let load = |b: &Vec<u8>, ix: u16| SysOp::Load(Req { a: 0xFF, load: true, ix, de: (b.len() - 2) as u16, fill: Fill::None });
        let ix = rng.range(0x5000, 0xE000) as u16;
        let (ops, expect, name): (Vec<SysOp>, Vec<Vec<u8>>, &'static str) = match idx % 5 {
            4 => (
                // the tape runs off its end (the deck stops and rewinds by itself after the last pause), then play again
                vec![SysOp::Play, load(&b1, ix), load(&b2, ix), SysOp::Idle(70 + rng.below(30) as usize), SysOp::Play, load(&b1, ix)],
                vec![b1.clone(), b2.clone(), b1.clone()],
                "play again after the end",
            ),
            0 => (
                // pause in the pilot, resume, both blocks load (the ROM needs ~1.3 s of pilot: waiting loop of about a
                // second plus 256 pulse pairs; a data pilot lasts 2 s, so at most ~20 frames of it may be spent before)
                vec![SysOp::Play, SysOp::Idle(rng.range(3, 20) as usize), SysOp::Stop, SysOp::Idle(rng.range(1, 30) as usize), SysOp::Play, load(&b1, ix), load(&b2, ix)],
                vec![b1.clone(), b2.clone()],
                "stop;play in the pilot",
            ),
            1 => (
                // repeated stop and repeated play around the pause
                vec![SysOp::Play, SysOp::Idle(rng.range(3, 20) as usize), SysOp::Stop, SysOp::Idle(5), SysOp::Stop, SysOp::Play, SysOp::Play, load(&b1, ix), load(&b2, ix)],
                vec![b1.clone(), b2.clone()],
                "stop;stop;play;play",
            ),
            2 => (
                // load block 1, rewind during the pause/next pilot, block 1 again, then block 2
                vec![SysOp::Play, load(&b1, ix), SysOp::Idle(rng.range(1, 90) as usize), SysOp::Rewind, load(&b1, ix), load(&b2, ix)],
                vec![b1.clone(), b1.clone(), b2.clone()],
                "rewind while playing",
            ),
            _ => (
                // stop in the middle of block 1's pilot, rewind while stopped, play: clean start
                vec![SysOp::Play, SysOp::Idle(rng.range(3, 20) as usize), SysOp::Stop, SysOp::Rewind, SysOp::Play, load(&b1, ix), load(&b2, ix)],
                vec![b1.clone(), b2.clone()],
                "stop;rewind;play",
            ),
        };
        out.push((SysCase { tape, ops, fastload: false }, c11::encode(&expect), name));
    }
    out
}

pub fn run(o: &Opts) -> Report {
    let mut rep = Report::new("C12");
    rep.rule = "component level: random histories of 3-12 commands over {play, stop, rewind, coarse advance (calls of 4000 or 60000 T to \
reach any point of the waveform: early pilot, arbitrary pulse, end of first block/pause, around and past the end of the tape), fine advance \
(up to 1500 calls of 1..16 T in five schedule families)} on tapes of 1-3 blocks (1, 2-5 and 129-139 bytes, occasionally flag 0x00), always \
ending in play + advance (one history in five is directed: a stop inside a block, play, then a stop in the pause after the block or a second play while running); every EAR edge time and the stopped state compared exactly with the Lean model and with the cassette-deck spec. \
System level: the real ROM loading blocks after scripted Emulator::play_tape/stop_tape/rewind_tape (stop;play, stop;stop;play;play, rewind \
while playing, stop;rewind;play, play again after the tape ran off its end), compared with LD-BYTES on the block sequence a deck delivers; plus the frozen level as a program sees it (deck stopped anywhere in the waveform, OUTs to the speaker/MIC bits, bit 6 of the ULA port read back). distinct/non-trivial = distinct (sequence of \
deck commands, deck stopped at the end) of histories in which at least one edge was produced after the first stop/rewind"
        .into();
    let mut model = Model::spawn(&o.model, "C12");
    let mut m10 = Model::spawn(&o.model, "C10");
    let fixed = c11::detect_variant();
    rep.extra.push(("tree_variant".into(), J::s(if fixed { "stop/rewind repaired (C12-1 present)" } else { "code as found" })));

    if let Some(text) = &o.replay {
        rep.sample(J::s(c11::truncate(text, 400)));
        if text.starts_with("assets") {
            let k = text.split_whitespace().find_map(|kv| kv.strip_prefix("k=")).and_then(|x| x.parse().ok()).unwrap_or(0);
            let seed = text.split_whitespace().find_map(|kv| kv.strip_prefix("seed=")).and_then(|x| x.parse().ok()).unwrap_or(o.seed);
            asset_kinds(o, &mut rep, Some((seed, k)));
        } else if text.starts_with("earport") {
            let t: Vec<&str> = text.split_whitespace().collect();
            ear_frozen_at_port(o, &mut rep, Some((t.get(1) == Some(&"128"), t.get(2).and_then(|x| x.parse().ok()).unwrap_or(5000))));
        } else if text.starts_with("system") {
            // "system expect=<hex> tape=<hex> ; ops"
            let c = c11::parse_sys(text);
            let expect = text
                .split_whitespace()
                .find_map(|kv| kv.strip_prefix("expect="))
                .map(|h| if h == "-" { vec![] } else { unhex(h) })
                .unwrap_or(c.tape.clone());
            if let Some(d) = c11::run_sys_case(&mut m10, &c, &expect, "C12", Some(&mut rep)) {
                report_sys(&mut rep, &c, &expect, d, "replay");
            }
        } else {
            let c = parse_case(text);
            if let Some(d) = run_case(&mut model, fixed, &c, Some(&mut rep)) {
                report_failure(&mut model, &mut rep, fixed, &c, d);
            }
        }
        return rep;
    }

    // 0. the witness histories of the three stale-state paths (regression corpus)
    let corpus = [
        "component chunk=0 tape=0100ff0100ff ; cmd play ; run 5 1 1 ; cmd stop ; cmd stop ; cmd play ; run 5 bb8 1 ; run 5 1 1",
        "component chunk=0 tape=0100ff ; cmd play ; run 5 fa0 1930 ; cmd rewind ; run 5 fa0 1a00",
        "component chunk=0 tape=0100ff ; cmd play ; run 5 1 1 ; cmd stop ; cmd play ; run 5 fa0 1980 ; run 5 ea60 40 ; cmd play ; run 5 fa0 1a00",
    ];
    for t in corpus {
        let c = parse_case(t);
        rep.count("cases", "corpus");
        if let Some(d) = run_case(&mut model, fixed, &c, Some(&mut rep)) {
            report_failure(&mut model, &mut rep, fixed, &c, d);
        }
    }

    // 1. random histories
    let mut rng = Rng::new(o.seed ^ 0x0C12);
    let n = o.n(2000, 200_000);
    for idx in 0..n {
        let mut r = rng.fork();
        let mut blocks = gen_blocks(&mut r);
        let cmds = if idx % 5 == 4 {
            if blocks.len() < 2 {
                let mut b = vec![r.u8() | 1];
                b.extend(r.bytes(3));
                blocks.push(b);
            }
            gen_pattern(&mut r, &blocks)
        } else {
            gen_history(&mut r, &blocks)
        };
        let c = Case { tape: c11::encode(&blocks), chunk: *r.pick(&[0usize, 0, 3]), cmds };
        let shape: Vec<&str> = c
            .cmds
            .iter()
            .map(|k| match k {
                Cmd::Play => "P",
                Cmd::Stop => "S",
                Cmd::Rewind => "R",
                Cmd::Run { kind: 5, .. } => "A",
                Cmd::Run { .. } => "a",
            })
            .collect();
        for k in &c.cmds {
            rep.count("commands", match k { Cmd::Play => "play", Cmd::Stop => "stop", Cmd::Rewind => "rewind", Cmd::Run { kind: 5, .. } => "advance (coarse)", Cmd::Run { .. } => "advance (1..16 T)" });
        }
        rep.count("history_length", format!("{:02}", c.cmds.len()));
        rep.class(shape.join(""));
        if idx < 2 {
            rep.sample(J::s(c11::truncate(&case_text(&c), 300)));
        }
        if let Some(d) = run_case(&mut model, fixed, &c, Some(&mut rep)) {
            rep.count("disagreeing_histories", format!("{:?} {}", d.kind, d.key));
            report_failure(&mut model, &mut rep, fixed, &c, d);
        }
    }

    // 2. system level
    let mut rng = Rng::new(o.seed ^ 0x5C12);
    for (c, expect, name) in sys_cases(&mut rng, o.n(8, 200)) {
        rep.count("cases", format!("system: {}", name));
        if let Some(d) = c11::run_sys_case(&mut m10, &c, &expect, "C12", Some(&mut rep)) {
            report_sys(&mut rep, &c, &expect, d, name);
        }
    }
    // 2b. fast loading and real-time play on one tape
    for (c, name) in c11::mixed_cases(&mut rng, o.n(8, 120)) {
        rep.count("cases", format!("system: {}", name));
        let expect = c.tape.clone();
        if let Some(d) = c11::run_sys_case(&mut m10, &c, &expect, "C12", Some(&mut rep)) {
            report_sys(&mut rep, &c, &expect, d, name);
        }
    }
    // 3. the frozen level as the program sees it: with the deck stopped anywhere in the waveform, bit 6 of the
    // ULA port keeps the level whatever the program writes to the speaker/MIC bits meanwhile
    ear_frozen_at_port(o, &mut rep, None);
    asset_kinds(o, &mut rep, None);
    rep.extra.push(("histories".into(), J::I(n as i64)));
    rep.extra.push(("model_requests".into(), J::I((model.requests + m10.requests) as i64)));
    rep
}

fn ear_frozen_at_port(o: &Opts, rep: &mut Report, only: Option<(bool, usize)>) {
    use crate::host::*;
    let mut rng = Rng::new(o.seed ^ 0xEA12);
    for k in 0..o.n(24, 400) as usize {
        let m128 = k % 2 == 1;
        // stop after this many T-states of play: pilot (either level), sync, data, pause
        let run_t: usize = match only {
            Some((_, t)) => t,
            None => match k % 4 {
                0 => 2168 * (1 + rng.below(40) as usize) + rng.below(2168) as usize,
                1 => 2168 * (2 + rng.below(40) as usize) + 1084,
                2 => 2168 * 3223 + 1402 + rng.below(20000) as usize,
                _ => rng.below(8_000_000) as usize,
            },
        };
        if let Some((m, _)) = only {
            if m != m128 {
                continue;
            }
        }
        let mut e = emu(&Cfg::new(m128));
        let mut blk = vec![0xFFu8, 0x55, 0xAA, 0x0F];
        let x = blk.iter().fold(0u8, |a, b| a ^ b);
        blk.push(x);
        let mut tap = vec![blk.len() as u8, 0];
        tap.extend_from_slice(&blk);
        let _ = e.load_tape(rustzx_core::host::Tape::Tap(VAsset::new(tap)));
        e.play_tape();
        let mut left = run_t;
        while left > 0 {
            let n = left.min(13);
            e.verif_wait(n);
            left -= n;
        }
        e.stop_tape();
        let level = e.verif_read_io(0x7FFE) & 0x40;
        let mut seen = vec![];
        for v in [0x10u8, 0x00, 0x18, 0x08, 0x1F, 0x00] {
            e.verif_write_io(0x00FE, v);
            e.verif_wait(1000);
            seen.push(e.verif_read_io(0x7FFE) & 0x40);
        }
        rep.eval();
        rep.class(format!("ear frozen at port m128={} level={} phase={}", m128, level >> 6, k % 4));
        if seen.iter().any(|x| *x != level) {
            rep.violation(Violation {
                kind: Kind::SpecViolated,
                key: "C12/port/ear-frozen".into(),
                what: format!("{}: deck stopped after {} T of play with EAR bit {}; after OUTs of 10,00,18,08,1F,00 to port 0xFE bit 6 of port 0x7FFE reads {:?} — the level is frozen while the deck is stopped",
                    if m128 { "128K" } else { "48K" }, run_t, level >> 6, seen.iter().map(|x| x >> 6).collect::<Vec<_>>()),
                correspondence: "corr.C12.rom (the EAR input of the ULA port is the deck's level)".into(),
                case: J::obj(vec![("text", J::s(format!("earport {} {}", if m128 { 128 } else { 48 }, run_t)))]),
                implementation: format!("{:?}", seen),
                expected: format!("{} every time", level),
            });
            return;
        }
    }
}

/// The deck's behaviour for a command history does not depend on which of the shipped host asset
/// implementations holds the tape ("for all tapes"): the same history on the same bytes held in memory
/// (the reference, the asset the layers above compare with the model), in a `BufferCursor`, in a
/// `rustzx_utils::io::FileAsset` over a real file and in a `GzipAsset` must give the same EAR trace.
fn deck_trace<H: rustzx_core::host::Host>(e: &mut rustzx_core::Emulator<H>, hist: &[(u8, u64)]) -> Vec<(u64, u8)> {
    let mut out = vec![];
    let mut step: u64 = 0;
    let mut level = e.verif_read_io(0x7FFE) & 0x40;
    out.push((0, level));
    for (op, n) in hist {
        match op {
            0 => e.play_tape(),
            1 => e.stop_tape(),
            2 => e.rewind_tape().unwrap_or(()),
            _ => {
                let mut left = *n;
                while left > 0 {
                    let d = left.min(211);
                    e.verif_wait(d as usize);
                    left -= d;
                    step += 1;
                    let lv = e.verif_read_io(0x7FFE) & 0x40;
                    if lv != level {
                        out.push((step, lv));
                        level = lv;
                    }
                }
            }
        }
        out.push((step, 0x80 | (e.verif_read_io(0x7FFE) & 0x40)));
    }
    out
}

/// A host whose tape asset type is the asset implementation itself (no `DynamicAsset` box in between, which
/// forwards only the required methods of the asset traits).
struct AHost<A>(std::marker::PhantomData<A>);
struct ACtx;
impl<A: rustzx_core::host::LoadableAsset + rustzx_core::host::SeekableAsset> rustzx_core::host::HostContext<AHost<A>> for ACtx {
    fn frame_buffer_context(&self) {}
}
impl<A: rustzx_core::host::LoadableAsset + rustzx_core::host::SeekableAsset> rustzx_core::host::Host for AHost<A> {
    type Context = ACtx;
    type TapeAsset = A;
    type FrameBuffer = crate::host::Fb;
    type EmulationStopwatch = crate::host::Sw;
    type IoExtender = crate::host::Ext;
    type DebugInterface = crate::c16::env::DDbg;
}

fn direct_trace<A: rustzx_core::host::LoadableAsset + rustzx_core::host::SeekableAsset>(m128: bool, asset: A, hist: &[(u8, u64)]) -> Result<Vec<(u64, u8)>, String> {
    let mut e: rustzx_core::Emulator<AHost<A>> =
        rustzx_core::Emulator::new(crate::host::settings(&crate::host::Cfg::new(m128)), ACtx).map_err(|_| "Emulator::new failed".to_string())?;
    e.load_tape(rustzx_core::host::Tape::Tap(asset)).map_err(|e| format!("load_tape: {:?}", e))?;
    Ok(deck_trace(&mut e, hist))
}

fn asset_kinds(o: &Opts, rep: &mut Report, only: Option<(u64, usize)>) {
    use crate::c16::env::{DCtx, Deliv, Emu as DEmu};
    use crate::host::*;
    let seed = only.map(|x| x.0).unwrap_or(o.seed);
    for k in 0..o.n(10, 120) as usize {
        if let Some((_, kk)) = only {
            if kk != k {
                continue;
            }
        }
        let mut rng = Rng::new(seed ^ 0xA55E7 ^ ((k as u64) << 20));
        let m128 = k % 2 == 1;
        // 2-4 short blocks of different lengths and flags, so that a pass starting anywhere else looks different
        let nb = 2 + rng.below(3) as usize;
        let mut tap = vec![];
        let mut pass_t: u64 = 0;
        for i in 0..nb {
            let len = 2 + i + rng.below(4) as usize;
            let mut b = vec![if i % 2 == 0 { 0xFF } else { 0x00 }];
            b.extend(rng.bytes(len - 1));
            tap.extend_from_slice(&(b.len() as u16).to_le_bytes());
            tap.extend_from_slice(&b);
            pass_t += (if b[0] < 128 { 8063 } else { 3223 }) * 2168 + 1402 + b.len() as u64 * 8 * 3420 + 3_500_000;
        }
        // history: passes separated by rewinds (explicit while playing, explicit while stopped, or running off the end)
        let mut hist: Vec<(u8, u64)> = vec![];
        let passes = 2 + rng.below(3);
        for _ in 0..passes {
            hist.push((0, 0));
            match rng.below(4) {
                0 => {
                    hist.push((3, pass_t + 200_000));
                }
                1 => {
                    hist.push((3, rng.below(pass_t)));
                    hist.push((2, 0));
                }
                2 => {
                    hist.push((3, rng.below(pass_t)));
                    hist.push((1, 0));
                    hist.push((3, rng.below(50_000)));
                    hist.push((2, 0));
                }
                _ => {
                    hist.push((3, rng.below(9_000_000)));
                    hist.push((2, 0));
                    hist.push((3, rng.below(30_000)));
                }
            }
        }
        hist.push((0, 0));
        hist.push((3, pass_t.min(9_000_000 + rng.below(8_000_000))));
        let reference = {
            let mut e = emu(&Cfg::new(m128));
            let _ = e.load_tape(rustzx_core::host::Tape::Tap(VAsset::new(tap.clone())));
            deck_trace(&mut e, &hist)
        };
        // each implementation boxed in a DynamicAsset (as the application holds them) and as the host's asset type itself
        for (d, direct) in [(Deliv::File, false), (Deliv::Gzip, false), (Deliv::Whole, false), (Deliv::File, true), (Deliv::Gzip, true), (Deliv::Whole, true)] {
            let got: Result<Vec<(u64, u8)>, String> = (|| {
                if direct {
                    return match d {
                        Deliv::File => direct_trace(m128, rustzx_utils::io::FileAsset::from(crate::c16::env::temp_file(&tap)?), &hist),
                        Deliv::Gzip => {
                            let gz = crate::c16::env::gzip_stored(&tap, 1000);
                            direct_trace(m128, rustzx_utils::io::GzipAsset::new(&gz[..]).map_err(|e| format!("gzip: {}", e))?, &hist)
                        }
                        _ => direct_trace(m128, rustzx_core::host::BufferCursor::new(tap.clone()), &hist),
                    };
                }
                let mut e: DEmu = rustzx_core::Emulator::new(settings(&Cfg::new(m128)), DCtx).map_err(|_| "Emulator::new failed".to_string())?;
                e.load_tape(rustzx_core::host::Tape::Tap(d.make(&tap)?)).map_err(|e| format!("load_tape: {:?}", e))?;
                Ok(deck_trace(&mut e, &hist))
            })();
            rep.eval();
            rep.class(format!("asset kind {} direct={} m128={} passes={}", d.class(), direct, m128, passes));
            let bad = match &got {
                Err(e) => Some(e.clone()),
                Ok(t) if *t != reference => {
                    let i = t.iter().zip(reference.iter()).position(|(a, b)| a != b).unwrap_or(t.len().min(reference.len()));
                    Some(format!(
                        "trace entry {} (step of 211 T, EAR bit; 0x80 marks the end of a command): {:?} with this asset, {:?} with the tape in memory ({} / {} entries)",
                        i,
                        t.get(i),
                        reference.get(i),
                        t.len(),
                        reference.len()
                    ))
                }
                _ => None,
            };
            if let Some(b) = bad {
                let hs: Vec<String> = hist.iter().map(|(op, n)| match op { 0 => "play".into(), 1 => "stop".into(), 2 => "rewind".into(), _ => format!("run {}", n) }).collect();
                rep.violation(Violation {
                    kind: Kind::SpecViolated,
                    key: format!("C12/asset/{}", d.class()),
                    what: format!("{}: tape of {} blocks held in asset implementation '{}', history [{}]: {}", if m128 { "128K" } else { "48K" }, nb, d.class(), hs.join(", "), b),
                    correspondence: "corr.C12.component (the deck's behaviour is a function of the tape bytes and the command history)".into(),
                    case: J::obj(vec![("text", J::s(format!("assets seed={} k={}", seed, k)))]),
                    implementation: b,
                    expected: "the trace of the same history on the same bytes held in memory".into(),
                });
                return;
            }
        }
    }
}

fn report_sys(rep: &mut Report, c: &SysCase, expect: &[u8], d: c11::Dis, name: &str) {
    // the system-level symptom of the stale-state defects is keyed by the scripted scenario
    let key = format!("{}/{}", d.key, name.replace(' ', "-"));
    if rep.has_key(&key) {
        rep.count("repeat_violations", key);
        return;
    }
    let text = c11::sys_text(c).replacen("system ", &format!("system expect={} ", if expect.is_empty() { "-".to_string() } else { hex(expect) }), 1);
    rep.violation(Violation {
        kind: d.kind,
        key,
        what: format!("{} (scenario: {}) [case: {}]", d.what, name, c11::truncate(&text, 300)),
        correspondence: "corr.C12.rom (real ROM loads after Emulator::play_tape/stop_tape/rewind_tape vs the deck's block sequence)".into(),
        case: J::obj(vec![("text", J::s(text))]),
        implementation: d.implementation.clone(),
        expected: d.expected.clone(),
    });
}
