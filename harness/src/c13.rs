//! C13 — SNA save then load restores the machine; saving is side-effect free.
//! Real code: `Emulator::save_snapshot` into an in-memory recorder (compared byte-exact with the
//! model's `snaSave` and with the layout the spec prescribes), `Emulator::load_snapshot` into fresh
//! and dirty emulators (halted, mid prefix chain, paging locked, other border, other RAM), state
//! read back through the hooks (registers, `verif_paging`, every RAM byte through `peek`).
#[path = "snap.rs"]
pub mod snap;

use crate::host::*;
use crate::util::*;
use snap::*;
use std::collections::BTreeMap;

#[derive(Clone, Debug)]
pub struct Case {
    pub src: MState,
    pub recv: MState,
}

impl Case {
    pub fn text(&self) -> String {
        format!("src {} || recv {}", self.src.line(), self.recv.line())
    }
    pub fn parse(s: &str) -> Option<Case> {
        let (a, b) = s.split_once("||")?;
        Some(Case {
            src: MState::parse(a.trim().strip_prefix("src")?),
            recv: MState::parse(b.trim().strip_prefix("recv")?),
        })
    }
}

#[derive(Clone, Debug)]
pub struct Finding {
    pub phase: &'static str,
    pub group: String,
    pub kind: Kind,
    pub got: String,
    pub want: String,
}

const REG_KEYS: [&str; 16] = [
    "af", "bc", "de", "hl", "afx", "bcx", "dex", "hlx", "ix", "iy", "sp", "pc", "i", "r", "iff", "im",
];
pub const STATE_KEYS: [&str; 23] = [
    "af", "bc", "de", "hl", "afx", "bcx", "dex", "hlx", "ix", "iy", "sp", "pc", "i", "r", "iff", "im",
    "halt", "skip", "mid", "lat", "lk", "bd", "pages",
];
pub const MODEL_ONLY_KEYS: [&str; 2] = ["sb", "pfx"];

pub fn group_of(key: &str) -> String {
    if key.starts_with("page") {
        "ram".into()
    } else if key == "lat" || key == "lk" || key == "sb" {
        "paging".into()
    } else {
        key.into()
    }
}

/// impl vs spec (SpecViolated), then impl vs model (ModelMismatch), per group
pub fn compare_state(
    phase: &'static str,
    got: &BTreeMap<String, String>,
    model: Option<&BTreeMap<String, String>>,
    spec: Option<&BTreeMap<String, String>>,
    keys: &[&str],
    out: &mut Vec<Finding>,
) {
    let mut seen: Vec<String> = vec![];
    if let Some(spec) = spec {
        for (k, g, w) in diff_obs(got, spec, keys) {
            let grp = group_of(&k);
            if !seen.contains(&grp) {
                seen.push(grp.clone());
                out.push(Finding { phase, group: grp, kind: Kind::SpecViolated, got: format!("{}={}", k, g), want: format!("{}={}", k, w) });
            }
        }
    }
    if let Some(model) = model {
        let mut ks: Vec<&str> = keys.to_vec();
        ks.extend_from_slice(&MODEL_ONLY_KEYS);
        for (k, g, w) in diff_obs(got, model, &ks) {
            let grp = group_of(&k);
            if !seen.contains(&grp) {
                seen.push(grp.clone());
                out.push(Finding { phase, group: grp, kind: Kind::ModelMismatch, got: format!("{}={}", k, g), want: format!("{}={}", k, w) });
            }
        }
    }
}

const HDR_NAMES: [&str; 27] = [
    "i", "hlx", "hlx", "dex", "dex", "bcx", "bcx", "afx", "afx", "hl", "hl", "de", "de", "bc", "bc", "iy", "iy",
    "ix", "ix", "iff2", "r", "af", "af", "sp", "sp", "im", "border",
];

fn file_field(off: usize, len: usize) -> String {
    if off < 27 {
        HDR_NAMES[off].to_string()
    } else if len > 49179 && (49179..49183).contains(&off) {
        ["pc", "pc", "latch", "trdos"][off - 49179].to_string()
    } else {
        "banks".to_string()
    }
}

/// first offset at which the real file differs from the driver's current file
fn first_diff(model: &mut Model, bytes: &[u8], other_len: usize) -> usize {
    let n = bytes.len().min(other_len);
    let (mut lo, mut hi) = (0usize, n); // invariant: prefix [0,lo) equal
    let eq = |model: &mut Model, a: usize, b: usize| -> bool {
        model.ask(&format!("fhash {:x} {:x}", a, b - a)) == format!("{:016x}", fnv(&bytes[a..b]))
    };
    if eq(model, 0, n) {
        return n;
    }
    while hi - lo > 1 {
        let mid = (lo + hi) / 2;
        if eq(model, lo, mid) {
            lo = mid;
        } else {
            hi = mid;
        }
    }
    lo
}

fn file_summary(bytes: &[u8]) -> BTreeMap<String, String> {
    let mut m = BTreeMap::new();
    m.insert("len".into(), bytes.len().to_string());
    m.insert("hash".into(), format!("{:016x}", fnv(bytes)));
    m.insert("hdr".into(), hex(&bytes[..bytes.len().min(27)]));
    m.insert(
        "sec".into(),
        if bytes.len() > 49183 { hex(&bytes[49179..49183]) } else { "-".into() },
    );
    m
}

pub struct Ctx {
    pub model: Model,
    pub fx: u32,
}

fn known_banks(st: &MState) -> Vec<(Vec<u8>, String)> {
    st.banks.iter().map(|b| (b.bytes(), b.desc())).collect()
}

fn sna_boundaries(len: usize) -> Vec<usize> {
    let mut v = vec![];
    let mut p = 27;
    while p + PAGE <= len.min(49179) {
        v.push(p);
        p += PAGE;
    }
    let mut p = 49183;
    while p + PAGE <= len {
        v.push(p);
        p += PAGE;
    }
    v
}

/// Runs one case against the real code and the model; returns every disagreement.
pub fn check_case(cx: &mut Ctx, case: &Case, rep: Option<&mut Report>) -> Vec<Finding> {
    let (mut out, setup) = check_case_inner(cx, case, rep);
    // a source machine that is not in the state the model was told (only its paging registers differ) still goes
    // through the round trip: if the spec is violated there, that is the finding; otherwise the setup mismatch is
    if !out.iter().any(|f| f.kind == Kind::SpecViolated) && !setup.is_empty() {
        return setup;
    }
    if out.is_empty() {
        out = setup;
    }
    out
}

fn check_case_inner(cx: &mut Ctx, case: &Case, mut rep: Option<&mut Report>) -> (Vec<Finding>, Vec<Finding>) {
    let mut out = vec![];
    let m128 = case.src.m128;
    let model = &mut cx.model;
    let a = model.ask(&format!("mach 0 {}", case.src.line()));
    assert_eq!(a, "ok");
    let mut e = build(&case.src);
    // 0. the emulator really is in the described state (ties the generator to the model's `mach`)
    let o0 = observe(&mut e, m128);
    let m0 = kv_of(&model.ask("obs 0"));
    compare_state("setup", &o0, Some(&m0), None, &STATE_KEYS, &mut out);
    let setup: Vec<Finding> = std::mem::take(&mut out);
    if setup.iter().any(|f| f.group != "paging") {
        return (vec![], setup);
    }
    if let Some(r) = rep.as_deref_mut() {
        r.eval();
    }
    // 1. save: byte-exact
    let bytes = match save_sna(&mut e) {
        Ok(b) => b,
        Err(o) => {
            out.push(Finding { phase: "save", group: "outcome".into(), kind: Kind::SpecViolated, got: o.text(), want: "ok".into() });
            return (out, setup);
        }
    };
    let ans = model.ask("save 0");
    let parts: Vec<&str> = ans.split(" | ").collect();
    let mfile = kv_of(parts[0]);
    let sfile = kv_of(parts[1].trim_start_matches("spec "));
    let eff = kv_of(parts[2].trim_start_matches("eff "));
    let got = file_summary(&bytes);
    if let Some(r) = rep.as_deref_mut() {
        r.eval();
        r.count("saved_file_length", bytes.len().to_string());
    }
    let spec_ok = got == sfile;
    // where the real file first differs from a summary: header and secondary header are compared
    // locally, only a difference inside the banks needs the driver (bisection over prefix hashes)
    let locate = |model: &mut Model, other: &BTreeMap<String, String>, which: &str| -> (usize, String) {
        let olen: usize = other["len"].parse().unwrap_or(0);
        let ohdr = unhex(&other["hdr"]);
        for k in 0..27.min(bytes.len()).min(ohdr.len()) {
            if bytes[k] != ohdr[k] {
                return (k, format!("{:02x}", ohdr[k]));
            }
        }
        if other["sec"] != "-" && got["sec"] != "-" {
            let osec = unhex(&other["sec"]);
            for k in 0..4 {
                if bytes[49179 + k] != osec[k] {
                    return (49179 + k, format!("{:02x}", osec[k]));
                }
            }
        }
        model.ask(which);
        let off = first_diff(model, &bytes, olen);
        let want = model.ask(&format!("fslice {:x} 1", off));
        (off, want)
    };
    // every differing header / secondary-header field is reported on its own; a difference inside
    // the banks is located by bisection
    let header_diffs = |other: &BTreeMap<String, String>| -> Vec<(usize, String)> {
        let mut v: Vec<(usize, String)> = vec![];
        let ohdr = unhex(&other["hdr"]);
        for k in 0..27.min(bytes.len()).min(ohdr.len()) {
            if bytes[k] != ohdr[k] {
                v.push((k, format!("{:02x}", ohdr[k])));
            }
        }
        if other["sec"] != "-" && got["sec"] != "-" {
            let osec = unhex(&other["sec"]);
            for k in 0..4 {
                if bytes[49179 + k] != osec[k] {
                    v.push((49179 + k, format!("{:02x}", osec[k])));
                }
            }
        }
        v
    };
    let mut report = |out: &mut Vec<Finding>, model: &mut Model, other: &BTreeMap<String, String>, which: &str, phase: &'static str, kind: Kind| {
        let olen: usize = other["len"].parse().unwrap_or(0);
        let mut diffs = header_diffs(other);
        if diffs.is_empty() {
            let (off, want) = locate(model, other, which);
            diffs.push((off, want));
        }
        let mut seen: Vec<String> = vec![];
        for (off, want) in diffs {
            let group = if bytes.len() != olen && off >= bytes.len().min(olen) { "length".to_string() } else { file_field(off, olen) };
            if seen.contains(&group) {
                continue;
            }
            seen.push(group.clone());
            out.push(Finding {
                phase,
                group,
                kind,
                got: format!("len={} byte[{}]={:02x?}", bytes.len(), off, bytes.get(off)),
                want: format!("len={} byte[{}]={}", olen, off, want),
            });
        }
    };
    if !spec_ok {
        report(&mut out, model, &sfile, "specfile 0", "save", Kind::SpecViolated);
    }
    if got != mfile {
        // a field the spec already decided is not reported a second time as a model mismatch
        let mut tmp = vec![];
        report(&mut tmp, model, &mfile, "save 0", "save", Kind::ModelMismatch);
        for f in tmp {
            if !out.iter().any(|g| g.phase == "save" && g.group == f.group) {
                out.push(f);
            }
        }
    }
    // 2. save is pure
    let o1 = observe(&mut e, m128);
    compare_state("save-effect", &o1, Some(&eff), Some(&m0), &STATE_KEYS, &mut out);
    if let Some(r) = rep.as_deref_mut() {
        r.eval();
    }
    // 3. load into the receiver
    let a = model.ask(&format!("mach 1 {}", case.recv.line()));
    assert_eq!(a, "ok");
    let mut rcv = build(&case.recv);
    let mid_frame = snap::dirty_midframe(&mut rcv, &case.recv);
    if let Some(r) = rep.as_deref_mut() {
        r.count("receiver_mid_frame", if mid_frame { "inside a frame, after a border write" } else { "frame start" });
    }
    let mut known = known_banks(&case.src);
    // a 48K image carries PC inside a bank: describe that bank with the two overrides
    if !m128 {
        let mut pushed = case.src.clone();
        let sp = case.src.sp();
        pushed.poke(sp.wrapping_sub(1), (case.src.pc() >> 8) as u8);
        pushed.poke(sp.wrapping_sub(2), case.src.pc() as u8);
        known.extend(known_banks(&pushed));
    }
    let segs = segments(&bytes, &known, &sna_boundaries(bytes.len()));
    let mut first = true;
    for chunk in segs.chunks(4) {
        let a = model.ask(&format!("{} {}", if first { "file" } else { "fileadd" }, chunk.join(" ")));
        first = false;
        let _ = a;
    }
    let chk = model.ask(&format!("fhash 0 {:x}", bytes.len()));
    assert_eq!(chk, format!("{:016x}", fnv(&bytes)), "file transfer to the driver is broken");
    let ans = model.ask("load 1 2");
    let (mpart, spart) = ans.split_once(" | spec ").unwrap_or((&ans, "none"));
    let outcome = load_sna(&mut rcv, &bytes);
    let spec = if spart == "none" { None } else { Some(kv_of(spart)) };
    if let Some(r) = rep.as_deref_mut() {
        r.eval();
    }
    let model_outcome = if mpart.starts_with("ok") { "ok".to_string() } else { mpart.to_string() };
    if spec.is_some() && outcome != Outcome::Ok {
        out.push(Finding { phase: "load", group: "outcome".into(), kind: Kind::SpecViolated, got: outcome.text(), want: "ok".into() });
    } else if outcome.text() != model_outcome {
        out.push(Finding { phase: "load", group: "outcome".into(), kind: Kind::ModelMismatch, got: outcome.text(), want: model_outcome.clone() });
    }
    if outcome == Outcome::Ok {
        let o2 = observe(&mut rcv, case.recv.m128);
        let mm = if mpart.starts_with("ok ") { Some(kv_of(&mpart[3..])) } else { None };
        compare_state("load", &o2, mm.as_ref(), spec.as_ref(), &STATE_KEYS, &mut out);
        // 4. round trip: what the prescribed file of the source state gives in this receiver
        let rt = model.ask("rt 0 1");
        if rt != "none" {
            let want = kv_of(&rt);
            let mut tmp = vec![];
            compare_state("roundtrip", &o2, None, Some(&want), &STATE_KEYS, &mut tmp);
            // on the 48K the statement is conditional on the two bytes below SP being RAM
            let sp = case.src.sp();
            let stack_in_ram = m128 || (sp.wrapping_sub(1) >= 0x4000 && sp.wrapping_sub(2) >= 0x4000);
            // round trip = load after save: a group already reported for one of the halves is not repeated
            if stack_in_ram {
                for f in tmp {
                    if !out.iter().any(|g| g.group == f.group && g.kind == Kind::SpecViolated) {
                        out.push(f);
                    }
                }
            }
            if let Some(r) = rep.as_deref_mut() {
                r.eval();
                r.class(format!(
                    "roundtrip {} n={} lock={} recv[halt={} skip={} pfx={} lock={}] stack_ram={}",
                    if m128 { "128k" } else { "48k" },
                    case.src.latch & 7,
                    case.src.locked() as u8,
                    case.recv.halt as u8,
                    case.recv.skip as u8,
                    case.recv.pfx,
                    case.recv.locked() as u8,
                    stack_in_ram as u8
                ));
            }
        }
        // 5. continued execution: source (after saving) and loaded machine run the same steps
        let sp = case.src.sp();
        let stack_ok = m128 || (sp.wrapping_sub(1) >= 0x4000 && sp.wrapping_sub(2) >= 0x4000);
        if out.is_empty() && stack_ok && case.src.iff1 == case.src.iff2 && !case.src.halt && !case.src.skip && case.src.pfx == 0 {
            if !m128 {
                // the 48K format keeps PC in the two bytes below SP: the loaded machine has them in RAM
                let (sp, pc) = (case.src.sp(), case.src.pc());
                e.verif_write_mem(sp.wrapping_sub(1), (pc >> 8) as u8, 0);
                e.verif_write_mem(sp.wrapping_sub(2), pc as u8, 0);
            }
            // both at the same frame position; forward only (the hook moves the clock alone, and a clock behind the
            // position the ULA has already drawn is no state of the real machine)
            let t = e.verif_frame_clocks().max(rcv.verif_frame_clocks());
            e.verif_set_frame_clocks(t);
            rcv.verif_set_frame_clocks(t);
            let a = run_steps(&mut e, 4);
            let b = run_steps(&mut rcv, 4);
            if let Some(r) = rep.as_deref_mut() {
                r.eval();
            }
            if a != b {
                out.push(Finding { phase: "continue", group: "execution".into(), kind: Kind::SpecViolated, got: b, want: a });
            }
        }
    }
    // 6. "into the same emulator at any later moment": the saving emulator itself — which by now may
    // have run on for a few steps, and whose latch still holds exactly the byte the file carries —
    // loads its own snapshot back. Expected: the round-trip state (the spec's reading of the prescribed
    // file; nothing SNA carries depends on the receiver).
    {
        let sp = case.src.sp();
        let stack_ok = m128 || (sp.wrapping_sub(1) >= 0x4000 && sp.wrapping_sub(2) >= 0x4000);
        let rt = model.ask("rt 0 0");
        if stack_ok && rt != "none" {
            let want = kv_of(&rt);
            let outcome = load_sna(&mut e, &bytes);
            if let Some(r) = rep.as_deref_mut() {
                r.eval();
                r.class(format!("reload into the saving emulator {} lock={}", if m128 { "128k" } else { "48k" }, case.src.locked() as u8));
            }
            if outcome != Outcome::Ok {
                out.push(Finding { phase: "reload", group: "outcome".into(), kind: Kind::SpecViolated, got: outcome.text(), want: "ok".into() });
            } else {
                let o3 = observe(&mut e, m128);
                let mut tmp = vec![];
                compare_state("reload", &o3, None, Some(&want), &STATE_KEYS, &mut tmp);
                for f in tmp {
                    // a group the load into the other receiver already reported is not repeated
                    if !out.iter().any(|g| g.group == f.group && g.kind == Kind::SpecViolated) {
                        out.push(f);
                    }
                }
            }
        }
    }
    (out, setup)
}

/// features of a case that differ from the all-default case (for the stable key)
fn features(case: &Case) -> String {
    let mut f = vec![];
    let d = MState::fresh(case.src.m128);
    let s = &case.src;
    for (n, name) in WNAMES.iter().enumerate() {
        if s.w[n] != 0 {
            f.push(format!("src.{}", name));
        }
    }
    if s.i != 0 { f.push("src.i".into()); }
    if s.r != 0 { f.push("src.r".into()); }
    if s.iff1 { f.push("src.iff1".into()); }
    if s.iff2 { f.push("src.iff2".into()); }
    if s.im != 0 { f.push("src.im".into()); }
    if s.halt { f.push("src.halt".into()); }
    if s.skip { f.push("src.skip".into()); }
    if s.pfx != 0 { f.push("src.pfx".into()); }
    if s.border != 0 { f.push("src.border".into()); }
    if s.locked() { f.push("src.locked".into()); } else if s.latch != 0 { f.push("src.paging".into()); }
    if s.banks != d.banks { f.push("src.ram".into()); }
    let r = &case.recv;
    if r.w != d.w || r.i != 0 || r.r != 0 || r.iff1 || r.iff2 || r.im != 0 { f.push("recv.regs".into()); }
    if r.halt { f.push("recv.halt".into()); }
    if r.skip { f.push("recv.skip".into()); }
    if r.pfx != 0 { f.push("recv.pfx".into()); }
    if r.border != 0 { f.push("recv.border".into()); }
    if r.locked() { f.push("recv.locked".into()); } else if r.latch != 0 { f.push("recv.paging".into()); }
    if r.banks != d.banks { f.push("recv.ram".into()); }
    if r.m128 != s.m128 { f.push("recv.other-model".into()); }
    f.join("+")
}

fn has(fs: &[Finding], phase: &str, group: &str, kind: Kind) -> bool {
    fs.iter().any(|f| f.phase == phase && f.group == group && f.kind == kind)
}

/// Greedy shrinking towards the all-default case, in a fixed order; every candidate is re-run on
/// the real code and re-adjudicated.
fn shrink(cx: &mut Ctx, case: &Case, phase: &str, group: &str, kind: Kind) -> Case {
    let mut cur = case.clone();
    let mut try_cand = |cx: &mut Ctx, cur: &mut Case, cand: Case| {
        if cand.src == cur.src && cand.recv == cur.recv {
            return;
        }
        if has(&check_case(cx, &cand, None), phase, group, kind) {
            *cur = cand;
        }
    };
    // RAM first (cheap candidates afterwards), then the receiver entirely fresh, then aspect by aspect
    let mut c = cur.clone();
    c.src.banks = MState::fresh(cur.src.m128).banks;
    c.recv.banks = MState::fresh(cur.recv.m128).banks;
    try_cand(cx, &mut cur, c);
    let mut c = cur.clone();
    c.recv = MState::fresh(cur.recv.m128);
    try_cand(cx, &mut cur, c);
    let fresh = MState::fresh(cur.recv.m128);
    let steps: Vec<Box<dyn Fn(&mut Case)>> = vec![
        Box::new(|c| c.src.banks = MState::fresh(c.src.m128).banks),
        Box::new(|c| c.recv.banks = MState::fresh(c.recv.m128).banks),
        Box::new(|c| { c.recv.w = [0; 12]; c.recv.i = 0; c.recv.r = 0; c.recv.iff1 = false; c.recv.iff2 = false; c.recv.im = 0; }),
        Box::new(|c| c.recv.halt = false),
        Box::new(|c| c.recv.skip = false),
        Box::new(|c| c.recv.pfx = 0),
        Box::new(|c| c.recv.border = 0),
        Box::new(|c| c.recv.latch = 0),
        Box::new(|c| c.recv.latch &= 0x20),
        Box::new(|c| for b in c.src.banks.iter_mut() { b.ov.clear(); }),
        Box::new(|c| c.src.latch = 0),
        Box::new(|c| c.src.latch &= 0x27),
        Box::new(|c| c.src.latch &= 0x07),
        Box::new(|c| c.src.halt = false),
        Box::new(|c| c.src.skip = false),
        Box::new(|c| c.src.pfx = 0),
        Box::new(|c| c.src.border = 0),
        Box::new(|c| c.src.i = 0),
        Box::new(|c| c.src.r = 0),
        Box::new(|c| c.src.iff1 = false),
        Box::new(|c| c.src.iff2 = false),
        Box::new(|c| c.src.im = 0),
    ];
    let _ = fresh;
    for s in &steps {
        let mut c = cur.clone();
        s(&mut c);
        try_cand(cx, &mut cur, c);
    }
    for n in 0..12 {
        let mut c = cur.clone();
        c.src.w[n] = 0;
        try_cand(cx, &mut cur, c);
        // SP: a plain RAM address is "more default" than an arbitrary one
        if n == 10 && cur.src.w[10] != 0 && cur.src.w[10] != 0x8000 {
            let mut c = cur.clone();
            c.src.w[10] = 0x8000;
            try_cand(cx, &mut cur, c);
        }
    }
    cur
}

fn record(cx: &mut Ctx, rep: &mut Report, case: &Case, f: &Finding) {
    let small = shrink(cx, case, f.phase, &f.group, f.kind);
    let fs = check_case(cx, &small, None);
    let f2 = fs
        .iter()
        .find(|g| g.phase == f.phase && g.group == f.group && g.kind == f.kind)
        .cloned()
        .unwrap_or_else(|| f.clone());
    let key = format!(
        "C13/{}/{}/{}/{}",
        f2.phase,
        f2.group,
        if small.src.m128 { "128k" } else { "48k" },
        features(&small)
    );
    rep.violation(Violation {
        kind: f2.kind,
        key,
        what: format!(
            "{} {}: real code gives {} but {} says {} (case: {})",
            f2.phase,
            f2.group,
            f2.got,
            if f2.kind == Kind::SpecViolated { "the spec" } else { "the Lean model" },
            f2.want,
            small.text()
        ),
        correspondence: "corr.C13.sna (Model.Snapshot.snaSave/snaSaveEffect/snaLoad vs Emulator::save_snapshot/load_snapshot)".into(),
        case: J::obj(vec![("text", J::s(small.text()))]),
        implementation: f2.got.clone(),
        expected: f2.want.clone(),
    });
}

// ---------------------------------------------------------------------------------------------
// generators

pub fn rnd16(r: &mut Rng) -> u16 {
    match r.below(10) {
        0 => 0x0000,
        1 => 0xFFFF,
        2 => 0x8000,
        3 => 0x7FFF,
        _ => r.u16(),
    }
}

pub fn random_state(r: &mut Rng, m128: bool, source: bool) -> MState {
    let mut s = MState::fresh(m128);
    for n in 0..12 {
        s.w[n] = rnd16(r);
    }
    // HL and HL' distinct most of the time (otherwise a swapped getter hides)
    // SP: mostly RAM, sometimes the edges of the ROM / the address space
    s.w[10] = match r.below(12) {
        0 => 0x4000,
        1 => 0x4001,
        2 => 0x4002,
        3 => 0x0000,
        4 => 0x0001,
        5 => 0xFFFF,
        6 => 0xC000,
        7 => 0xC001,
        8 => 0x8001,
        _ => 0x4002 + r.below(0xBFFC) as u16,
    };
    s.i = r.u8();
    s.r = match r.below(10) {
        0 => 0x00,
        1 => 0x01,
        2 => 0x80,
        3 => 0x81,
        4 => 0x7F,
        5 => 0xFF,
        _ => r.u8(),
    };
    s.iff2 = r.bool();
    s.iff1 = if r.chance(1, 6) { !s.iff2 } else { s.iff2 };
    s.im = r.below(3) as u8;
    s.border = r.below(8) as u8;
    if m128 {
        s.latch = r.u8();
    }
    // banks: distinct non-zero seeds, now and then two banks with equal contents or an untouched bank
    let nb = s.banks.len();
    for k in 0..nb {
        s.banks[k] = Bank::new(match r.below(12) {
            0 => 0,
            1 if k > 0 => s.banks[k - 1].seed,
            _ => 1 + r.below(0xFFFF_FFFF),
        });
    }
    if source {
        // a tiny program at PC (if PC is in RAM): INC A / INC B / INC HL / NOP / DEC C ...
        let ops = [0x3Cu8, 0x04, 0x23, 0x00, 0x0D, 0x13, 0x2C, 0x14];
        for k in 0..6u16 {
            let op = *r.pick(&ops);
            s.poke(s.pc().wrapping_add(k), op);
        }
        if r.chance(1, 10) {
            s.halt = true;
        }
        if r.chance(1, 10) {
            s.skip = true;
        }
    } else {
        s.halt = r.chance(1, 2);
        s.skip = r.chance(1, 3);
        s.pfx = if r.chance(1, 2) { *r.pick(&[2u8, 3, 4]) } else { 0 };
    }
    s
}

// ---------------------------------------------------------------------------------------------
// which candidate repairs does the tree under test contain? (one targeted probe per flag)

pub fn detect_fixes() -> (u32, Vec<String>) {
    let mut fx = 0u32;
    let mut notes = vec![];
    // bit 0 hlAlt
    {
        let mut s = MState::fresh(true);
        s.w[3] = 0x4433;
        s.w[7] = 0x2211;
        let mut e = build(&s);
        if let Ok(b) = save_sna(&mut e) {
            if b[1] == 0x11 && b[2] == 0x22 {
                fx |= 1;
            }
        }
    }
    // bit 1 unlockOnLoad, bit 2 resetCpuOnLoad
    {
        let mut s = MState::fresh(true);
        s.latch = 0x03;
        let mut e = build(&s);
        if let Ok(b) = save_sna(&mut e) {
            let mut r = MState::fresh(true);
            r.latch = 0x20;
            r.halt = true;
            r.skip = true;
            r.pfx = 2;
            let mut rc = build(&r);
            if load_sna(&mut rc, &b) == Outcome::Ok {
                if rc.verif_paging().0 == 0x03 {
                    fx |= 2;
                }
                let c = rc.verif_cpu();
                if !c.halted && !c.skip_interrupt && prefix_num(c.verif_active_prefix()) == 0 {
                    fx |= 4;
                } else if !c.halted || !c.skip_interrupt || prefix_num(c.verif_active_prefix()) == 0 {
                    notes.push("receiver CPU execution state is only partly reset on load".into());
                }
            }
        }
    }
    // bit 3 pureSave48
    {
        let mut s = MState::fresh(false);
        s.w[10] = 0x8000;
        s.w[11] = 0x1234;
        let mut e = build(&s);
        let _ = save_sna(&mut e);
        if e.peek(0x7FFF) == 0 && e.peek(0x7FFE) == 0 {
            fx |= 8;
        }
    }
    // bit 4 rejectMismatch
    {
        let mut e = build(&MState::fresh(false));
        if let Ok(b) = save_sna(&mut e) {
            let mut rc = build(&MState::fresh(true));
            if matches!(load_sna(&mut rc, &b), Outcome::Err(_)) {
                fx |= 16;
            }
        }
    }
    (fx, notes)
}

pub fn run(o: &Opts) -> Report {
    let mut rep = Report::new("C13");
    rep.rule = "random machine states (registers with boundary bias, every 7FFD value incl. lock, SP at the ROM/RAM \
and address-space edges, RAM banks = seeded 16 KiB patterns with a small program at PC, sometimes two equal or untouched \
banks) on both machines; each is saved through Emulator::save_snapshot (file compared byte-exact with the model's snaSave \
and with the SNA layout of the spec; machine state afterwards compared with the state before), the file is loaded into a \
fresh and into a dirty emulator (random registers/RAM/border, halted, EI-pending, mid DD/ED/FD chain, paging locked) and \
the result (registers, latch, lock, border, all RAM pages through peek) compared with the model's snaLoad, with what the \
spec says the file describes and with the source state (round trip); then source and loaded machine execute the same four \
steps. distinct = (machine, bank at 0xC000, source lock, receiver halt/skip/prefix/lock, stack-in-RAM) classes of completed round trips"
        .into();
    let (fx, notes) = detect_fixes();
    rep.notes.extend(notes);
    rep.notes.push(format!(
        "repairs detected in the tree under test (model variant used): hlAlt={} unlockOnLoad={} resetCpuOnLoad={} pureSave48={} rejectMismatch={}",
        fx & 1, (fx >> 1) & 1, (fx >> 2) & 1, (fx >> 3) & 1, (fx >> 4) & 1
    ));
    let mut cx = Ctx { model: Model::spawn(&o.model, "C13"), fx };
    assert_eq!(cx.model.ask(&format!("fx {:x}", fx)), "ok");

    if let Some(text) = &o.replay {
        if let Some(case) = Case::parse(text) {
            rep.sample(J::s(case.text()));
            let fs = check_case(&mut cx, &case, Some(&mut rep));
            for f in &fs {
                record(&mut cx, &mut rep, &case, f);
            }
        } else {
            rep.notes.push("replay case could not be parsed".into());
        }
        return rep;
    }

    let mut rng = Rng::new(o.seed ^ 0xC13);
    let mut cases: Vec<Case> = vec![];
    // every bank n at 0xC000, locked and unlocked, into a fresh receiver (the 147487-byte layouts included)
    for n in 0..8u8 {
        for lock in [0u8, 0x20] {
            let mut r = rng.fork();
            let mut s = random_state(&mut r, true, true);
            s.latch = (s.latch & 0xD8) | n | lock;
            cases.push(Case { src: s, recv: MState::fresh(true) });
        }
    }
    let n = o.n(130, 13_000);
    for k in 0..n {
        let mut r = rng.fork();
        let m128 = k % 3 != 0;
        let mut src = random_state(&mut r, m128, true);
        if k % 7 == 6 {
            // the saving machine stands between the prefixes of a DD/FD/ED chain (a frame end or a breakpoint fell
            // there): the format has no field for that, but the save must still leave the running machine alone
            src.pfx = *r.pick(&[2u8, 3, 4]);
            src.skip = true;
        }
        let recv = match r.below(8) {
            0 | 1 => MState::fresh(m128),
            2 | 3 => {
                // the saving machine itself, some time later: same latch (mostly), some things moved on
                let mut c = src.clone();
                c.halt = r.chance(1, 2);
                c.skip = r.chance(1, 3);
                c.pfx = if r.chance(1, 2) { *r.pick(&[2u8, 3, 4]) } else { 0 };
                for _ in 0..r.below(4) {
                    let k = r.below(12) as usize;
                    c.w[k] = rnd16(&mut r);
                }
                for _ in 0..r.below(3) {
                    let k = r.below(c.banks.len() as u64) as usize;
                    c.banks[k] = Bank::new(1 + r.below(0xFFFF_FFFF));
                }
                if r.chance(1, 3) {
                    c.border = r.below(8) as u8;
                }
                if m128 && r.chance(1, 4) {
                    c.latch = r.u8();
                }
                c
            }
            _ => random_state(&mut r, m128, false),
        };
        cases.push(Case { src, recv });
    }
    for (k, case) in cases.iter().enumerate() {
        rep.count("machine", if case.src.m128 { "128k" } else { "48k" });
        rep.count("receiver", format!(
            "halt={} skip={} pfx={} locked={}",
            case.recv.halt as u8, case.recv.skip as u8, (case.recv.pfx != 0) as u8, case.recv.locked() as u8
        ));
        if case.src.m128 {
            rep.count("bank_at_c000", (case.src.latch & 7).to_string());
            rep.count("source_locked", (case.src.locked() as u8).to_string());
        }
        if k < 2 {
            rep.sample(J::s(case.text()));
        }
        let fs = check_case(&mut cx, case, Some(&mut rep));
        for f in &fs {
            rep.count("disagreements", format!("{}/{}/{:?}", f.phase, f.group, f.kind));
        }
        // one shrink per distinct (phase, group, kind, machine): everything else is counted as a repeat
        for f in &fs {
            let tag = format!("{}/{}/{:?}/{}", f.phase, f.group, f.kind, case.src.m128);
            if rep.distribution.get("shrunk").map_or(false, |m| m.get(&tag).copied().unwrap_or(0) >= 2) {
                continue;
            }
            rep.count("shrunk", tag);
            record(&mut cx, &mut rep, case, f);
        }
    }
    rep.extra.push(("cases".into(), J::I(cases.len() as i64)));
    rep.extra.push(("model_requests".into(), J::I(cx.model.requests as i64)));
    rep.extra.push(("fixes_detected".into(), J::I(fx as i64)));
    rep
}
