//! C14 — loading a well-formed SNA / SZX / SCR file yields exactly the described state.
//! The files come from an *independent writer* in this module (written from the format documents:
//! zx-state "ZXST" header + chunks, SNA layout, 6912-byte SCR), with random chunk order, unknown
//! chunks interleaved, RAM pages raw or zlib-compressed (two own encoders: stored blocks and fixed
//! Huffman with run-length matches; `miniz_oxide`'s deflate is not reachable from this crate without
//! changing Cargo.lock, its *inflate* inside rustzx-core is what gets exercised). The real code
//! loads them into fresh and dirty emulators of both models; observed: registers, IFF, IM, halted /
//! EI-pending / pending prefix, latch + lock, every RAM page through `peek`, the border field and the
//! painted border, the displayed screen (frame buffer against an own decode), AY read-back and the
//! audible class of the generated audio, mouse / joystick presence, and a few steps of execution.
use crate::c13::snap::*;
use crate::c13::{group_of, Finding};
use crate::host::*;
use crate::util::*;
use std::collections::BTreeMap;

// ---------------------------------------------------------------------------------------------
// own zlib encoders (RFC 1950/1951)

fn adler32(data: &[u8]) -> u32 {
    let (mut a, mut b) = (1u32, 0u32);
    for d in data {
        a = (a + *d as u32) % 65521;
        b = (b + a) % 65521;
    }
    (b << 16) | a
}

/// stored (BTYPE=00) blocks of at most `blk` bytes
fn zlib_stored(data: &[u8], blk: usize) -> Vec<u8> {
    let mut out = vec![0x78, 0x01];
    let mut chunks = data.chunks(blk).peekable();
    if data.is_empty() {
        out.extend_from_slice(&[1, 0, 0, 0xFF, 0xFF]);
    }
    while let Some(c) = chunks.next() {
        out.push(if chunks.peek().is_none() { 1 } else { 0 });
        let n = c.len() as u16;
        out.extend_from_slice(&n.to_le_bytes());
        out.extend_from_slice(&(!n).to_le_bytes());
        out.extend_from_slice(c);
    }
    out.extend_from_slice(&adler32(data).to_be_bytes());
    out
}

struct BitW {
    out: Vec<u8>,
    acc: u32,
    n: u32,
}

impl BitW {
    /// LSB-first field (extra bits, block header)
    fn bits(&mut self, v: u32, n: u32) {
        self.acc |= v << self.n;
        self.n += n;
        while self.n >= 8 {
            self.out.push(self.acc as u8);
            self.acc >>= 8;
            self.n -= 8;
        }
    }
    /// Huffman code: most significant bit first
    fn code(&mut self, code: u32, len: u32) {
        for i in (0..len).rev() {
            self.bits((code >> i) & 1, 1);
        }
    }
    fn lit(&mut self, sym: u32) {
        match sym {
            0..=143 => self.code(0x30 + sym, 8),
            144..=255 => self.code(0x190 + sym - 144, 9),
            256..=279 => self.code(sym - 256, 7),
            _ => self.code(0xC0 + sym - 280, 8),
        }
    }
}

/// one fixed-Huffman block (BTYPE=01): literals, and distance-1 matches for runs
fn zlib_fixed(data: &[u8]) -> Vec<u8> {
    let mut w = BitW { out: vec![0x78, 0x9C], acc: 0, n: 0 };
    w.bits(1, 1);
    w.bits(1, 2);
    let mut i = 0;
    while i < data.len() {
        w.lit(data[i] as u32);
        let mut run = 0;
        while i + 1 + run < data.len() && data[i + 1 + run] == data[i] && run < 258 {
            run += 1;
        }
        if run >= 3 {
            // length code: 3..10 -> 257..264 (no extra bits); longer runs are cut into such pieces
            let mut left = run;
            while left >= 3 {
                let l = left.min(10);
                w.lit(257 + (l as u32 - 3));
                w.code(0, 5); // distance code 0 = distance 1
                left -= l;
            }
            i += 1 + (run - left);
        } else {
            i += 1;
        }
    }
    w.lit(256);
    if w.n > 0 {
        w.bits(0, 8 - w.n);
    }
    let mut out = w.out;
    out.extend_from_slice(&adler32(data).to_be_bytes());
    out
}

// ---------------------------------------------------------------------------------------------
// independent writers

#[derive(Clone, Copy, Debug, PartialEq, Eq)]
pub enum Comp {
    Raw,
    Stored,
    Fixed,
}

#[derive(Clone, Debug, PartialEq, Eq)]
pub enum Ck {
    Crtr,
    Z80r,
    Spcr,
    Ay,
    Keyb(u8),
    Amxm(u8),
    /// hardware page number, compression
    Ramp(u8, Comp),
    /// unknown chunk: id, length (content derived from both)
    Unknown([u8; 4], usize),
}

/// What an SZX file of this check says. `st` carries registers (IFF1/IFF2 separately),
/// `halt` = ZXSTZF_HALTED, `skip` = ZXSTZF_EILAST, border, latch, bank contents, AY, mouse.
#[derive(Clone, Debug, PartialEq, Eq)]
pub struct SzxSpec {
    /// 1 = 48K, 2 = 128K
    pub mid: u8,
    pub st: MState,
    /// chFe: last OUT to FE (low three bits need not equal the border)
    pub fe: u8,
    pub cycles: u32,
    pub memptr: u16,
    pub fset: bool,
    pub order: Vec<Ck>,
}

enum Piece {
    Lit(Vec<u8>),
    /// a raw page
    Page(Bank),
    /// a compressed page: the really deflated bytes for the code, a tag for the model
    Comp(Bank, Vec<u8>),
}

/// hardware page number -> index into `MState::banks`
pub fn bank_index(m128: bool, page: u8) -> Option<usize> {
    if m128 {
        if page < 8 { Some(page as usize) } else { None }
    } else {
        match page {
            5 => Some(0),
            2 => Some(1),
            0 => Some(2),
            _ => None,
        }
    }
}

fn unknown_body(id: &[u8; 4], len: usize) -> Vec<u8> {
    let mut r = Rng::new(u32::from_le_bytes(*id) as u64 ^ ((len as u64) << 32));
    r.bytes(len)
}

impl SzxSpec {
    fn chunks(&self) -> Vec<([u8; 4], Vec<Piece>)> {
        let s = &self.st;
        let mut out = vec![];
        for ck in &self.order {
            match ck {
                Ck::Crtr => {
                    let mut b = vec![0u8; 32];
                    b[..13].copy_from_slice(b"verif harness");
                    b.extend_from_slice(&1u16.to_le_bytes());
                    b.extend_from_slice(&0u16.to_le_bytes());
                    b.push(0);
                    out.push((*b"CRTR", vec![Piece::Lit(b)]));
                }
                Ck::Z80r => {
                    let mut b = vec![];
                    // AF BC DE HL AF' BC' DE' HL' IX IY SP PC
                    for k in [0usize, 1, 2, 3, 4, 5, 6, 7, 8, 9, 10, 11] {
                        b.extend_from_slice(&s.w[k].to_le_bytes());
                    }
                    b.push(s.i);
                    b.push(s.r);
                    b.push(s.iff1 as u8);
                    b.push(s.iff2 as u8);
                    b.push(s.im);
                    b.extend_from_slice(&self.cycles.to_le_bytes());
                    b.push(0); // chHoldIntReqCycles
                    b.push((s.skip as u8) | ((s.halt as u8) << 1) | ((self.fset as u8) << 2));
                    b.extend_from_slice(&self.memptr.to_le_bytes());
                    assert_eq!(b.len(), 37);
                    out.push((*b"Z80R", vec![Piece::Lit(b)]));
                }
                Ck::Spcr => {
                    let b = vec![s.border, s.latch, 0, self.fe, 0, 0, 0, 0];
                    out.push((*b"SPCR", vec![Piece::Lit(b)]));
                }
                Ck::Ay => {
                    let ay = s.ay.clone().unwrap_or(AyState { sel: 0, regs: [0; 16], enabled: false, played: false });
                    // chFlags: bit 1 = ZXSTAYF_128AY (AY on a 48K machine)
                    let mut b = vec![if self.mid < 2 && ay.enabled { 2 } else { 0 }, ay.sel];
                    b.extend_from_slice(&ay.regs);
                    out.push((*b"AY\0\0", vec![Piece::Lit(b)]));
                }
                Ck::Keyb(j) => {
                    out.push((*b"KEYB", vec![Piece::Lit(vec![0, 0, 0, 0, *j])]));
                }
                Ck::Amxm(t) => {
                    out.push((*b"AMXM", vec![Piece::Lit(vec![*t, 0, 0, 0, 0, 0, 0])]));
                }
                Ck::Ramp(page, comp) => {
                    let bank = bank_index(self.mid >= 2, *page)
                        .map(|k| s.banks[k].clone())
                        .unwrap_or(Bank::new(0));
                    let flags: u16 = if *comp == Comp::Raw { 0 } else { 1 };
                    let mut head = flags.to_le_bytes().to_vec();
                    head.push(*page);
                    let body = match comp {
                        Comp::Raw => Piece::Page(bank),
                        Comp::Stored => {
                            let z = zlib_stored(&bank.bytes(), 5000 + (bank.seed % 50000) as usize);
                            Piece::Comp(bank, z)
                        }
                        Comp::Fixed => {
                            let z = zlib_fixed(&bank.bytes());
                            Piece::Comp(bank, z)
                        }
                    };
                    out.push((*b"RAMP", vec![Piece::Lit(head), body]));
                }
                Ck::Unknown(id, len) => {
                    out.push((*id, vec![Piece::Lit(unknown_body(id, *len))]));
                }
            }
        }
        out
    }

    /// (bytes for the real code, segment list for the Lean driver)
    pub fn encode(&self) -> (Vec<u8>, Vec<String>) {
        let mut real = b"ZXST".to_vec();
        real.extend_from_slice(&[1, 4, self.mid, 0]);
        let mut segs = vec![format!("h{}", hex(&real))];
        for (id, pieces) in self.chunks() {
            let (mut rl, mut ml) = (0usize, 0usize);
            for p in &pieces {
                match p {
                    Piece::Lit(b) => {
                        rl += b.len();
                        ml += b.len();
                    }
                    Piece::Page(_) => {
                        rl += PAGE;
                        ml += PAGE;
                    }
                    Piece::Comp(b, z) => {
                        rl += z.len();
                        ml += 4 + b.desc().len();
                    }
                }
            }
            real.extend_from_slice(&id);
            real.extend_from_slice(&(rl as u32).to_le_bytes());
            let mut mh = id.to_vec();
            mh.extend_from_slice(&(ml as u32).to_le_bytes());
            segs.push(format!("h{}", hex(&mh)));
            for p in pieces {
                match p {
                    Piece::Lit(b) => {
                        real.extend_from_slice(&b);
                        if !b.is_empty() {
                            segs.push(format!("h{}", hex(&b)));
                        }
                    }
                    Piece::Page(b) => {
                        real.extend_from_slice(&b.bytes());
                        segs.push(format!("p{}", b.desc()));
                    }
                    Piece::Comp(b, z) => {
                        real.extend_from_slice(&z);
                        segs.push(format!("z{}", b.desc()));
                    }
                }
            }
        }
        (real, segs)
    }

    pub fn text(&self) -> String {
        let order: Vec<String> = self
            .order
            .iter()
            .map(|c| match c {
                Ck::Crtr => "C".to_string(),
                Ck::Z80r => "Z".to_string(),
                Ck::Spcr => "S".to_string(),
                Ck::Ay => "A".to_string(),
                Ck::Keyb(j) => format!("K{:x}", j),
                Ck::Amxm(t) => format!("M{:x}", t),
                Ck::Ramp(p, c) => format!(
                    "R{}{}",
                    p,
                    match c {
                        Comp::Raw => "r",
                        Comp::Stored => "s",
                        Comp::Fixed => "f",
                    }
                ),
                Ck::Unknown(id, len) => format!("U{}:{:x}", hex(id), len),
            })
            .collect();
        format!(
            "szx mid={} fe={:02x} cyc={:x} mp={:04x} fset={} order={} st {}",
            self.mid,
            self.fe,
            self.cycles,
            self.memptr,
            self.fset as u8,
            order.join(","),
            self.st.line()
        )
    }

    pub fn parse(s: &str) -> Option<SzxSpec> {
        let (head, st) = s.split_once(" st ")?;
        let kv = kv_of(head);
        let h = |k: &str| u32::from_str_radix(kv.get(k).map(|x| x.as_str()).unwrap_or("0"), 16).unwrap_or(0);
        let mut order = vec![];
        for t in kv.get("order")?.split(',') {
            let (c, rest) = t.split_at(1);
            order.push(match c {
                "C" => Ck::Crtr,
                "Z" => Ck::Z80r,
                "S" => Ck::Spcr,
                "A" => Ck::Ay,
                "K" => Ck::Keyb(u8::from_str_radix(rest, 16).ok()?),
                "M" => Ck::Amxm(u8::from_str_radix(rest, 16).ok()?),
                "R" => {
                    let (p, c) = rest.split_at(rest.len() - 1);
                    Ck::Ramp(
                        p.parse().ok()?,
                        match c {
                            "s" => Comp::Stored,
                            "f" => Comp::Fixed,
                            _ => Comp::Raw,
                        },
                    )
                }
                "U" => {
                    let (id, len) = rest.split_once(':')?;
                    let b = unhex(id);
                    Ck::Unknown([b[0], b[1], b[2], b[3]], usize::from_str_radix(len, 16).ok()?)
                }
                _ => return None,
            });
        }
        Some(SzxSpec {
            mid: h("mid") as u8,
            st: MState::parse(st),
            fe: h("fe") as u8,
            cycles: h("cyc"),
            memptr: h("mp") as u16,
            fset: h("fset") != 0,
            order,
        })
    }
}

/// SNA written from the layout: `I HL' DE' BC' AF' HL DE BC IY IX IFF2<<2 R AF SP IM border`,
/// then (48K) the RAM with PC pushed, or (128K) banks 5, 2, n, `PC latch 0`, the rest ascending.
pub fn write_sna(st: &MState) -> (Vec<u8>, Vec<String>) {
    let w = &st.w;
    let mut sp = w[10];
    let mut img = st.clone();
    if !st.m128 {
        img.poke(sp.wrapping_sub(1), (w[11] >> 8) as u8);
        img.poke(sp.wrapping_sub(2), w[11] as u8);
        sp = sp.wrapping_sub(2);
    }
    let mut h = vec![st.i];
    for k in [7usize, 6, 5, 4, 3, 2, 1, 9, 8] {
        h.extend_from_slice(&w[k].to_le_bytes());
    }
    h.push((st.iff2 as u8) << 2);
    h.push(st.r);
    h.extend_from_slice(&w[0].to_le_bytes());
    h.extend_from_slice(&sp.to_le_bytes());
    h.push(st.im);
    h.push(st.border);
    assert_eq!(h.len(), 27);
    let mut real = h.clone();
    let mut segs = vec![format!("h{}", hex(&h))];
    let mut put = |b: &Bank| {
        real.extend_from_slice(&b.bytes());
        segs.push(format!("p{}", b.desc()));
    };
    if st.m128 {
        let n = (st.latch & 7) as usize;
        put(&img.banks[5]);
        put(&img.banks[2]);
        put(&img.banks[n]);
        let sec = [w[11] as u8, (w[11] >> 8) as u8, st.latch, 0];
        real.extend_from_slice(&sec);
        segs.push(format!("h{}", hex(&sec)));
        let mut put = |b: &Bank| {
            real.extend_from_slice(&b.bytes());
            segs.push(format!("p{}", b.desc()));
        };
        for k in [0usize, 1, 3, 4, 6, 7] {
            if k != n {
                put(&img.banks[k]);
            }
        }
    } else {
        for k in 0..3 {
            put(&img.banks[k]);
        }
    }
    (real, segs)
}

// ---------------------------------------------------------------------------------------------
// cases

#[derive(Clone, Debug, PartialEq, Eq)]
pub enum FileSpec {
    Szx(SzxSpec),
    Sna(MState),
    /// 6912 bytes from a seed
    Scr(u64),
}

#[derive(Clone, Debug)]
pub struct Case {
    pub file: FileSpec,
    pub recv: MState,
}

impl Case {
    pub fn text(&self) -> String {
        let f = match &self.file {
            FileSpec::Szx(s) => s.text(),
            FileSpec::Sna(s) => format!("sna st {}", s.line()),
            FileSpec::Scr(seed) => format!("scr seed={:x}", seed),
        };
        format!("{} || recv {}", f, self.recv.line())
    }
    pub fn parse(s: &str) -> Option<Case> {
        let (f, r) = s.split_once("||")?;
        let f = f.trim();
        let recv = MState::parse(r.trim().strip_prefix("recv")?);
        let file = if f.starts_with("szx ") {
            FileSpec::Szx(SzxSpec::parse(f)?)
        } else if let Some(rest) = f.strip_prefix("sna st ") {
            FileSpec::Sna(MState::parse(rest))
        } else {
            let kv = kv_of(f);
            FileSpec::Scr(u64::from_str_radix(kv.get("seed")?, 16).ok()?)
        };
        Some(Case { file, recv })
    }
    fn kind(&self) -> &'static str {
        match self.file {
            FileSpec::Szx(_) => "szx",
            FileSpec::Sna(_) => "sna",
            FileSpec::Scr(_) => "scr",
        }
    }
    fn file_m128(&self) -> bool {
        match &self.file {
            FileSpec::Szx(s) => s.mid >= 2,
            FileSpec::Sna(s) => s.m128,
            FileSpec::Scr(_) => self.recv.m128,
        }
    }
}

fn scr_bytes(seed: u64) -> Vec<u8> {
    let mut r = Rng::new(seed);
    let mut v = r.bytes(6912);
    // no FLASH attributes in one half of the cells so that both decode paths are seen
    for (k, a) in v[6144..].iter_mut().enumerate() {
        if k % 2 == 0 {
            *a &= 0x7F;
        }
    }
    v
}

// ---------------------------------------------------------------------------------------------
// observation of the real emulator (everything C13 observes, plus devices)

/// expected pixel classes of the displayed page: (paper-or-ink colour with bright) per pixel; a
/// FLASH cell may show either phase
fn display_matches(e: &Emu, page: &[u8]) -> bool {
    let fb = e.screen_buffer();
    for y in 0..192usize {
        for xb in 0..32usize {
            let b = page[((y & 0xC0) << 5) | ((y & 7) << 8) | ((y & 0x38) << 2) | xb];
            let a = page[0x1800 + (y >> 3) * 32 + xb];
            let bright = ((a >> 6) & 1) << 3;
            let (ink, paper) = ((a & 7) | bright, ((a >> 3) & 7) | bright);
            for bit in 0..8 {
                let on = b & (0x80 >> bit) != 0;
                let px = fb.px[y * fb.w + xb * 8 + bit];
                let normal = if on { ink } else { paper };
                let flashed = if on { paper } else { ink };
                if px != normal && !(a & 0x80 != 0 && px == flashed) {
                    return false;
                }
            }
        }
    }
    true
}

/// Number of tone edges in a stretch of samples. The signal is differenced over four samples first
/// (slow transients — the DC filter settling after the sound changed, an envelope ramp without tone —
/// vanish, every edge of a square wave becomes one pulse), then sign changes are counted with a
/// hysteresis of a quarter of the peak.
fn tone_edges(samples: &[f32]) -> usize {
    if samples.len() < 8 {
        return 0;
    }
    let d: Vec<f32> = (4..samples.len()).map(|i| samples[i] - samples[i - 4]).collect();
    let amp = d.iter().map(|x| x.abs()).fold(0.0f32, f32::max);
    if amp < 1e-3 {
        return 0;
    }
    let thr = amp * 0.25;
    let mut state = 0i32;
    let mut n = 0;
    for x in &d {
        let ns = if *x > thr { 1 } else if *x < -thr { -1 } else { state };
        if ns != state && state != 0 {
            n += 1;
        }
        state = ns;
    }
    n
}

fn pitch_of(edges_per_frame: usize) -> &'static str {
    match edges_per_frame {
        0..=3 => "silent",
        4..=24 => "low",
        25..=90 => "mid",
        _ => "high",
    }
}

/// Audible class of the sound from the load on. `early` = every sample generated between the load
/// and the end of the second parked frame, `late` = the fourth parked frame (one frame long).
/// A tone that is still there in the late frame is classed by pitch — or as "steady" when channel A
/// is in envelope mode (`envelope_mode` comes from the register read-back); a tone that was there
/// early and is gone late is a "burst".
fn audio_class(early: &[f32], late: &[f32], envelope_mode: bool) -> &'static str {
    let p = pitch_of(tone_edges(late));
    if p == "silent" {
        return if tone_edges(early) >= 10 { "burst" } else { "silent" };
    }
    if envelope_mode {
        return "steady";
    }
    p
}

/// does the envelope shape end at level 0 and stay there (a one-shot that dies away)?
fn shape_dies(shape: u8) -> bool {
    matches!(shape & 0x0F, 0..=7 | 9 | 15)
}

/// Audible class the generator state stands for (channel A only; see `ay_preset`): the 14 chip
/// registers and whether the envelope generator is at the start of its shape.
fn regs_class(present: bool, chip: &[u8], env_at_start: bool) -> &'static str {
    if !present || chip.len() < 14 {
        return "silent";
    }
    let tone_on = chip[7] & 1 == 0;
    if !tone_on {
        return "silent";
    }
    if chip[8] & 0x10 != 0 {
        // amplitude from the envelope generator
        return if shape_dies(chip[13]) {
            if env_at_start { "burst" } else { "silent" }
        } else {
            "steady"
        };
    }
    if chip[8] & 0x0F == 0 {
        return "silent";
    }
    let tp = (chip[0] as u32 | ((chip[1] as u32 & 0x0F) << 8)).max(1);
    // crossings per 1/50 s: 2 * f / 50, f = 1773400 / (16 * TP)
    let crossings = 2 * 1_773_400 / (16 * tp) / 50;
    match crossings {
        0..=3 => "silent",
        4..=24 => "low",
        25..=90 => "mid",
        _ => "high",
    }
}

/// AY register sets with a known audible class: channel A tone at one of three well separated
/// pitches or silence, or channel A through the envelope generator (one-shot shapes that die away
/// within a frame, and repeating / holding shapes); everything that is not audible is random.
fn ay_preset(r: &mut Rng) -> [u8; 16] {
    let mut g = [0u8; 16];
    for x in g.iter_mut() {
        *x = r.u8();
    }
    let tp: u16 = *r.pick(&[25u16, 100, 400]);
    g[0] = tp as u8;
    g[1] = (g[1] & 0xF0) | (tp >> 8) as u8;
    // mixer: tone A on or off, everything else off
    g[7] = (g[7] & 0xC0) | 0x3E | if r.chance(1, 4) { 1 } else { 0 };
    g[8] = if r.chance(1, 5) { 0 } else { 0x0F };
    g[9] = 0;
    g[10] = 0;
    if r.chance(1, 3) {
        // envelope mode: 32 steps of 8*EP chip clocks = 14.4 ms at EP = 100; a high tone, so that
        // even the first few milliseconds of a dying envelope show plenty of edges
        g[0] = 25;
        g[1] &= 0xF0;
        if r.chance(3, 4) {
            g[7] &= 0xFE;
        }
        g[8] = 0x10 | (g[8] & 0x0F);
        g[11] = 100;
        g[12] = 0;
        g[13] = *r.pick(&[0u8, 9, 3, 4, 7, 15, 1, 8, 12, 10, 14, 11, 13]);
    }
    g
}

pub struct Obs {
    pub kv: BTreeMap<String, String>,
}

/// Destructive: leaves the emulator parked in a loop. `shown` = what the spec expects the display
/// to show: (bytes of the displayed page, bytes of the other screen page if the machine has one).
/// The caller has drained the audio queue immediately after the load, so everything popped here
/// was generated by the loaded machine.
fn observe_all(
    e: &mut Emu,
    m128: bool,
    shown: Option<&(Vec<u8>, Option<Vec<u8>>)>,
    ay_expect_regs: &[u8],
) -> BTreeMap<String, String> {
    let mut m = observe(e, m128);
    // devices present? (frame clock moved forward into the bottom border, where an unclaimed port reads 0xFF)
    if e.verif_frame_clocks() < 68000 {
        e.verif_set_frame_clocks(68000);
    }
    e.send_mouse_button(rustzx_core::zx::mouse::kempston::KempstonMouseButton::Left, true);
    let mb = e.verif_read_io(0xFADF);
    m.insert("mouse".into(), ((mb == 0xFE) as u8).to_string());
    e.send_kempston_key(rustzx_core::zx::joy::kempston::KempstonKey::Fire, true);
    let kj = e.verif_read_io(0x001F);
    // with the mouse present every joystick address is decoded to a mouse register first
    m.insert("kemp".into(), if mb == 0xFE { "?".to_string() } else { ((kj == 0x10) as u8).to_string() });
    // park the CPU and let four frames pass: border, display, audio
    e.verif_write_mem(0x8000, 0x18, 0);
    e.verif_write_mem(0x8001, 0xFE, 0);
    {
        let c = e.verif_cpu();
        c.regs.set_pc(0x8000);
        c.regs.set_iff1(false);
        c.halted = false;
        c.skip_interrupt = false;
        c.verif_set_active_prefix(rustzx_z80::Prefix::None);
    }
    let mut early: Vec<f32> = vec![];
    let mut late: Vec<f32> = vec![];
    for k in 0..4 {
        let _ = e.emulate_frames(std::time::Duration::from_secs(1));
        let dst = if k < 2 { &mut early } else { late.clear(); &mut late };
        while let Some(s) = e.next_audio_sample() {
            dst.push(s.left + s.right);
        }
    }
    let bb = e.border_buffer();
    let probe = [bb.px[0], bb.px[bb.w * 5 + 160], bb.px[bb.w * (bb.h - 1) + bb.w - 1]];
    m.insert(
        "bdev".into(),
        if probe[0] == probe[1] && probe[1] == probe[2] { format!("{:02x}", probe[0] & 7) } else { format!("mixed{:?}", probe) },
    );
    if let Some((p, other)) = shown {
        m.insert("disp".into(), if display_matches(e, p) { "match".into() } else { "differs".into() });
        // the other screen bank: the program flips bit 3 of 7FFD without redrawing
        let (latch, enabled, _) = e.verif_paging();
        if let (Some(o), true, true) = (other, m128, enabled) {
            e.verif_write_io(0x7FFD, latch ^ 0x08);
            for _ in 0..2 {
                let _ = e.emulate_frames(std::time::Duration::from_secs(1));
            }
            m.insert("disp2".into(), if display_matches(e, o) { "match".into() } else { "differs".into() });
            e.verif_write_io(0x7FFD, latch);
            while e.next_audio_sample().is_some() {}
        }
    }
    // AY read-back (after the audio was taken: the marker write below reprograms one chip register):
    // value at the selected register, then find the selection with a marker
    let v0 = e.verif_read_io(0xFFFD);
    let mut marker = !v0;
    while ay_expect_regs.contains(&marker) || marker == v0 {
        marker = marker.wrapping_add(0x35);
    }
    e.verif_write_io(0xBFFD, marker);
    let mut regs = [0u8; 16];
    for k in 0..16u8 {
        e.verif_write_io(0xFFFD, k);
        regs[k as usize] = e.verif_read_io(0xFFFD);
    }
    let cands: Vec<usize> = (0..16).filter(|k| regs[*k] == marker).collect();
    let sel = if cands.len() == 1 { format!("{:x}", cands[0]) } else { "?".to_string() };
    if cands.len() == 1 {
        regs[cands[0]] = v0;
        e.verif_write_io(0xFFFD, cands[0] as u8);
        e.verif_write_io(0xBFFD, v0);
    }
    m.insert("aysel".into(), sel);
    m.insert("ayregs".into(), hex(&regs));
    m.insert("audio".into(), audio_class(&early, &late, regs[8] & 0x10 != 0).to_string());
    m
}

// ---------------------------------------------------------------------------------------------
// one case

pub struct Ctx {
    pub model: Model,
}

/// keys compared against the spec (the property's list) and additionally against the model
const SPEC_KEYS: [&str; 28] = [
    "af", "bc", "de", "hl", "afx", "bcx", "dex", "hlx", "ix", "iy", "sp", "pc", "i", "r", "iff", "im", "halt",
    "skip", "mid", "lat", "lk", "bd", "bdev", "pages", "aysel", "ayregs", "audio", "mouse",
];
const MODEL_KEYS: [&str; 3] = ["sb", "pfx", "kemp"];

/// What the display must show according to the spec: the page selected by bit 3 of the spec's latch
/// and, on the 128K, the other screen page; contents from the file where the file has the page,
/// else from the receiver.
fn expected_shown(
    spec: &BTreeMap<String, String>,
    file_pages: &BTreeMap<u8, Vec<u8>>,
    recv: &MState,
) -> Option<(Vec<u8>, Option<Vec<u8>>)> {
    let m128 = spec.get("pages").map_or(false, |p| !p.split(',').nth(1).unwrap_or("-").starts_with('-'));
    let content = |page: u8| -> Option<Vec<u8>> {
        if let Some(p) = file_pages.get(&page) {
            return Some(p.clone());
        }
        bank_index(recv.m128, page).map(|k| recv.banks[k].bytes())
    };
    if m128 {
        let lat = u8::from_str_radix(spec.get("lat")?, 16).ok()?;
        let (shown, other) = if lat & 8 != 0 { (7, 5) } else { (5, 7) };
        Some((content(shown)?, content(other)))
    } else {
        Some((content(5)?, None))
    }
}

pub fn check_case(cx: &mut Ctx, case: &Case, mut rep: Option<&mut Report>) -> Vec<Finding> {
    let mut out = vec![];
    let model = &mut cx.model;
    assert_eq!(model.ask(&format!("mach 1 {}", case.recv.line())), "ok");
    let mut rcv = build(&case.recv);
    let mid_frame = crate::c13::snap::dirty_midframe(&mut rcv, &case.recv);
    if let Some(r) = rep.as_deref_mut() {
        r.count("receiver_mid_frame", if mid_frame { "inside a frame, after a border write" } else { "frame start" });
    }
    let (bytes, segs, file_pages, ay_regs): (Vec<u8>, Vec<String>, BTreeMap<u8, Vec<u8>>, [u8; 16]) = match &case.file {
        FileSpec::Szx(s) => {
            let (b, sg) = s.encode();
            let mut fp = BTreeMap::new();
            for ck in &s.order {
                if let Ck::Ramp(p, _) = ck {
                    if let Some(k) = bank_index(s.mid >= 2, *p) {
                        fp.insert(*p, s.st.banks[k].bytes());
                    }
                }
            }
            (b, sg, fp, s.st.ay.as_ref().map_or([0; 16], |a| a.regs))
        }
        FileSpec::Sna(s) => {
            let (b, sg) = write_sna(s);
            let mut img = s.clone();
            if !s.m128 {
                img.poke(s.sp().wrapping_sub(1), (s.pc() >> 8) as u8);
                img.poke(s.sp().wrapping_sub(2), s.pc() as u8);
            }
            let mut fp = BTreeMap::new();
            for p in 0..8u8 {
                if let Some(k) = bank_index(s.m128, p) {
                    fp.insert(p, img.banks[k].bytes());
                }
            }
            (b, sg, fp, [0; 16])
        }
        FileSpec::Scr(seed) => {
            let b = scr_bytes(*seed);
            let mut page = bank_index(case.recv.m128, 5).map(|k| case.recv.banks[k].bytes()).unwrap();
            page[..6912].copy_from_slice(&b);
            let mut fp = BTreeMap::new();
            fp.insert(5u8, page);
            (b.clone(), vec![format!("h{}", hex(&b))], fp, [0; 16])
        }
    };
    let mut first = true;
    for chunk in segs.chunks(6) {
        model.ask(&format!("{} {}", if first { "file" } else { "fileadd" }, chunk.join(" ")));
        first = false;
    }
    let ans = model.ask(&format!("load {} 1 2", case.kind()));
    let mut parts = ans.split(" | ");
    let mpart = parts.next().unwrap_or("");
    let spart = parts.next().unwrap_or("spec none").trim_start_matches("spec ");
    let specb_pc = parts.next().map(|p| p.trim_start_matches("specb ").to_string());
    let spec = if spart == "none" { None } else { Some(kv_of(spart)) };
    let outcome = match &case.file {
        FileSpec::Szx(_) => load_szx(&mut rcv, &bytes),
        FileSpec::Sna(_) => load_sna(&mut rcv, &bytes),
        FileSpec::Scr(_) => load_scr(&mut rcv, &bytes),
    };
    // Everything in the audio queue from here on was generated by the loaded machine. (Samples
    // produced *during* the load — an SZX moves the frame clock, and the OUT to 0xFE of its SPCR chunk
    // makes the mixer catch up with whatever the chip held at that moment — are not judged.)
    while rcv.next_audio_sample().is_some() {}
    if let Some(r) = rep.as_deref_mut() {
        r.eval();
    }
    // An SZX says how far into its frame the machine is (dwCyclesStart of Z80R): after the load the frame clock
    // stands there, plus at most the one port write a later SPCR chunk performs (4 T and up to 6 T of contention).
    if let (FileSpec::Szx(s), Outcome::Ok) = (&case.file, &outcome) {
        if s.order.iter().any(|c| *c == Ck::Z80r) {
            let l: u32 = if case.recv.m128 { 70908 } else { 69888 };
            let want = s.cycles % l;
            let gotc = rcv.verif_frame_clocks() as u32;
            let d = (gotc + l - want) % l;
            if d > 12 {
                out.push(Finding {
                    phase: "load",
                    group: "frame-position".into(),
                    kind: Kind::SpecViolated,
                    got: format!("frame clock {} after the load", gotc),
                    want: format!("dwCyclesStart = {} (at most 12 T later)", want),
                });
            }
        }
    }
    let mismatch = case.file_m128() != case.recv.m128;
    let model_outcome = if mpart.starts_with("ok") { "ok".to_string() } else { mpart.to_string() };
    if mismatch {
        // a file for the other model: must be rejected, or applied with the right layout — never panic,
        // never a wrong layout. The spec decides "rejected"; an `ok` is judged by the memory comparison below.
        if outcome == Outcome::Panic {
            out.push(Finding { phase: "mismatch", group: "outcome".into(), kind: Kind::SpecViolated, got: outcome.text(), want: "err (rejected)".into() });
        } else if outcome == Outcome::Ok {
            // what the file says about 0x4000..0xFFFF must be what the CPU now sees
            let mut wrong = false;
            for (page, base) in [(5u8, 0x4000u32), (2, 0x8000)] {
                if let Some(p) = file_pages.get(&page) {
                    let v: Vec<u8> = (0..PAGE as u32).map(|o| rcv.peek((base + o) as u16)).collect();
                    if &v != p {
                        wrong = true;
                    }
                }
            }
            if wrong {
                out.push(Finding { phase: "mismatch", group: "layout".into(), kind: Kind::SpecViolated, got: "ok, but 0x4000-0xBFFF does not hold the file's pages 5 and 2".into(), want: "err (rejected) or the file's layout".into() });
            }
        }
        if outcome.text() != model_outcome {
            out.push(Finding { phase: "mismatch", group: "outcome".into(), kind: Kind::ModelMismatch, got: outcome.text(), want: model_outcome });
        }
        if let Some(r) = rep.as_deref_mut() {
            r.class(format!("mismatch {} file {} machine -> {}", case.kind(), if case.file_m128() { "128k" } else { "48k" }, outcome.text()));
        }
        return out;
    }
    if spec.is_some() && outcome != Outcome::Ok {
        out.push(Finding { phase: "load", group: "outcome".into(), kind: Kind::SpecViolated, got: outcome.text(), want: "ok".into() });
    } else if outcome.text() != model_outcome {
        out.push(Finding { phase: "load", group: "outcome".into(), kind: Kind::ModelMismatch, got: outcome.text(), want: model_outcome });
    }
    if outcome != Outcome::Ok {
        return out;
    }
    let mm = if mpart.starts_with("ok ") { Some(kv_of(&mpart[3..])) } else { None };
    let shown = spec.as_ref().and_then(|s| expected_shown(s, &file_pages, &case.recv));
    let mut avoid = ay_regs.to_vec();
    avoid.extend_from_slice(&case.recv.ay.as_ref().map_or([0u8; 16], |a| a.regs));
    let mut got = observe_all(&mut rcv, case.recv.m128, shown.as_ref(), &avoid);
    // derived keys for model and spec: audible class, display
    let derive = |kv: &BTreeMap<String, String>| -> BTreeMap<String, String> {
        let mut kv = kv.clone();
        let present = kv.get("aypres").map_or(false, |v| v == "1");
        let chip = unhex(kv.get("aychip").map(|s| s.as_str()).unwrap_or(""));
        let env = kv.get("ayenv").map_or(true, |v| v == "1");
        kv.insert("audio".into(), regs_class(present, &chip, env).to_string());
        kv
    };
    let spec_d = spec.as_ref().map(derive);
    let model_d = mm.as_ref().map(derive);
    // SCR leaves registers to the loader: only memory, display and what must not change are judged
    let spec_keys: Vec<&str> = match case.file {
        FileSpec::Scr(_) => vec!["lat", "lk", "bd", "bdev", "pages", "mouse"],
        _ => SPEC_KEYS.to_vec(),
    };
    // Loose point (not fixed by the property text, see notes/C14.md): an SZX says the machine is
    // dwCyclesStart T-states into its frame. The loader sets the frame clock in Z80R and the OUT to 0xFE
    // of a later SPCR chunk makes the mixer catch up with that time at once — if the AY chunk came
    // before, the chip (and a dying envelope) has then already run for up to one frame when the load
    // returns. Where the envelope stands relative to the frame clock is not described by the format:
    // in exactly that constellation a burst that is already over is accepted.
    let burst_may_be_over = match &case.file {
        FileSpec::Szx(s) => {
            let pos = |k: &Ck| s.order.iter().position(|c| c == k);
            // (without an AY chunk the receiver's chip simply keeps running through the catch-up)
            match (pos(&Ck::Z80r), pos(&Ck::Spcr)) {
                (Some(z), Some(sp)) => z < sp && pos(&Ck::Ay).map_or(true, |a| a < sp) && s.cycles > 2000,
                _ => false,
            }
        }
        _ => false,
    };
    let audio_tolerated = |k: &str, g: &str, w: &str| k == "audio" && burst_may_be_over && g == "silent" && w == "burst";
    let mut seen: Vec<String> = vec![];
    if let Some(sd) = &spec_d {
        for (k, g, w) in diff_obs(&got, sd, &spec_keys) {
            if audio_tolerated(&k, &g, &w) {
                continue;
            }
            // ZXSTZF_HALTED: either reading of where PC points is accepted
            if k == "pc" {
                if let Some(pcb) = &specb_pc {
                    if &g == pcb {
                        continue;
                    }
                }
            }
            // SCR: the loader parks the CPU in a loop it writes at 0x8000 (page 2); the property says nothing about it
            if k == "page2" && matches!(case.file, FileSpec::Scr(_)) {
                continue;
            }
            let grp = group_of(&k);
            if !seen.contains(&grp) {
                seen.push(grp.clone());
                out.push(Finding { phase: "load", group: grp, kind: Kind::SpecViolated, got: format!("{}={}", k, g), want: format!("{}={}", k, w) });
            }
        }
        // display: the frame buffer must show the page the spec says is displayed
        if !seen.contains(&"paging".to_string()) && !seen.contains(&"ram".to_string()) {
            if got.get("disp").map_or(false, |d| d != "match") {
                seen.push("display".into());
                out.push(Finding { phase: "load", group: "display".into(), kind: Kind::SpecViolated, got: "frame buffer differs from the decoded page".into(), want: "display shows the described page".into() });
            } else if got.get("disp2").map_or(false, |d| d != "match") {
                seen.push("display".into());
                out.push(Finding { phase: "load", group: "display".into(), kind: Kind::SpecViolated, got: "after flipping bit 3 of 7FFD the frame buffer differs from the decoded other screen page".into(), want: "display shows the other screen page as described".into() });
            }
        }
    }
    if let Some(md) = &model_d {
        let mut ks = spec_keys.clone();
        ks.extend_from_slice(&MODEL_KEYS);
        if matches!(case.file, FileSpec::Scr(_)) {
            ks.extend_from_slice(&["af", "bc", "de", "hl", "sp", "pc", "iff", "halt", "skip", "mid"]);
        }
        // an SZX with a Z80R chunk also describes the hidden MEMPTR and (ZXSTZF_FSET) Q latches
        if let FileSpec::Szx(sz) = &case.file {
            if sz.order.contains(&Ck::Z80r) {
                ks.extend_from_slice(&["q", "mp"]);
            }
        }
        for (k, g, w) in diff_obs(&got, md, &ks) {
            if audio_tolerated(&k, &g, &w) {
                continue;
            }
            let grp = group_of(&k);
            if !seen.contains(&grp) {
                seen.push(grp.clone());
                out.push(Finding { phase: "load", group: grp, kind: Kind::ModelMismatch, got: format!("{}={}", k, g), want: format!("{}={}", k, w) });
            }
        }
    }
    // "independent of what the machine was doing before": the hidden MEMPTR and Q latches an SZX describes
    // (Z80R: wMemPtr, ZXSTZF_FSET) must not depend on the receiver — the same file goes into a second
    // receiver with another past (all flags and both latches inverted)
    if let FileSpec::Szx(sz) = &case.file {
        if sz.order.contains(&Ck::Z80r) && out.is_empty() {
            let mut other_state = case.recv.clone();
            other_state.w[0] ^= 0x00FF;
            let mut other = build(&other_state);
            {
                let c = other.verif_cpu();
                let q = c.regs.verif_q();
                c.regs.verif_set_q(!q, !q);
                let mp = c.regs.get_mem_ptr();
                c.regs.set_mem_ptr(!mp);
            }
            if load_szx(&mut other, &bytes) == Outcome::Ok {
                let c = other.verif_cpu();
                let (q2, mp2) = (format!("{:02x}", c.regs.verif_q()), format!("{:04x}", c.regs.get_mem_ptr()));
                for (k, v2) in [("q", q2), ("mp", mp2)] {
                    let v1 = got.get(k).cloned().unwrap_or_default();
                    if v1 != v2 {
                        out.push(Finding {
                            phase: "load",
                            group: format!("prior-state.{}", k),
                            kind: Kind::SpecViolated,
                            got: format!("{}={} after loading into this receiver, {}={} after loading the same file into a receiver whose flags and latches were inverted", k, v1, k, v2),
                            want: "the same machine whatever the receiver was doing before".into(),
                        });
                    }
                }
            }
        }
    }
    got.remove("disp");
    got.remove("disp2");
    // continued execution: a second receiver loads the same file and is compared, step by step, with an
    // emulator *built* in the described state (complete files only; the frame clock of the built one is
    // moved forward to the loaded one's)
    if out.is_empty() && spec.is_some() {
        let described: Option<MState> = match &case.file {
            FileSpec::Szx(s) => {
                let complete = (if s.mid >= 2 { (0..8u8).collect::<Vec<_>>() } else { vec![0u8, 2, 5] })
                    .iter()
                    .all(|p| s.order.iter().any(|k| matches!(k, Ck::Ramp(q, _) if q == p)));
                if complete && s.order.contains(&Ck::Z80r) && s.order.contains(&Ck::Spcr) {
                    let mut d = s.st.clone();
                    d.pfx = 0;
                    Some(d)
                } else {
                    None
                }
            }
            FileSpec::Sna(s) => {
                let mut d = s.clone();
                if !s.m128 {
                    d.poke(s.sp().wrapping_sub(1), (s.pc() >> 8) as u8);
                    d.poke(s.sp().wrapping_sub(2), s.pc() as u8);
                }
                d.ay = case.recv.ay.clone();
                Some(d)
            }
            FileSpec::Scr(_) => None,
        };
        if let Some(mut d) = described {
            // devices a file says nothing about (no AY / KEYB / AMXM chunk) stay the receiver's; where the file does
            // speak, the load phase above has just found the machine to be as the spec says: the built twin gets the
            // devices the loaded machine was observed with, so that code which reads their ports runs alike
            if let (Some(sel), Some(regs)) = (got.get("aysel"), got.get("ayregs")) {
                if let Ok(sel) = u8::from_str_radix(sel, 16) {
                    let r = unhex(regs);
                    if r.len() == 16 {
                        let mut a16 = [0u8; 16];
                        a16.copy_from_slice(&r);
                        let enabled = d.ay.as_ref().or(case.recv.ay.as_ref()).map_or(false, |a| a.enabled);
                        d.ay = Some(AyState { sel, regs: a16, enabled, played: false });
                    }
                }
            }
            if let Some(m) = got.get("mouse") {
                d.mouse = m == "1";
            }
            match got.get("kemp").map(|s| s.as_str()) {
                Some("1") => d.kemp = true,
                Some("0") => d.kemp = false,
                _ => d.kemp = case.recv.kemp,
            }
            let mut a = build(&case.recv);
            let ok = match &case.file {
                FileSpec::Szx(_) => load_szx(&mut a, &bytes),
                _ => load_sna(&mut a, &bytes),
            };
            if ok == Outcome::Ok {
                let mut b = build(&d);
                if a.verif_frame_clocks() >= b.verif_frame_clocks() {
                    b.verif_set_frame_clocks(a.verif_frame_clocks());
                    let ra = run_steps(&mut a, 5);
                    let rb = run_steps(&mut b, 5);
                    if let Some(r) = rep.as_deref_mut() {
                        r.eval();
                        r.count("continued_execution", if d.halt { "halted" } else if d.skip { "ei-pending" } else { "running" });
                    }
                    if ra != rb {
                        out.push(Finding { phase: "continue", group: "execution".into(), kind: Kind::SpecViolated, got: ra, want: rb });
                    }
                }
            }
        }
    }
    if let Some(r) = rep.as_deref_mut() {
        r.eval();
        let extra = match &case.file {
            FileSpec::Szx(s) => format!(
                "halted={} eilast={} comp={} unknown={} ay={} mouse={}",
                s.st.halt as u8,
                s.st.skip as u8,
                s.order.iter().any(|c| matches!(c, Ck::Ramp(_, Comp::Stored) | Ck::Ramp(_, Comp::Fixed))) as u8,
                s.order.iter().any(|c| matches!(c, Ck::Unknown(..))) as u8,
                s.order.contains(&Ck::Ay) as u8,
                s.order.iter().any(|c| matches!(c, Ck::Amxm(_))) as u8
            ),
            FileSpec::Sna(s) => format!("n={} lock={}", s.latch & 7, s.locked() as u8),
            FileSpec::Scr(_) => String::new(),
        };
        r.class(format!(
            "{} {} {} recv[halt={} pfx={} lock={}] audio={}",
            case.kind(),
            if case.recv.m128 { "128k" } else { "48k" },
            extra,
            case.recv.halt as u8,
            (case.recv.pfx != 0) as u8,
            case.recv.locked() as u8,
            got.get("audio").cloned().unwrap_or_default()
        ));
    }
    out
}

// ---------------------------------------------------------------------------------------------
// generators

pub fn random_szx(r: &mut Rng, m128: bool) -> SzxSpec {
    let mut st = crate::c13::random_state(r, m128, true);
    st.halt = r.chance(1, 6);
    st.skip = r.chance(1, 6);
    st.iff1 = r.bool();
    st.iff2 = r.bool();
    st.pfx = 0;
    if st.halt {
        // the file keeps PC at the HALT opcode (libspectrum/Fuse reading); code after it is distinguishable
        let pc = st.pc();
        st.poke(pc, 0x76);
        st.poke(pc.wrapping_add(1), 0x3C);
        st.poke(pc.wrapping_add(2), 0x3C);
    }
    st.ay = Some(AyState { sel: r.below(16) as u8, regs: ay_preset(r), enabled: m128 || r.chance(1, 2), played: false });
    st.mouse = r.chance(1, 3);
    let mid = if m128 { 2 } else { 1 };
    let fe = if r.chance(1, 2) { st.border | (r.u8() & 0x18) } else { r.u8() & 0x1F };
    let mut order = vec![Ck::Z80r, Ck::Spcr];
    if r.chance(3, 4) {
        order.insert(0, Ck::Crtr);
    }
    if m128 || r.chance(3, 4) {
        order.push(Ck::Ay);
    }
    if r.chance(1, 2) {
        order.push(Ck::Keyb(*r.pick(&[0u8, 1, 8])));
    }
    if r.chance(2, 3) {
        order.push(Ck::Amxm(if st.mouse { 2 } else { *r.pick(&[0u8, 1]) }));
    } else {
        st.mouse = false; // without the chunk the receiver's device stays: handled by the spec through `prev`
    }
    let pages: Vec<u8> = if m128 { (0..8).collect() } else { vec![5, 2, 0] };
    for p in pages {
        // now and then a page is left out (the receiver's page then stays)
        if r.chance(1, 12) {
            continue;
        }
        let comp = match r.below(3) {
            0 => Comp::Raw,
            1 => Comp::Stored,
            _ => Comp::Fixed,
        };
        order.push(Ck::Ramp(p, comp));
    }
    for _ in 0..r.below(3) {
        let id = *r.pick(&[*b"JOY\0", *b"ZXAT", *b"TAPE", *b"B128", *b"xyzw", *b"DRUM", *b"ROM\0"]);
        order.push(Ck::Unknown(id, r.below(40) as usize));
    }
    // any chunk order (CRTR need not be first for a reader that walks chunks)
    for k in (1..order.len()).rev() {
        let j = r.below(k as u64 + 1) as usize;
        order.swap(k, j);
    }
    SzxSpec { mid, st, fe, cycles: if r.chance(1, 3) { r.below(16) as u32 } else { let v = r.below(60000) as u32; if v % 4 == 3 { (if mid >= 2 { 70908 } else { 69888 }) - 1 - (v / 4) % 1100 } else { v } }, memptr: r.u16(), fset: r.bool(), order }
}

fn random_recv(r: &mut Rng, m128: bool) -> MState {
    let mut s = if r.chance(1, 4) { MState::fresh(m128) } else { crate::c13::random_state(r, m128, false) };
    s.ay = Some(AyState { sel: r.below(16) as u8, regs: if r.chance(1, 3) { [0; 16] } else { ay_preset(r) }, enabled: m128 || r.chance(1, 2), played: r.bool() });
    s.mouse = r.chance(1, 3);
    s.kemp = r.chance(1, 3);
    s
}

/// A receiver that is the described machine itself some time later ("the same snapshot is loaded
/// again", "load back into the emulator that saved"): the file's state with a few things moved on.
fn correlated_recv(r: &mut Rng, file: &FileSpec) -> Option<MState> {
    let mut s = match file {
        FileSpec::Szx(f) => f.st.clone(),
        FileSpec::Sna(f) => {
            let mut s = f.clone();
            s.ay = Some(AyState { sel: r.below(16) as u8, regs: ay_preset(r), enabled: s.m128 || r.bool(), played: true });
            s
        }
        FileSpec::Scr(_) => return None,
    };
    if let Some(a) = &mut s.ay {
        a.played = true;
    }
    s.halt = r.chance(1, 3);
    s.skip = r.chance(1, 3);
    s.pfx = if r.chance(1, 3) { *r.pick(&[2u8, 3, 4]) } else { 0 };
    // the program ran on: some registers, a bank or two and the border have changed
    for _ in 0..r.below(4) {
        let k = r.below(12) as usize;
        s.w[k] = r.u16();
    }
    for _ in 0..r.below(3) {
        let k = r.below(s.banks.len() as u64) as usize;
        s.banks[k] = Bank::new(1 + r.below(0xFFFF_FFFF));
    }
    if r.chance(1, 3) {
        s.border = r.below(8) as u8;
    }
    s.kemp = r.chance(1, 3);
    Some(s)
}

pub fn run(o: &Opts) -> Report {
    let mut rep = Report::new("C14");
    rep.rule = "files from the harness's own SZX/SNA/SCR writer: random machine states (registers, IFF1/IFF2, IM, HALTED, \
EILAST, every 7FFD value, border with an unrelated chFe, AY register sets with a known audible class, mouse type), SZX chunks \
in random order with unknown chunks interleaved, pages raw / stored-deflate / fixed-Huffman-deflate and sometimes missing; \
loaded into fresh and dirty emulators (random registers/RAM/AY, halted, EI-pending, mid prefix, paging locked, devices \
present) of the matching model and, for one file in seven, of the other model; compared with the model's szxLoad/snaLoad/\
scrLoad and with what the spec says the file describes: registers, IFF, IM, halted/EI/prefix, latch, lock, border field, \
painted border, all RAM pages via peek, displayed screen, AY selection/registers/audible class, mouse; distinct = (format, \
machine, halted/EILAST/compression/unknown/AY/mouse flags, receiver halt/prefix/lock, audible class) of completed loads and \
(format, machines, outcome) of mismatched ones"
        .into();
    rep.notes.push("zlib streams are produced by two encoders inside the harness (stored blocks; one fixed-Huffman block with distance-1 matches): miniz_oxide's deflate is not reachable without changing Cargo.lock".into());
    let (fx, notes) = detect_fixes();
    rep.notes.extend(notes);
    rep.notes.push(format!("repairs detected in the tree under test (model variant used): {}", fx_text(fx)));
    let mut cx = Ctx { model: Model::spawn(&o.model, "C14") };
    assert_eq!(cx.model.ask(&format!("fx {:x}", fx)), "ok");

    if let Some(text) = &o.replay {
        if let Some(case) = Case::parse(text) {
            rep.sample(J::s(case.text()));
            let fs = check_case(&mut cx, &case, Some(&mut rep));
            for f in &fs {
                record(&mut cx, &mut rep, &case, f);
            }
        } else {
            rep.notes.push("replay case could not be parsed".into());
        }
        return rep;
    }

    let mut rng = Rng::new(o.seed ^ 0xC14);
    let n = o.n(260, 26_000);
    for k in 0..n {
        let mut r = rng.fork();
        let m128 = r.bool();
        let file = match k % 10 {
            0 | 1 => FileSpec::Sna({
                let mut s = crate::c13::random_state(&mut r, m128, true);
                s.halt = false;
                s.skip = false;
                s.iff1 = s.iff2;
                s
            }),
            2 => FileSpec::Scr(r.next()),
            _ => FileSpec::Szx(random_szx(&mut r, m128)),
        };
        let recv_m128 = if r.chance(1, 7) && !matches!(file, FileSpec::Scr(_)) { !m128 } else { m128 };
        let recv = if recv_m128 == m128 && r.chance(1, 4) {
            rep.count("receiver_kind", "the described machine itself, later");
            correlated_recv(&mut r, &file).unwrap_or_else(|| random_recv(&mut r, recv_m128))
        } else {
            rep.count("receiver_kind", "unrelated");
            random_recv(&mut r, recv_m128)
        };
        let mut recv = recv;
        if let FileSpec::Szx(f) = &file {
            if f.st.halt && r.bool() {
                // the receiver's own memory holds a HALT just in front of where the file's PC points (and none at it):
                // what the loaded machine does must come from the file, not from what was in memory before
                let pc = f.st.pc();
                recv.poke(pc.wrapping_sub(1), 0x76);
                recv.poke(pc, 0x00);
            }
        }
        let case = Case { file, recv };
        rep.count("format", case.kind());
        rep.count("machines", format!("file {} into {}", if case.file_m128() { "128k" } else { "48k" }, if case.recv.m128 { "128k" } else { "48k" }));
        if let FileSpec::Szx(s) = &case.file {
            for c in &s.order {
                rep.count("szx_chunks", match c {
                    Ck::Crtr => "CRTR", Ck::Z80r => "Z80R", Ck::Spcr => "SPCR", Ck::Ay => "AY", Ck::Keyb(_) => "KEYB",
                    Ck::Amxm(_) => "AMXM", Ck::Ramp(_, Comp::Raw) => "RAMP raw", Ck::Ramp(_, Comp::Stored) => "RAMP stored-deflate",
                    Ck::Ramp(_, Comp::Fixed) => "RAMP fixed-huffman", Ck::Unknown(..) => "unknown",
                });
            }
            rep.count("szx_first_chunk", format!("{:?}", s.order[0]).split('(').next().unwrap_or("").to_string());
        }
        if k < 3 {
            rep.sample(J::s(case.text()));
        }
        let fs = check_case(&mut cx, &case, Some(&mut rep));
        for f in &fs {
            rep.count("disagreements", format!("{}/{}/{:?}", f.phase, f.group, f.kind));
        }
        for f in &fs {
            let tag = format!("{}/{}/{}/{:?}/{}{}", case.kind(), f.phase, f.group, f.kind, case.file_m128(), case.recv.m128);
            if rep.distribution.get("shrunk").map_or(false, |m| m.get(&tag).copied().unwrap_or(0) >= 1) {
                continue;
            }
            rep.count("shrunk", tag);
            record(&mut cx, &mut rep, &case, f);
        }
    }
    rep.extra.push(("cases".into(), J::I(n as i64)));
    rep.extra.push(("model_requests".into(), J::I(cx.model.requests as i64)));
    rep.extra.push(("fixes_detected".into(), J::I(fx as i64)));
    rep
}

fn fx_text(fx: u32) -> String {
    let names = ["hlAlt", "unlockOnLoad", "resetCpuOnLoad", "pureSave48", "rejectMismatch", "ayWriteThrough", "szxBorderDevice", "haltedPc"];
    names.iter().enumerate().map(|(i, n)| format!("{}={}", n, (fx >> i) & 1)).collect::<Vec<_>>().join(" ")
}

/// C13's probes plus one probe per SZX/AY repair
pub fn detect_fixes() -> (u32, Vec<String>) {
    let (mut fx, notes) = crate::c13::detect_fixes();
    let mut st = MState::fresh(true);
    st.ay = Some(AyState { sel: 0, regs: { let mut g = [0u8; 16]; g[0] = 100; g[7] = 0x3E; g[8] = 0x0F; g }, enabled: true, played: false });
    st.border = 2;
    st.halt = true;
    st.w[11] = 0x9000;
    st.poke(0x9000, 0x76);
    let spec = SzxSpec { mid: 2, st, fe: 0x05, cycles: 0, memptr: 0, fset: false,
        order: vec![Ck::Z80r, Ck::Spcr, Ck::Ay, Ck::Ramp(2, Comp::Raw)] };
    let (bytes, _) = spec.encode();
    let mut fresh = MState::fresh(true);
    fresh.ay = Some(AyState { sel: 0, regs: [0; 16], enabled: true, played: false });
    let mut e = build(&fresh);
    if load_szx(&mut e, &bytes) == Outcome::Ok {
        if e.verif_cpu().regs.get_pc() == 0x9000 {
            fx |= 128;
        }
        let o = observe_all(&mut e, true, None, &[0; 16]);
        if o.get("audio").map_or(false, |a| a == "mid") {
            fx |= 32;
        }
        if o.get("bdev").map_or(false, |b| b == "02") {
            fx |= 64;
        }
    }
    (fx, notes)
}

// ---------------------------------------------------------------------------------------------
// shrinking and recording

fn features(case: &Case) -> String {
    let mut f: Vec<String> = vec![];
    let canon_order = |s: &SzxSpec| -> bool {
        // canonical: Z80R, SPCR, (AY), pages ascending raw, nothing else
        let mut want = vec![Ck::Z80r, Ck::Spcr];
        if s.order.contains(&Ck::Ay) {
            want.push(Ck::Ay);
        }
        let mut pages: Vec<u8> = s.order.iter().filter_map(|c| if let Ck::Ramp(p, _) = c { Some(*p) } else { None }).collect();
        pages.sort();
        for p in pages {
            want.push(Ck::Ramp(p, Comp::Raw));
        }
        let have: Vec<Ck> = s.order.iter().filter(|c| !matches!(c, Ck::Keyb(_) | Ck::Amxm(_) | Ck::Unknown(..) | Ck::Crtr)).map(|c| match c { Ck::Ramp(p, _) => Ck::Ramp(*p, Comp::Raw), o => o.clone() }).collect();
        have == want
    };
    let state_feats = |st: &MState, tag: &str, f: &mut Vec<String>| {
        let d = MState::fresh(st.m128);
        let mut w = st.w;
        if w[10] == 0x8000 { w[10] = 0; }
        if w[11] != 0 && !(st.halt && w[11] == 0x9000) { f.push(format!("{}.pc", tag)); }
        w[11] = 0;
        if w != d.w || st.i != 0 || st.r != 0 || st.im != 0 { f.push(format!("{}.regs", tag)); }
        if st.iff1 || st.iff2 { f.push(format!("{}.iff", tag)); }
        if st.halt { f.push(format!("{}.halted", tag)); }
        if st.skip { f.push(format!("{}.eilast", tag)); }
        if st.pfx != 0 { f.push(format!("{}.pfx", tag)); }
        if st.border != 0 { f.push(format!("{}.border", tag)); }
        if st.locked() { f.push(format!("{}.locked", tag)); } else if st.latch != 0 { f.push(format!("{}.paging", tag)); }
        if st.banks.iter().any(|b| b.seed != 0 || (!b.ov.is_empty() && !st.halt)) { f.push(format!("{}.ram", tag)); }
        if let Some(a) = &st.ay {
            if a.regs != [0; 16] { f.push(format!("{}.ay", tag)); }
            if a.enabled && a.sel != 0 { f.push(format!("{}.aysel", tag)); }
            if a.played { f.push(format!("{}.ay-played", tag)); }
            if a.regs[8] & 0x10 != 0 { f.push(format!("{}.ay-envelope", tag)); }
            if !a.enabled && st.m128 { f.push(format!("{}.ay-off", tag)); }
            if a.enabled && !st.m128 { f.push(format!("{}.ay-on", tag)); }
        }
        if st.mouse { f.push(format!("{}.mouse", tag)); }
        if st.kemp { f.push(format!("{}.kemp", tag)); }
    };
    match &case.file {
        FileSpec::Szx(s) => {
            state_feats(&s.st, "file", &mut f);
            if s.fe & 7 != s.st.border { f.push("file.fe-border".into()); }
            if s.fe & 0x18 != 0 { f.push("file.fe-sound".into()); }
            if !canon_order(s) { f.push("file.order".into()); }
            if s.order.iter().any(|c| matches!(c, Ck::Ramp(_, Comp::Stored))) { f.push("file.stored".into()); }
            if s.order.iter().any(|c| matches!(c, Ck::Ramp(_, Comp::Fixed))) { f.push("file.huffman".into()); }
            if s.order.iter().any(|c| matches!(c, Ck::Unknown(..))) { f.push("file.unknown".into()); }
            if s.order.iter().any(|c| matches!(c, Ck::Keyb(_))) { f.push("file.keyb".into()); }
            if s.order.iter().any(|c| matches!(c, Ck::Amxm(_))) { f.push("file.amxm".into()); }
            if s.order.contains(&Ck::Crtr) { f.push("file.crtr".into()); }
            let np = s.order.iter().filter(|c| matches!(c, Ck::Ramp(..))).count();
            if np != if s.mid >= 2 { 8 } else { 3 } { f.push("file.pages-missing".into()); }
        }
        FileSpec::Sna(s) => state_feats(s, "file", &mut f),
        FileSpec::Scr(_) => {}
    }
    state_feats(&case.recv, "recv", &mut f);
    f.join("+")
}

fn has(fs: &[Finding], phase: &str, group: &str, kind: Kind) -> bool {
    fs.iter().any(|f| f.phase == phase && f.group == group && f.kind == kind)
}

fn canonical_order(c: &mut Case) {
    if let FileSpec::Szx(s) = &mut c.file {
        let mut o: Vec<Ck> = vec![];
        for want in [Ck::Crtr, Ck::Z80r, Ck::Spcr, Ck::Ay] {
            if s.order.contains(&want) {
                o.push(want);
            }
        }
        for k in &s.order {
            if matches!(k, Ck::Keyb(_) | Ck::Amxm(_)) {
                o.push(k.clone());
            }
        }
        let mut pages: Vec<Ck> = s.order.iter().filter(|k| matches!(k, Ck::Ramp(..))).cloned().collect();
        pages.sort_by_key(|k| if let Ck::Ramp(p, _) = k { *p } else { 0 });
        o.extend(pages);
        for k in &s.order {
            if matches!(k, Ck::Unknown(..)) {
                o.push(k.clone());
            }
        }
        s.order = o;
    }
}

fn shrink(cx: &mut Ctx, case: &Case, phase: &str, group: &str, kind: Kind) -> Case {
    let mut cur = case.clone();
    let mut steps: Vec<Box<dyn Fn(&mut Case)>> = vec![];
    // RAM first (cheap candidates afterwards)
    steps.push(Box::new(|c| {
        c.recv.banks = MState::fresh(c.recv.m128).banks;
        match &mut c.file {
            FileSpec::Szx(s) => {
                let keep: Vec<(u16, u8)> = vec![];
                let _ = keep;
                s.st.banks = MState::fresh(s.st.m128).banks;
                if s.st.halt {
                    let pc = s.st.pc();
                    s.st.poke(pc, 0x76);
                    s.st.poke(pc.wrapping_add(1), 0x3C);
                }
            }
            FileSpec::Sna(s) => s.banks = MState::fresh(s.m128).banks,
            FileSpec::Scr(_) => {}
        }
    }));
    steps.push(Box::new(|c| {
        let ay = c.recv.ay.clone();
        let (mouse, kemp) = (c.recv.mouse, c.recv.kemp);
        c.recv = MState::fresh(c.recv.m128);
        c.recv.ay = ay.map(|a| AyState { sel: 0, regs: [0; 16], enabled: a.enabled, played: a.played });
        c.recv.mouse = mouse;
        c.recv.kemp = kemp;
    }));
    steps.push(Box::new(|c| c.recv.banks = MState::fresh(c.recv.m128).banks));
    steps.push(Box::new(|c| { c.recv.w = [0; 12]; c.recv.i = 0; c.recv.r = 0; c.recv.iff1 = false; c.recv.iff2 = false; c.recv.im = 0; }));
    steps.push(Box::new(|c| c.recv.halt = false));
    steps.push(Box::new(|c| c.recv.skip = false));
    steps.push(Box::new(|c| c.recv.pfx = 0));
    steps.push(Box::new(|c| c.recv.border = 0));
    steps.push(Box::new(|c| c.recv.latch = 0));
    steps.push(Box::new(|c| c.recv.latch &= 0x20));
    steps.push(Box::new(|c| c.recv.mouse = false));
    steps.push(Box::new(|c| c.recv.kemp = false));
    steps.push(Box::new(|c| if let Some(a) = &mut c.recv.ay { a.regs = [0; 16]; a.sel = 0; }));
    steps.push(Box::new(|c| if let Some(a) = &mut c.recv.ay { a.sel = 0; }));
    steps.push(Box::new(|c| if let Some(a) = &mut c.recv.ay { a.played = false; }));
    steps.push(Box::new(|c| if let Some(a) = &mut c.recv.ay { a.enabled = c.recv.m128; }));
    // file structure
    steps.push(Box::new(|c| if let FileSpec::Szx(s) = &mut c.file { s.order.retain(|k| !matches!(k, Ck::Unknown(..))); }));
    steps.push(Box::new(|c| if let FileSpec::Szx(s) = &mut c.file { s.order.retain(|k| !matches!(k, Ck::Crtr)); }));
    steps.push(Box::new(|c| if let FileSpec::Szx(s) = &mut c.file { s.order.retain(|k| !matches!(k, Ck::Keyb(_))); }));
    steps.push(Box::new(|c| if let FileSpec::Szx(s) = &mut c.file { if !s.st.mouse { s.order.retain(|k| !matches!(k, Ck::Amxm(_))); } }));
    steps.push(Box::new(|c| if let FileSpec::Szx(s) = &mut c.file { for k in s.order.iter_mut() { if let Ck::Ramp(p, _) = k { *k = Ck::Ramp(*p, Comp::Raw); } } }));
    steps.push(Box::new(canonical_order));
    steps.push(Box::new(|c| if let FileSpec::Szx(s) = &mut c.file { s.fe = s.st.border; }));
    steps.push(Box::new(|c| if let FileSpec::Szx(s) = &mut c.file { s.fe &= 7; }));
    steps.push(Box::new(|c| if let FileSpec::Szx(s) = &mut c.file { s.cycles = 0; s.memptr = 0; s.fset = false; }));
    steps.push(Box::new(|c| if let FileSpec::Szx(s) = &mut c.file {
        let all: Vec<u8> = if s.mid >= 2 { (0..8).collect() } else { vec![0, 2, 5] };
        for p in all { if !s.order.iter().any(|k| matches!(k, Ck::Ramp(q, _) if *q == p)) { s.order.push(Ck::Ramp(p, Comp::Raw)); } }
    }));
    steps.push(Box::new(|c| if let FileSpec::Szx(s) = &mut c.file { s.order.retain(|k| !matches!(k, Ck::Amxm(_))); s.st.mouse = false; }));
    steps.push(Box::new(|c| if let FileSpec::Szx(s) = &mut c.file { s.order.retain(|k| !matches!(k, Ck::Ay)); }));
    steps.push(Box::new(|c| if let FileSpec::Szx(s) = &mut c.file { let m = s.mid >= 2; if let Some(a) = &mut s.st.ay { a.enabled = m; } }));
    steps.push(Box::new(canonical_order));
    // file state
    fn st_of(c: &mut Case) -> Option<&mut MState> {
        match &mut c.file {
            FileSpec::Szx(s) => Some(&mut s.st),
            FileSpec::Sna(s) => Some(s),
            FileSpec::Scr(_) => None,
        }
    }
    steps.push(Box::new(|c| if let Some(s) = st_of(c) { s.halt = false; }));
    steps.push(Box::new(|c| if let Some(s) = st_of(c) { if !s.halt { for b in s.banks.iter_mut() { b.ov.clear(); } } }));
    steps.push(Box::new(|c| if let Some(s) = st_of(c) { s.skip = false; }));
    steps.push(Box::new(|c| if let Some(s) = st_of(c) { s.border = 0; }));
    steps.push(Box::new(|c| if let FileSpec::Szx(s) = &mut c.file { s.fe = s.st.border; }));
    steps.push(Box::new(|c| if let Some(s) = st_of(c) { s.latch = 0; }));
    steps.push(Box::new(|c| if let Some(s) = st_of(c) { s.latch &= 0x27; }));
    steps.push(Box::new(|c| if let Some(s) = st_of(c) { s.iff1 = false; s.iff2 = false; }));
    steps.push(Box::new(|c| if let Some(s) = st_of(c) { let (sp, pc) = (s.w[10], s.w[11]); s.w = [0; 12]; s.w[10] = sp; s.w[11] = pc; s.i = 0; s.r = 0; s.im = 0; }));
    steps.push(Box::new(|c| if let Some(s) = st_of(c) { s.w[10] = 0x8000; }));
    steps.push(Box::new(|c| if let Some(s) = st_of(c) { if !s.halt { s.w[11] = 0; } }));
    steps.push(Box::new(|c| if let FileSpec::Szx(s) = &mut c.file { if s.st.halt {
        for b in s.st.banks.iter_mut() { b.ov.clear(); }
        s.st.w[11] = 0x9000;
        s.st.poke(0x9000, 0x76);
        s.st.poke(0x9001, 0x3C);
    } }));
    steps.push(Box::new(|c| if let Some(s) = st_of(c) { if let Some(a) = &mut s.ay { a.regs = [0; 16]; a.sel = 0; } }));
    steps.push(Box::new(|c| if let Some(s) = st_of(c) { if let Some(a) = &mut s.ay { a.sel = 0; } }));
    steps.push(Box::new(|c| if let FileSpec::Szx(s) = &mut c.file { if !s.st.mouse { return; } s.st.mouse = false; for k in s.order.iter_mut() { if let Ck::Amxm(_) = k { *k = Ck::Amxm(0); } } }));
    for s in &steps {
        let mut c = cur.clone();
        s(&mut c);
        if c.text() == cur.text() {
            continue;
        }
        if has(&check_case(cx, &c, None), phase, group, kind) {
            cur = c;
        }
    }
    cur
}

fn record(cx: &mut Ctx, rep: &mut Report, case: &Case, f: &Finding) {
    let small = shrink(cx, case, f.phase, &f.group, f.kind);
    let fs = check_case(cx, &small, None);
    let f2 = fs.iter().find(|g| g.phase == f.phase && g.group == f.group && g.kind == f.kind).cloned().unwrap_or_else(|| f.clone());
    let key = format!(
        "C14/{}/{}/{}/{}-into-{}/{}",
        small.kind(),
        f2.phase,
        f2.group,
        if small.file_m128() { "128k" } else { "48k" },
        if small.recv.m128 { "128k" } else { "48k" },
        features(&small)
    );
    rep.violation(Violation {
        kind: f2.kind,
        key,
        what: format!(
            "{} {} {}: real code gives {} but {} says {} (case: {})",
            small.kind(), f2.phase, f2.group, f2.got,
            if f2.kind == Kind::SpecViolated { "the spec" } else { "the Lean model" },
            f2.want, small.text()
        ),
        correspondence: "corr.C14.load (Model.Snapshot.szxLoad/snaLoad/scrLoad vs Emulator::load_snapshot/load_screen)".into(),
        case: J::obj(vec![("text", J::s(small.text()))]),
        implementation: f2.got.clone(),
        expected: f2.want.clone(),
    });
}
