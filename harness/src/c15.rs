//! C15 — loaders are total: any file or failing asset gives Ok/Err, never crash/hang/huge allocation.
//!
//! Real code: `Emulator::load_snapshot` (SNA, SZX), `load_screen`, `load_tape` (+ fast-load requests,
//! play, frames), `load_rom`, `rustzx_utils::io::GzipAsset`, `vtx::Vtx::load` (+ `Player::new/play`),
//! and the crate-private `Tap` through hook H2, operation by operation.
//! Every case runs in a *worker child process* (`zxharness C15 --replay-case @worker`): a panic is
//! caught there (`catch_unwind`), a hang is a missing answer (the parent kills the worker after a
//! timeout), an allocation request above `CAP` makes the counting allocator report the size and
//! abort the worker. The parent compares the observed outcome class with the Lean model's prediction
//! for the same bytes / fault script / receiving machine and lets the Lean spec judge it.
use crate::host::*;
use crate::util::*;
use rustzx_core::{
    error::{Error, IoError, RomLoadError, ScreenLoadError, SnapshotLoadError, TapeLoadError},
    host::{LoadableAsset, RomFormat, RomSet, Screen, SeekFrom, SeekableAsset, Snapshot, Tape},
    zx::verif_tape::{Tap, TapeImpl},
};
use std::alloc::{GlobalAlloc, Layout, System};
use std::collections::VecDeque;
use std::io::{BufRead, BufReader, Read, Seek, Write};
use std::panic::{catch_unwind, AssertUnwindSafe};
use std::process::{Child, ChildStdin, Command, Stdio};
use std::sync::atomic::{AtomicBool, AtomicUsize, Ordering};
use std::sync::mpsc::{channel, Receiver};
use std::sync::Mutex;
use std::time::Duration;

// ------------------------------------------------------------------------------------------------
// counting allocator (whole binary; a relaxed flag test when not armed)

pub struct CountingAlloc;
static ARMED: AtomicBool = AtomicBool::new(false);
static MAX_REQ: AtomicUsize = AtomicUsize::new(0);
/// bytes allocated minus bytes freed since arming, and its peak: memory held across many small requests
static LIVE: std::sync::atomic::AtomicIsize = std::sync::atomic::AtomicIsize::new(0);
static PEAK: std::sync::atomic::AtomicIsize = std::sync::atomic::AtomicIsize::new(0);
#[inline]
fn live(delta: isize) {
    if ARMED.load(Ordering::Relaxed) {
        let v = LIVE.fetch_add(delta, Ordering::Relaxed) + delta;
        if delta > 0 {
            PEAK.fetch_max(v, Ordering::Relaxed);
        }
    }
}
/// requests above this are never served: the worker reports them and aborts
const CAP: usize = 1 << 30;

fn report_huge(n: usize) -> ! {
    // no allocation here: digits into a stack buffer, raw write to fd 1
    let mut buf = [0u8; 40];
    let mut i = buf.len();
    buf[i - 1] = b'\n';
    i -= 1;
    let mut v = n;
    loop {
        i -= 1;
        buf[i] = b'0' + (v % 10) as u8;
        v /= 10;
        if v == 0 {
            break;
        }
    }
    for (k, c) in b"huge ".iter().enumerate() {
        buf[i - 5 + k] = *c;
    }
    i -= 5;
    use std::os::unix::io::FromRawFd;
    let mut f = std::mem::ManuallyDrop::new(unsafe { std::fs::File::from_raw_fd(1) });
    let _ = f.write_all(&buf[i..]);
    std::process::abort();
}

#[inline]
fn note(n: usize) {
    if ARMED.load(Ordering::Relaxed) {
        MAX_REQ.fetch_max(n, Ordering::Relaxed);
        if n > CAP {
            ARMED.store(false, Ordering::Relaxed);
            report_huge(n);
        }
    }
}

unsafe impl GlobalAlloc for CountingAlloc {
    unsafe fn alloc(&self, l: Layout) -> *mut u8 {
        note(l.size());
        live(l.size() as isize);
        System.alloc(l)
    }
    unsafe fn dealloc(&self, p: *mut u8, l: Layout) {
        live(-(l.size() as isize));
        System.dealloc(p, l)
    }
    unsafe fn alloc_zeroed(&self, l: Layout) -> *mut u8 {
        note(l.size());
        live(l.size() as isize);
        System.alloc_zeroed(l)
    }
    unsafe fn realloc(&self, p: *mut u8, l: Layout, n: usize) -> *mut u8 {
        note(n);
        live(n as isize - l.size() as isize);
        System.realloc(p, l, n)
    }
}

#[global_allocator]
static GLOBAL: CountingAlloc = CountingAlloc;

fn arm() {
    MAX_REQ.store(0, Ordering::Relaxed);
    LIVE.store(0, Ordering::Relaxed);
    PEAK.store(0, Ordering::Relaxed);
    ARMED.store(true, Ordering::Relaxed);
}
fn disarm() -> usize {
    ARMED.store(false, Ordering::Relaxed);
    MAX_REQ.load(Ordering::Relaxed)
}
/// largest amount held at one time since arming (0 when more was freed than allocated); read after `disarm`
fn peak_live() -> usize {
    PEAK.load(Ordering::Relaxed).max(0) as usize
}

static LAST_PANIC: Mutex<Option<String>> = Mutex::new(None);
/// watchdog kills so far (parent side): a tree that hangs everywhere must not cost hours
static HANGS: AtomicUsize = AtomicUsize::new(0);
const HANGS_SHORT_TIMEOUT: usize = 150;
const HANGS_GIVE_UP: usize = 400;
/// hangs the model did not predict are confirmed with a long timeout (a loaded machine must not
/// turn a slow case into a finding); only the first few, a tree that hangs everywhere stays cheap
static CONFIRMED: AtomicUsize = AtomicUsize::new(0);
const CONFIRM_LIMIT: usize = 8;

fn take_panic() -> String {
    LAST_PANIC
        .lock()
        .ok()
        .and_then(|mut g| g.take())
        .unwrap_or_else(|| "unknown".into())
}

/// panic message without its numbers, with the source file (no line): stable across patches
fn canon_panic(msg: &str) -> String {
    let mut out = String::new();
    let mut in_num = false;
    for c in msg.chars() {
        if c.is_ascii_digit() {
            if !in_num {
                out.push('#');
            }
            in_num = true;
        } else {
            in_num = false;
            out.push(if c.is_whitespace() { '_' } else { c });
        }
    }
    out
}

// ------------------------------------------------------------------------------------------------
// cases

#[derive(Clone, Debug, PartialEq)]
pub enum Seg {
    H(Vec<u8>),
    Z(usize, u8),
}

fn segs_text(segs: &[Seg]) -> String {
    if segs.is_empty() {
        return "-".into();
    }
    segs.iter()
        .map(|s| match s {
            Seg::H(b) => format!("h{}", hex(b)),
            Seg::Z(n, b) => format!("z{:x}x{:02x}", n, b),
        })
        .collect::<Vec<_>>()
        .join(",")
}

fn parse_segs(s: &str) -> Vec<Seg> {
    let mut v = vec![];
    for t in s.split(',') {
        if let Some(h) = t.strip_prefix('h') {
            v.push(Seg::H(unhex(h)));
        } else if let Some(z) = t.strip_prefix('z') {
            let mut it = z.split('x');
            let n = usize::from_str_radix(it.next().unwrap_or("0"), 16).unwrap_or(0);
            let b = u8::from_str_radix(it.next().unwrap_or("0"), 16).unwrap_or(0);
            v.push(Seg::Z(n, b));
        }
    }
    v
}

fn segs_bytes(segs: &[Seg]) -> Vec<u8> {
    let mut v = vec![];
    for s in segs {
        match s {
            Seg::H(b) => v.extend_from_slice(b),
            Seg::Z(n, b) => v.extend(std::iter::repeat(*b).take(*n)),
        }
    }
    v
}

fn segs_len(segs: &[Seg]) -> usize {
    segs.iter()
        .map(|s| match s {
            Seg::H(b) => b.len(),
            Seg::Z(n, _) => *n,
        })
        .sum()
}

#[derive(Clone, Copy, Debug, PartialEq, Default)]
pub struct Script {
    pub chunk: usize,
    pub fail_read: Option<usize>,
    pub fail_seek: Option<usize>,
    pub eof_zero: bool,
}

impl Script {
    fn text(&self) -> String {
        let o = |x: Option<usize>| x.map(|v| format!("{:x}", v)).unwrap_or_else(|| "-".into());
        format!(
            "{:x} {} {} {}",
            self.chunk,
            o(self.fail_read),
            o(self.fail_seek),
            if self.eof_zero { 1 } else { 0 }
        )
    }
    fn is_plain(&self) -> bool {
        self.chunk == 0 && self.fail_read.is_none() && self.fail_seek.is_none()
    }
    fn class(&self) -> &'static str {
        match (self.chunk != 0, self.fail_read.is_some(), self.fail_seek.is_some()) {
            (false, false, false) => "plain",
            (true, false, false) => "short-reads",
            (_, true, false) => "read-failure",
            (_, false, true) => "seek-failure",
            _ => "read+seek-failure",
        }
    }
    fn asset(&self, data: Vec<u8>) -> VAsset {
        VAsset {
            data,
            max_chunk: self.chunk,
            fail_read_at: self.fail_read,
            fail_seek_at: self.fail_seek,
            eof_zero: self.eof_zero,
            ..Default::default()
        }
    }
}

/// One case = one line of text (also the replay format):
/// `<loader> <m128> <locked> <bank> <ay> <chunk> <failread|-> <failseek|-> <eofzero> <bytes> <extra>`
/// loader: sna szx scr rom tap tapc vtx gz:sna gz:szx gz:scr gz:tap
/// extra:  szx = inflate table | tap = fast-load requests `f<f>:<a>:<de>:<ix>;...` | tapc = ops | rom = `|`-separated
///         second.. page assets | else `-`
#[derive(Clone, Debug, PartialEq)]
pub struct Case {
    pub loader: String,
    pub m128: bool,
    pub locked: bool,
    pub bank: u8,
    pub ay: bool,
    pub sc: Script,
    pub segs: Vec<Seg>,
    pub extra: String,
}

impl Case {
    fn new(loader: &str) -> Case {
        Case {
            loader: loader.into(),
            m128: false,
            locked: true,
            bank: 2,
            ay: false,
            sc: Script::default(),
            segs: vec![],
            extra: "-".into(),
        }
    }
    fn machine(mut self, m128: bool, locked: bool, bank: u8) -> Case {
        self.m128 = m128;
        if m128 {
            self.locked = locked;
            self.bank = bank & 7;
        } else {
            self.locked = true;
            self.bank = 2;
        }
        self
    }
    fn recv_text(&self) -> String {
        let b = |x: bool| if x { 1 } else { 0 };
        format!("{} {} {:x} {}", b(self.m128), b(self.locked), self.bank, b(self.ay))
    }
    fn text(&self) -> String {
        format!(
            "{} {} {} {} {}",
            self.loader,
            self.recv_text(),
            self.sc.text(),
            segs_text(&self.segs),
            if self.extra.is_empty() { "-" } else { &self.extra }
        )
    }
    fn parse(s: &str) -> Option<Case> {
        let t: Vec<&str> = s.split_whitespace().collect();
        if t.len() < 10 {
            return None;
        }
        let o = |x: &str| usize::from_str_radix(x, 16).ok();
        Some(Case {
            loader: t[0].into(),
            m128: t[1] == "1",
            locked: t[2] == "1",
            bank: u8::from_str_radix(t[3], 16).unwrap_or(0),
            ay: t[4] == "1",
            sc: Script {
                chunk: o(t[5]).unwrap_or(0),
                fail_read: o(t[6]),
                fail_seek: o(t[7]),
                eof_zero: t[8] == "1",
            },
            segs: parse_segs(t[9]),
            extra: t.get(10).map(|x| x.to_string()).unwrap_or_else(|| "-".into()),
        })
    }
    fn len(&self) -> usize {
        segs_len(&self.segs)
    }
}

// ------------------------------------------------------------------------------------------------
// real code (runs inside the worker process)

fn io_name(e: &IoError) -> &'static str {
    match e {
        IoError::UnexpectedEof => "io.eof",
        IoError::WriteZero => "io.writeZero",
        IoError::SeekBeforeStart => "io.seekBeforeStart",
        IoError::HostAssetImplFailed => "io.hostFailed",
    }
}

fn err_name(e: &Error) -> String {
    match e {
        Error::AssetRead(io) => io_name(io).into(),
        Error::RomLoad(RomLoadError::MoreAssetsRequired) => "moreAssetsRequired".into(),
        Error::TapeLoad(TapeLoadError::InvalidTapFile) => "invalidTap".into(),
        Error::ScreenLoad(ScreenLoadError::InvalidScrFile) => "invalidScr".into(),
        Error::ScreenLoad(ScreenLoadError::MachineNotSupported) => "scrMachineNotSupported".into(),
        Error::SnapshotLoad(SnapshotLoadError::InvalidSNAFile) => "invalidSna".into(),
        Error::SnapshotLoad(SnapshotLoadError::InvalidSZXFile) => "invalidSzx".into(),
        Error::SnapshotLoad(SnapshotLoadError::MachineNotSupported) => "machineNotSupported".into(),
        Error::SnapshotLoad(SnapshotLoadError::ZlibNotSupported) => "zlibNotSupported".into(),
        other => canon_panic(&format!("{:?}", other)),
    }
}

/// observation of one guarded call: `ok` | `err <kind>` | `panic <canonical message>`
fn guarded<T>(f: impl FnOnce() -> Result<T, String>) -> (String, Option<T>) {
    match catch_unwind(AssertUnwindSafe(f)) {
        Ok(Ok(v)) => ("ok -".into(), Some(v)),
        Ok(Err(k)) => (format!("err {}", k), None),
        Err(_) => (format!("panic {}", take_panic()), None),
    }
}

fn mk_emu(c: &Case, fastload: bool) -> Emu {
    let mut cfg = Cfg::new(c.m128);
    cfg.ay = c.ay;
    cfg.sound = c.ay;
    cfg.fastload = fastload;
    let mut e = emu(&cfg);
    if c.m128 {
        e.verif_write_io(0x7FFD, (c.bank & 7) | if c.locked { 0x20 } else { 0 });
    }
    e
}

/// N further frames after the load; `ok` | `err:<kind>` | `panic:<msg>`
fn post_frames(e: &mut Emu, n: usize) -> String {
    let r = catch_unwind(AssertUnwindSafe(|| {
        for _ in 0..n {
            if let Err(err) = e.emulate_frames(Duration::from_secs(1)) {
                return Err(err_name(&err));
            }
            while e.next_audio_sample().is_some() {}
        }
        // whatever program runs next may touch any device port before initialising it: the same
        // port cycles the CPU would perform, on the state the loader left behind
        for p in [0xFFFDu16, 0xFFFE, 0x7FFE, 0x001F, 0xFADF, 0xFBDF, 0xFFDF, 0x00FF, 0xCCCC] {
            let _ = e.verif_read_io(p);
        }
        for (p, v) in [(0xBFFDu16, 0x0Fu8), (0x00FE, 0x15), (0xBFFD, 0xFF)] {
            e.verif_write_io(p, v);
        }
        let _ = e.verif_read_io(0xFFFD);
        if let Err(err) = e.emulate_frames(Duration::from_secs(1)) {
            return Err(err_name(&err));
        }
        while e.next_audio_sample().is_some() {}
        Ok(())
    }));
    match r {
        Ok(Ok(())) => "ok".into(),
        Ok(Err(k)) => format!("err:{}", k),
        Err(_) => format!("panic:{}", take_panic()),
    }
}

struct Roms(VecDeque<VAsset>);
impl RomSet for Roms {
    type Asset = VAsset;
    fn format(&self) -> RomFormat {
        RomFormat::Binary16KPages
    }
    fn next_asset(&mut self) -> Option<VAsset> {
        self.0.pop_front()
    }
}

/// `std::io::Read + Seek` with the same fault script (for `Vtx::load`)
struct StdReader(VAsset);
impl Read for StdReader {
    fn read(&mut self, buf: &mut [u8]) -> std::io::Result<usize> {
        LoadableAsset::read(&mut self.0, buf)
            .map_err(|e| std::io::Error::new(std::io::ErrorKind::Other, io_name(&e)))
    }
}
impl Seek for StdReader {
    fn seek(&mut self, pos: std::io::SeekFrom) -> std::io::Result<u64> {
        let p = match pos {
            std::io::SeekFrom::Start(n) => SeekFrom::Start(n as usize),
            std::io::SeekFrom::End(n) => SeekFrom::End(n as isize),
            std::io::SeekFrom::Current(n) => SeekFrom::Current(n as isize),
        };
        SeekableAsset::seek(&mut self.0, p)
            .map(|v| v as u64)
            .map_err(|e| std::io::Error::new(std::io::ErrorKind::Other, io_name(&e)))
    }
}

#[derive(Clone, Copy)]
struct FlReq {
    f: u8,
    a: u8,
    de: u16,
    ix: u16,
}

fn parse_fl(s: &str) -> Vec<FlReq> {
    s.split(';')
        .filter_map(|t| {
            let t = t.strip_prefix('f')?;
            let p: Vec<&str> = t.split(':').collect();
            if p.len() != 4 {
                return None;
            }
            Some(FlReq {
                f: u8::from_str_radix(p[0], 16).ok()?,
                a: u8::from_str_radix(p[1], 16).ok()?,
                de: u16::from_str_radix(p[2], 16).ok()?,
                ix: u16::from_str_radix(p[3], 16).ok()?,
            })
        })
        .collect()
}

/// component level: one operation on the crate-private `Tap` (hook H2)
fn tap_op(t: &mut Tap<VAsset>, op: &str) -> String {
    let r = catch_unwind(AssertUnwindSafe(|| -> Result<String, String> {
        let e = |x: Error| err_name(&x);
        Ok(match op.as_bytes().first() {
            Some(b'p') => {
                t.play();
                "ok".into()
            }
            Some(b's') => {
                t.stop();
                "ok".into()
            }
            Some(b'r') => {
                t.rewind().map_err(e)?;
                "ok".into()
            }
            Some(b'c') => {
                let n = usize::from_str_radix(&op[1..], 16).unwrap_or(0);
                t.process_clocks(n).map_err(e)?;
                "ok".into()
            }
            Some(b'k') => {
                // k<count>:<clocks> — repeated process_clocks, first failure wins
                let mut it = op[1..].split(':');
                let cnt = usize::from_str_radix(it.next().unwrap_or("0"), 16).unwrap_or(0);
                let n = usize::from_str_radix(it.next().unwrap_or("0"), 16).unwrap_or(0);
                for _ in 0..cnt {
                    t.process_clocks(n).map_err(e)?;
                }
                "ok".into()
            }
            Some(b'b') => format!("ok:{}", if t.next_block().map_err(e)? { 1 } else { 0 }),
            Some(b'y') => match t.next_block_byte().map_err(e)? {
                Some(b) => format!("ok:{:02x}", b),
                None => "ok:-".into(),
            },
            _ => "bad-op".into(),
        })
    }));
    match r {
        Ok(Ok(s)) => s,
        Ok(Err(k)) => format!("err:{}", k),
        Err(_) => format!("panic:{}", take_panic()),
    }
}

/// Runs one case on the real code. Answer: `<class> <detail> <maxalloc hex> <post> <extra>`
fn run_real(c: &Case) -> String {
    let bytes = segs_bytes(&c.segs);
    let loader = c.loader.as_str();
    let (gz, inner) = match loader.strip_prefix("gz:") {
        Some(i) => (true, i),
        None => (false, loader),
    };
    let mut extra = String::from("-");
    // gzip wrapping: the decompressed bytes go back to the parent (they are the model's input)
    let (data, gz_alloc) = if gz {
        arm();
        let r = catch_unwind(AssertUnwindSafe(|| {
            rustzx_utils::io::GzipAsset::new(&bytes[..]).map(|a| a.into_vec())
        }));
        let ma = disarm();
        match r {
            Ok(Ok(v)) => {
                extra = format!("gz={}", if v.is_empty() { "-".into() } else { hex(&v) });
                (v, ma)
            }
            Ok(Err(_)) => return format!("err gzip {:x} ok gz=err", ma),
            Err(_) => return format!("panic {} {:x} ok gz=panic", take_panic(), ma),
        }
    } else {
        (bytes, 0)
    };
    match inner {
        "sna" | "szx" | "scr" => {
            let mut e = mk_emu(c, false);
            arm();
            let (obs, _) = guarded(|| {
                // through the real GzipAsset where the case is gzip-wrapped
                if gz {
                    let raw = segs_bytes(&c.segs);
                    let a = rustzx_utils::io::GzipAsset::new(&raw[..]).map_err(|_| "gzip".to_string())?;
                    match inner {
                        "sna" => e.load_snapshot(Snapshot::Sna(a)),
                        "szx" => e.load_snapshot(Snapshot::Szx(a)),
                        _ => e.load_screen(Screen::Scr(a)),
                    }
                    .map_err(|x| err_name(&x))
                } else {
                    let a = c.sc.asset(data);
                    match inner {
                        "sna" => e.load_snapshot(Snapshot::Sna(a)),
                        "szx" => e.load_snapshot(Snapshot::Szx(a)),
                        _ => e.load_screen(Screen::Scr(a)),
                    }
                    .map_err(|x| err_name(&x))
                }
            });
            // snapshot/screen loaders: also what was held at one time over many requests is reported (not
            // through the gzip wrapper, whose own buffer has its own bound)
            let ma = disarm().max(gz_alloc);
            if !gz {
                extra = format!("live={:x}", peak_live());
            }
            let post = post_frames(&mut e, 2);
            format!("{} {:x} {} {}", obs, ma, post, extra)
        }
        "rom" => {
            let mut e = mk_emu(c, false);
            let mut assets = VecDeque::new();
            if !(c.segs.is_empty() && c.extra == "none") {
                assets.push_back(c.sc.asset(data));
                if c.extra != "-" && c.extra != "none" {
                    for part in c.extra.split('|') {
                        assets.push_back(c.sc.asset(segs_bytes(&parse_segs(part))));
                    }
                }
            }
            arm();
            let (obs, _) = guarded(|| e.load_rom(Roms(assets)).map_err(|x| err_name(&x)));
            let ma = disarm();
            let post = post_frames(&mut e, 2);
            format!("{} {:x} {} -", obs, ma, post)
        }
        "tap" => {
            // emulator level: load, fast-load requests, then play and run frames
            let mut e = mk_emu(c, true);
            arm();
            let (obs, _) = guarded(|| e.load_tape(Tape::Tap(c.sc.asset(data))).map_err(|x| err_name(&x)));
            let mut fl_out = vec![];
            let mut first_bad = obs.clone();
            if obs.starts_with("ok") {
                for rq in parse_fl(&c.extra) {
                    let (o, v) = guarded(|| {
                        {
                            let cpu = e.verif_cpu();
                            cpu.regs.set_af(((rq.a as u16) << 8) | rq.f as u16);
                            cpu.regs.swap_af_alt();
                            cpu.regs.set_ix(rq.ix);
                            cpu.regs.set_de(rq.de);
                            cpu.regs.set_sp(0xFF00);
                            // pc_callback sees the PC *after* the instruction: NOP at 0x056A, then 0x056B = LD-BREAK
                            cpu.regs.set_pc(0x056A);
                            cpu.regs.set_iff1(false);
                            cpu.halted = false;
                        }
                        e.set_debug_interface(Dbg { break_all: true, ..Default::default() });
                        let r = e.emulate_frames(Duration::from_secs(1)).map_err(|x| err_name(&x));
                        if let Some(d) = e.debug_interface() {
                            d.break_all = false;
                        }
                        r?;
                        let cpu = e.verif_cpu();
                        Ok((cpu.regs.get_de(), cpu.regs.get_ix()))
                    });
                    match v {
                        Some((de, ix)) => fl_out.push(format!("ok:{:x}:{:x}", de, ix)),
                        None => {
                            fl_out.push(o.replacen(' ', ":", 1));
                            if first_bad.starts_with("ok") {
                                first_bad = o;
                            }
                        }
                    }
                }
            }
            let ma = disarm();
            e.play_tape();
            let post = post_frames(&mut e, 3);
            format!(
                "{} {:x} {} fl={}",
                first_bad,
                ma,
                post,
                if fl_out.is_empty() { "-".into() } else { fl_out.join(",") }
            )
        }
        "tapc" => {
            arm();
            let made = catch_unwind(AssertUnwindSafe(|| Tap::from_asset(c.sc.asset(data))));
            let mut outs = vec![];
            let mut worst = String::from("ok -");
            if let Ok(Ok(mut t)) = made {
                for op in c.extra.split(';') {
                    let o = tap_op(&mut t, op);
                    if o.starts_with("panic") && !worst.starts_with("panic") {
                        worst = o.replacen(':', " ", 1);
                    }
                    outs.push(o);
                }
            } else {
                worst = "panic from_asset".into();
            }
            let ma = disarm();
            format!("{} {:x} ok ops={}", worst, ma, outs.join(","))
        }
        "vtx" => {
            arm();
            let (obs, v) = guarded(|| {
                vtx::Vtx::load(StdReader(c.sc.asset(data))).map_err(|e| match e {
                    vtx::VtxError::Io(_) => "vtxIo".to_string(),
                    vtx::VtxError::InvalidHeader { .. } => "vtxHeader".to_string(),
                    vtx::VtxError::DecompressFailure => "vtxDecompress".to_string(),
                })
            });
            let mut obs = obs;
            let mut post = String::from("ok");
            if let Some(v) = v {
                let frames = v.frame_data.len() / 14;
                let r = catch_unwind(AssertUnwindSafe(|| vtx::player::PrecisePlayer::new(v, 44100, true)));
                match r {
                    Err(_) => obs = format!("panic {}", take_panic()),
                    Ok(mut p) => {
                        let r2 = catch_unwind(AssertUnwindSafe(|| {
                            let mut buf = [0i16; 4096];
                            p.play(&mut buf)
                        }));
                        if r2.is_err() {
                            post = format!("panic:{}", take_panic());
                        }
                    }
                }
                extra = format!("frames={:x}", frames);
            }
            let ma = disarm();
            format!("{} {:x} {} {}", obs, ma, post, extra)
        }
        _ => "bad-case - 0 ok -".into(),
    }
}

/// worker process: one case per stdin line, one answer per stdout line
fn worker_main() -> ! {
    std::panic::set_hook(Box::new(|info| {
        let msg = if let Some(s) = info.payload().downcast_ref::<&str>() {
            s.to_string()
        } else if let Some(s) = info.payload().downcast_ref::<String>() {
            s.clone()
        } else {
            "?".to_string()
        };
        let file = info
            .location()
            .map(|l| l.file().rsplit('/').next().unwrap_or("").to_string())
            .unwrap_or_default();
        if std::env::var("ZXH_PANIC_LOG").is_ok() {
            eprintln!("worker panic: {} at {:?}", msg, info.location());
        }
        if let Ok(mut g) = LAST_PANIC.lock() {
            *g = Some(canon_panic(&format!("{}@{}", msg, file)));
        }
    }));
    let stdin = std::io::stdin();
    let mut out = std::io::stdout();
    for line in stdin.lock().lines() {
        let line = match line {
            Ok(l) => l,
            Err(_) => break,
        };
        let ans = match Case::parse(&line) {
            Some(c) => run_real(&c),
            None => "bad-case - 0 ok -".into(),
        };
        let _ = writeln!(out, "{}", ans);
        let _ = out.flush();
    }
    std::process::exit(0);
}

// ------------------------------------------------------------------------------------------------
// parent side: worker handle, model requests, adjudication

#[derive(Clone, Debug, Default)]
pub struct Obs {
    /// ok | err | panic | hang | huge | crash
    pub class: String,
    pub detail: String,
    pub alloc: usize,
    pub post: String,
    pub extra: String,
}

struct Worker {
    child: Child,
    stdin: ChildStdin,
    rx: Receiver<String>,
    spawned: u64,
    killed: u64,
}

fn spawn_worker() -> (Child, ChildStdin, Receiver<String>) {
    let exe = std::env::current_exe().expect("current_exe");
    let mut child = Command::new(exe)
        .args(["C15", "--replay-case", "@worker"])
        .stdin(Stdio::piped())
        .stdout(Stdio::piped())
        .stderr(Stdio::null())
        .spawn()
        .expect("cannot start the C15 worker process");
    let stdin = child.stdin.take().unwrap();
    let stdout = child.stdout.take().unwrap();
    let (tx, rx) = channel();
    std::thread::spawn(move || {
        let rd = BufReader::with_capacity(1 << 20, stdout);
        for l in rd.lines() {
            match l {
                Ok(l) => {
                    if tx.send(l).is_err() {
                        break;
                    }
                }
                Err(_) => break,
            }
        }
    });
    (child, stdin, rx)
}

impl Worker {
    fn new() -> Worker {
        let (child, stdin, rx) = spawn_worker();
        Worker { child, stdin, rx, spawned: 1, killed: 0 }
    }
    fn respawn(&mut self) {
        let _ = self.child.kill();
        let _ = self.child.wait();
        let (child, stdin, rx) = spawn_worker();
        self.child = child;
        self.stdin = stdin;
        self.rx = rx;
        self.spawned += 1;
    }
    fn run(&mut self, c: &Case, timeout: Duration) -> Obs {
        let line = c.text();
        let sent = self
            .stdin
            .write_all(line.as_bytes())
            .and_then(|_| self.stdin.write_all(b"\n"))
            .and_then(|_| self.stdin.flush());
        if sent.is_err() {
            self.respawn();
            return Obs { class: "crash".into(), detail: "worker-pipe".into(), post: "ok".into(), ..Default::default() };
        }
        match self.rx.recv_timeout(timeout) {
            Ok(l) => {
                if let Some(n) = l.strip_prefix("huge ") {
                    let n = n.trim().parse::<usize>().unwrap_or(usize::MAX);
                    self.respawn();
                    return Obs { class: "huge".into(), detail: format!("{}", n), alloc: n, post: "ok".into(), extra: "-".into() };
                }
                let t: Vec<&str> = l.splitn(5, ' ').collect();
                if t.len() < 5 {
                    return Obs { class: "crash".into(), detail: canon_panic(&l), post: "ok".into(), ..Default::default() };
                }
                Obs {
                    class: t[0].into(),
                    detail: t[1].into(),
                    alloc: usize::from_str_radix(t[2], 16).unwrap_or(0),
                    post: t[3].into(),
                    extra: t[4].into(),
                }
            }
            Err(std::sync::mpsc::RecvTimeoutError::Timeout) => {
                self.killed += 1;
                HANGS.fetch_add(1, Ordering::Relaxed);
                self.respawn();
                Obs { class: "hang".into(), detail: format!("no answer within {} ms", timeout.as_millis()), post: "ok".into(), extra: "-".into(), alloc: 0 }
            }
            Err(std::sync::mpsc::RecvTimeoutError::Disconnected) => {
                let status = self.child.wait().map(|s| format!("{}", s)).unwrap_or_default();
                self.respawn();
                Obs { class: "crash".into(), detail: canon_panic(&status), post: "ok".into(), extra: "-".into(), alloc: 0 }
            }
        }
    }
}

impl Drop for Worker {
    fn drop(&mut self) {
        let _ = self.child.kill();
        let _ = self.child.wait();
    }
}

/// the failure sites of the model, in the order of `Site.all` (bit i of the fix mask)
const SITES: [&str; 30] = [
    "snaIm", "snaPage", "szxIdUtf8", "szxAlloc", "szxCrtrShort", "szxCrtrUtf8", "szxZ80rShort", "szxZ80rIm",
    "szxSpcrShort", "szxSpcrBorder", "szxAyShort", "szxKeybShort", "szxAmxmShort", "szxRampShort",
    "szxRampPage", "szxRampData", "szxRampInflated", "tapArith", "tapIndex", "tapPilot", "vtxSpin",
    "vtxScan", "vtxArith", "vtxStrings", "vtxAlloc", "vtxPlayerFreq", "vtxLha", "snaRev", "snaRestore", "szxMachine",
];

fn site_bit(name: &str) -> u32 {
    SITES.iter().position(|s| *s == name).map(|i| 1u32 << i).unwrap_or(0)
}

#[derive(Clone, Debug, Default)]
pub struct Pred {
    pub class: String,
    pub detail: String,
    pub alloc: usize,
    pub steps: usize,
    pub ops: Vec<String>,
}

fn inner_loader(c: &Case) -> &str {
    c.loader.strip_prefix("gz:").unwrap_or(&c.loader)
}

const VTX_CHUNK: usize = 65536;

/// the request line for the Lean driver; `obs` supplies what only the real run can tell
/// (gzip output, whether the LH5 decoder delivered)
fn model_request(c: &Case, fix: u32, obs: &Obs) -> Option<String> {
    let gz = c.loader.starts_with("gz:");
    let (script, bytes) = if gz {
        let h = obs.extra.strip_prefix("gz=")?;
        if h == "err" || h == "panic" {
            return None;
        }
        ("0 - - 0".to_string(), if h == "-" { "-".to_string() } else { format!("h{}", h) })
    } else {
        (c.sc.text(), segs_text(&c.segs))
    };
    Some(match inner_loader(c) {
        "sna" => format!("sna {:x} {} {} {}", fix, c.recv_text(), script, bytes),
        "scr" => format!("scr {:x} {} {} {}", fix, c.recv_text(), script, bytes),
        "szx" => format!("szx {:x} {} {} {} {}", fix, c.recv_text(), script, bytes, c.extra),
        "rom" => {
            let mut s = format!("rom {}", if c.m128 { 1 } else { 0 });
            if !(c.segs.is_empty() && c.extra == "none") {
                s.push_str(&format!(" {} {}", script, bytes));
                if c.extra != "-" && c.extra != "none" {
                    for part in c.extra.split('|') {
                        s.push_str(&format!(" {} {}", script, part));
                    }
                }
            }
            s
        }
        "tap" => {
            let ops = if c.extra == "-" || c.extra.is_empty() { "s".to_string() } else { c.extra.clone() };
            format!("tap {} {} {}", script, bytes, ops)
        }
        "tapc" => format!("tap {} {} {}", script, bytes, c.extra),
        "vtx" => {
            // the decoder is a parameter of the model: did it deliver, fail, or panic (delharc frames)?
            let produced = if obs.class == "panic" && obs.detail.contains("@lhv") {
                "p".to_string()
            } else if obs.detail == "vtxDecompress" {
                "0".to_string()
            } else {
                "ffffffff".to_string()
            };
            format!("vtx {:x} {} {} {}", fix, script, bytes, produced)
        }
        _ => return None,
    })
}

fn parse_pred(c: &Case, ans: &str) -> Pred {
    match inner_loader(c) {
        "tap" | "tapc" => {
            let ops: Vec<String> = ans.split(',').map(|s| s.to_string()).collect();
            // emulator level: the first failing fast-load request decides; component level: Err results
            // are ordinary answers of single operations, only panic/hang leave the contract
            let emu_level = inner_loader(c) == "tap";
            let bad = ops
                .iter()
                .find(|o| o.starts_with("panic") || o.starts_with("hang") || (emu_level && o.starts_with("err")));
            let (class, detail) = match bad {
                Some(b) => {
                    let mut it = b.splitn(2, ':');
                    (it.next().unwrap_or("").to_string(), it.next().unwrap_or("-").to_string())
                }
                None => ("ok".to_string(), "-".to_string()),
            };
            Pred { class, detail, alloc: 0, steps: 0, ops }
        }
        _ => {
            let t: Vec<&str> = ans.split(' ').collect();
            if t.len() < 4 {
                return Pred { class: "bad".into(), detail: ans.into(), ..Default::default() };
            }
            Pred {
                class: t[0].into(),
                detail: t[1].into(),
                alloc: usize::from_str_radix(t[2], 16).unwrap_or(0),
                steps: usize::from_str_radix(t[3], 16).unwrap_or(0),
                ops: vec![],
            }
        }
    }
}

#[derive(Clone, Debug)]
pub struct Finding {
    pub kind: Kind,
    pub key: String,
    pub what: String,
    pub implementation: String,
    pub expected: String,
}

struct Ctx {
    worker: Worker,
    model: Model,
    fix: u32,
    timeout: Duration,
    vtx_timeout: Duration,
}

struct Eval {
    obs: Obs,
    pred: Pred,
    finding: Option<Finding>,
}

fn vtx_claim(bytes: &[u8]) -> u64 {
    if bytes.len() >= 16 {
        u32::from_le_bytes([bytes[12], bytes[13], bytes[14], bytes[15]]) as u64
    } else {
        0
    }
}

impl Ctx {
    fn timeout_for(&self, c: &Case) -> Duration {
        if HANGS.load(Ordering::Relaxed) > HANGS_SHORT_TIMEOUT {
            return Duration::from_millis(1000);
        }
        if inner_loader(c) == "vtx" {
            self.vtx_timeout
        } else {
            self.timeout
        }
    }

    /// does the LH5 tail of this VTX file deliver at least `p` bytes? (the real decoder is the oracle:
    /// the same file with the declared size lowered to `p` loads iff it does)
    fn vtx_produces(&mut self, c: &Case, p: u64) -> bool {
        let mut bytes = segs_bytes(&c.segs);
        if bytes.len() < 16 {
            return false;
        }
        let p14 = (p / 14) * 14;
        bytes[12..16].copy_from_slice(&(p14 as u32).to_le_bytes());
        bytes[9] = 50;
        let mut c2 = c.clone();
        c2.segs = vec![Seg::H(bytes)];
        let t = self.timeout_for(c);
        let o = self.worker.run(&c2, t);
        o.class == "ok"
    }

    /// `inflate` parameter of the model for an SZX file whose compressed pages were not built by the
    /// generator (real files, mutations): the real decompressor is asked, one isolated RAMP chunk at a
    /// time, whether the stream fails, inflates to less than a page, or to a page and more
    fn probe_inflate(&mut self, d: &[u8]) -> String {
        let mut tbl = vec![];
        let mut i = 8usize;
        while i + 8 <= d.len() && tbl.len() < 16 {
            let id: Vec<u8> = d[i..i + 4].iter().map(|b| b.to_ascii_uppercase()).collect();
            let size = u32::from_le_bytes([d[i + 4], d[i + 5], d[i + 6], d[i + 7]]) as usize;
            if size > d.len() - (i + 8) {
                break;
            }
            if id == b"RAMP" && size >= 3 && d[i + 8] & 1 == 1 {
                let stream = d[i + 11..i + 8 + size].to_vec();
                let mut b = SzxB::new(2);
                let mut data = vec![1u8, 0, 0];
                data.extend_from_slice(&stream);
                b.chunk(b"RAMP", size as u32, vec![Seg::H(data)]);
                let probe = b.finish(Case::new("szx").machine(true, false, 0));
                let o = self.worker.run(&probe, self.timeout);
                let res = match o.class.as_str() {
                    "ok" => "4000",
                    "err" => "x",
                    _ => "0",
                };
                tbl.push(format!("{:x}:{}", i + 11, res));
            }
            i += 8 + size;
        }
        if tbl.is_empty() {
            "-".into()
        } else {
            tbl.join(",")
        }
    }

    fn predict(&mut self, c: &Case, req: &Option<String>, obs: &Obs) -> Pred {
        match req {
            Some(r) => {
                let a = self.model.ask(r);
                if a == "bad-op" || a == "unimplemented" {
                    panic!("driver rejected: {}", &r[..r.len().min(300)]);
                }
                parse_pred(c, &a)
            }
            None => Pred { class: obs.class.clone(), detail: "-".into(), ..Default::default() },
        }
    }

    fn eval(&mut self, c0: &Case) -> Eval {
        let mut patched;
        let mut c = c0;
        if c0.loader == "szx" && c0.extra == "-" && c0.len() <= 70000 {
            let t = self.probe_inflate(&segs_bytes(&c0.segs));
            if t != "-" {
                patched = c0.clone();
                patched.extra = t;
                c = &patched;
            }
        }
        let t = self.timeout_for(c);
        let obs = self.worker.run(c, t);
        let loader = inner_loader(c).to_string();
        let mut obs = obs;
        let mut req = model_request(c, self.fix, &obs);
        let mut pred = self.predict(c, &req, &obs);
        if obs.class == "hang" && pred.class != "hang" && CONFIRMED.fetch_add(1, Ordering::Relaxed) < CONFIRM_LIMIT {
            let again = self.worker.run(c, Duration::from_secs(10));
            if again.class != "hang" {
                HANGS.fetch_sub(1, Ordering::Relaxed);
            }
            obs = again;
            req = model_request(c, self.fix, &obs);
            pred = self.predict(c, &req, &obs);
        }
        let model_class = if pred.alloc > CAP { "huge".to_string() } else { pred.class.clone() };
        let acceptable = obs.class == "ok" || obs.class == "err";
        // what an external decompressor legitimately adds to the allocation bound
        let len = c.len();
        let extra: u64 = match c.loader.as_str() {
            "vtx" => {
                let bytes = segs_bytes(&c.segs);
                let claim = vtx_claim(&bytes);
                if obs.class == "ok" {
                    2 * claim + 2 * VTX_CHUNK as u64
                } else if obs.detail == "vtxDecompress" && obs.alloc > len + 65536 + 2 * VTX_CHUNK {
                    let p = ((obs.alloc - len - 65536 - 2 * VTX_CHUNK) / 2) as u64;
                    if self.vtx_produces(c, p) {
                        2 * claim + 2 * VTX_CHUNK as u64
                    } else {
                        2 * VTX_CHUNK as u64
                    }
                } else {
                    2 * VTX_CHUNK as u64
                }
            }
            l if l.starts_with("gz:") => {
                // read_to_end doubles its buffer while flate2 delivers: twice the decompressed length;
                // when the container turns out damaged the delivered part is unknown: deflate's maximal
                // expansion (1032:1) bounds it
                match obs.extra.strip_prefix("gz=") {
                    Some(h) if h != "err" && h != "panic" => 2 * (h.len() / 2) as u64 + 65536,
                    _ => 2 * 1032 * len as u64 + 65536,
                }
            }
            _ => 0,
        };
        let verdict = self.model.ask(&format!(
            "judge {:x} {:x} {} {:x}",
            len,
            extra,
            if acceptable { 1 } else { 0 },
            obs.alloc
        ));
        // memory held at one time (sum over live requests): judged by the same spec function with the allowance
        // extra = 3 x (input + 65536), i.e. four times the single-request bound
        let held: Option<(String, usize, usize)> = obs.extra.strip_prefix("live=").and_then(|h| usize::from_str_radix(h, 16).ok()).map(|live| {
            let allowance = 3 * (len as u64 + 65536);
            let v = self.model.ask(&format!("judge {:x} {:x} 1 {:x}", len, allowance, live));
            (v, live, 4 * (len + 65536))
        });
        let alloc_site = match loader.as_str() {
            "szx" => "szxAlloc",
            "vtx" => "vtxAlloc",
            _ => "alloc",
        };
        let impl_s = format!("{} {} (largest request {} bytes, then frames: {})", obs.class, obs.detail, obs.alloc, obs.post);
        let finding = if !acceptable {
            let tag = if obs.class == "huge" {
                if model_class == "huge" { alloc_site.to_string() } else { format!("unpredicted-alloc:{}", alloc_site) }
            } else if obs.class == model_class && SITES.contains(&pred.detail.as_str()) {
                pred.detail.clone()
            } else if obs.class == "hang" && model_class == "hang" && loader == "vtx" {
                "vtxSpin".to_string()
            } else if obs.class == "hang" {
                "unpredicted:hang".to_string()
            } else {
                format!("unpredicted:{}:{}", obs.class, obs.detail)
            };
            Some(Finding {
                kind: Kind::SpecViolated,
                key: format!("C15/{}/{}", loader, tag),
                what: format!("load outcome is {} ({}), the property allows only Ok or Err; model predicted {} {}", obs.class, obs.detail, model_class, pred.detail),
                implementation: impl_s,
                expected: "ok or err".into(),
            })
        } else if verdict == "badAlloc" {
            let tag = if pred.alloc > len + 65536 + extra as usize { alloc_site.to_string() } else { format!("unpredicted-alloc:{}", alloc_site) };
            Some(Finding {
                kind: Kind::SpecViolated,
                key: format!("C15/{}/{}", loader, tag),
                what: format!("a single allocation of {} bytes was requested while loading {} bytes (bound: input + {} + 65536); model predicted {}", obs.alloc, len, extra, pred.alloc),
                implementation: impl_s,
                expected: format!("largest request <= {}", len as u64 + extra + 65536),
            })
        } else if obs.post.starts_with("panic") || obs.post.starts_with("hang") {
            Some(Finding {
                kind: Kind::SpecViolated,
                key: format!("C15/{}/post:{}", loader, obs.post),
                what: format!("after the load returned {} the emulator did not survive further frames: {}", obs.class, obs.post),
                implementation: impl_s,
                expected: "frames after the load run without panic".into(),
            })
        } else if held.as_ref().map_or(false, |(v, _, _)| v == "badAlloc") {
            let (_, live, bound) = held.clone().unwrap();
            Some(Finding {
                kind: Kind::SpecViolated,
                key: format!("C15/{}/held-memory", loader),
                what: format!("loading {} bytes held {} bytes of heap at one time over many requests (bound for memory held: 4 x (input + 65536) = {})", len, live, bound),
                implementation: impl_s,
                expected: "memory in proportion to the input".into(),
            })
        } else if verdict != "ok" {
            Some(Finding {
                kind: Kind::ModelMismatch,
                key: format!("C15/{}/judge:{}", loader, verdict),
                what: format!("spec verdict {}", verdict),
                implementation: impl_s,
                expected: "ok".into(),
            })
        } else if obs.class != model_class && req.is_some() {
            Some(Finding {
                kind: Kind::ModelMismatch,
                key: format!("C15/{}/class:{}-vs-model:{}", loader, obs.class, model_class),
                what: format!("real outcome class {} ({}) but the Lean model predicts {} ({})", obs.class, obs.detail, model_class, pred.detail),
                implementation: impl_s,
                expected: format!("{} {}", model_class, pred.detail),
            })
        } else {
            self.compare_values(c, &obs, &pred)
        };
        Eval { obs, pred, finding }
    }

    /// tape operations: results and values must agree one by one
    fn compare_values(&mut self, c: &Case, obs: &Obs, pred: &Pred) -> Option<Finding> {
        let loader = inner_loader(c);
        let mism = |i: usize, r: &str, m: &str| Finding {
            kind: Kind::ModelMismatch,
            key: format!("C15/{}/op-result", loader),
            what: format!("tape operation #{}: real {} but the Lean model says {}", i, r, m),
            implementation: r.into(),
            expected: m.into(),
        };
        if loader == "tapc" {
            let real: Vec<&str> = obs.extra.strip_prefix("ops=").unwrap_or("").split(',').collect();
            for (i, (r, m)) in real.iter().zip(pred.ops.iter()).enumerate() {
                let rc = r.split(':').next().unwrap_or("");
                let same = if rc == "err" { m.starts_with("err") } else { *r == m.as_str() };
                if !same {
                    return Some(mism(i, r, m));
                }
            }
            if real.len() != pred.ops.len() {
                return Some(mism(real.len().min(pred.ops.len()), "count", "count"));
            }
        } else if loader == "tap" && obs.extra.starts_with("fl=") && obs.extra != "fl=-" {
            let real: Vec<&str> = obs.extra[3..].split(',').collect();
            for (i, (r, m)) in real.iter().zip(pred.ops.iter()).enumerate() {
                // real ok:<de>:<ix>   model ok:<de>:<ix>:<flags|->
                let same = if r.starts_with("ok") {
                    let rp: Vec<&str> = r.split(':').collect();
                    let mp: Vec<&str> = m.split(':').collect();
                    mp.len() >= 3 && rp.len() >= 3 && rp[0] == mp[0] && rp[1] == mp[1] && rp[2] == mp[2]
                } else {
                    r.split(':').next() == m.split(':').next()
                };
                if !same {
                    return Some(mism(i, r, m));
                }
            }
        }
        None
    }
}

// ------------------------------------------------------------------------------------------------
// file builders

fn adler32_fill(n: usize, b: u8) -> u32 {
    let (mut a, mut s) = (1u32, 0u32);
    for _ in 0..n {
        a = (a + b as u32) % 65521;
        s = (s + a) % 65521;
    }
    (s << 16) | a
}

/// zlib stream of `n` bytes of value `b` made of stored (uncompressed) deflate blocks
fn zlib_stored(n: usize, b: u8) -> Vec<Seg> {
    let mut v = vec![Seg::H(vec![0x78, 0x01])];
    let mut left = n;
    loop {
        let k = left.min(65535);
        let last = left == k;
        v.push(Seg::H(vec![
            if last { 1 } else { 0 },
            (k & 0xFF) as u8,
            (k >> 8) as u8,
            (!k & 0xFF) as u8,
            ((!k >> 8) & 0xFF) as u8,
        ]));
        if k > 0 {
            v.push(Seg::Z(k, b));
        }
        left -= k;
        if last {
            break;
        }
    }
    v.push(Seg::H(adler32_fill(n, b).to_be_bytes().to_vec()));
    v
}

/// zlib stream of one 16 KiB page of zeros in 115 bytes: a literal and 64 matches at distance 1 (fixed Huffman codes)
fn zlib_zero_page() -> Vec<u8> {
    let mut out = vec![0x78u8, 0x01];
    let mut acc: u64 = 0;
    let mut nb = 0u32;
    // deflate packs header/extra bits LSB first, Huffman codes MSB first
    let mut put = |out: &mut Vec<u8>, v: u32, n: u32, msb_first: bool| {
        for i in 0..n {
            let bit = if msb_first { (v >> (n - 1 - i)) & 1 } else { (v >> i) & 1 };
            acc |= (bit as u64) << nb;
            nb += 1;
            if nb == 8 {
                out.push(acc as u8);
                acc = 0;
                nb = 0;
            }
        }
    };
    put(&mut out, 1, 1, false); // BFINAL
    put(&mut out, 1, 2, false); // fixed codes
    put(&mut out, 0x30, 8, true); // literal 0
    for _ in 0..63 {
        put(&mut out, 0xC5, 8, true); // length 258 (code 285)
        put(&mut out, 0, 5, true); // distance 1
    }
    put(&mut out, 0xC0, 8, true); // code 280: lengths 115..130, four extra bits
    put(&mut out, 129 - 115, 4, false);
    put(&mut out, 0, 5, true);
    put(&mut out, 0, 7, true); // end of block
    put(&mut out, 0, 7, false); // pad to a byte boundary
    out.extend_from_slice(&adler32_fill(16384, 0).to_be_bytes());
    out
}

/// A well-formed SZX made of `n` compressed RAMP chunks for one page: every length field is honest, what a loader
/// may hold is still bounded by the file, not by the number of pages it has seen.
fn szx_many_pages(m128: bool, n: usize) -> Case {
    let z = zlib_zero_page();
    let mut b = SzxB::new(if m128 { 2 } else { 1 });
    for k in 0..n {
        b.inflate.push(format!("{:x}:{:x}", b.data_off() + 3, 16384));
        let page = if m128 { (k % 8) as u8 } else { [0u8, 2, 5][k % 3] };
        let mut d = vec![1u8, 0, page];
        d.extend_from_slice(&z);
        b.chunk(b"RAMP", d.len() as u32, vec![Seg::H(d)]);
    }
    b.finish(Case::new("szx").machine(m128, false, 0))
}

/// merges adjacent literal segments (keeps one chunk = few segments for the shrinker)
fn merge(segs: Vec<Seg>) -> Vec<Seg> {
    let mut out: Vec<Seg> = vec![];
    for s in segs {
        match (out.last_mut(), s) {
            (Some(Seg::H(a)), Seg::H(b)) => a.extend_from_slice(&b),
            (_, Seg::Z(0, _)) => {}
            (_, s) => out.push(s),
        }
    }
    out
}

struct SzxB {
    segs: Vec<Seg>,
    inflate: Vec<String>,
    off: usize,
}

impl SzxB {
    fn new(mid: u8) -> SzxB {
        SzxB { segs: vec![Seg::H(vec![b'Z', b'X', b'S', b'T', 1, 4, mid, 0])], inflate: vec![], off: 8 }
    }
    /// one chunk: id, declared size, data actually present; every chunk starts a new segment
    fn chunk(&mut self, id: &[u8; 4], size: u32, data: Vec<Seg>) {
        let mut h = id.to_vec();
        h.extend_from_slice(&size.to_le_bytes());
        let mut all = vec![Seg::H(h)];
        all.extend(data);
        let all = merge(all);
        self.off += segs_len(&all);
        self.segs.extend(all);
    }
    fn data_off(&self) -> usize {
        self.off + 8
    }
    fn finish(self, mut c: Case) -> Case {
        c.segs = self.segs;
        c.extra = if self.inflate.is_empty() { "-".into() } else { self.inflate.join(",") };
        c
    }
}

fn sna_segs(hdr: &[u8], len: usize, ext: [u8; 4], fill: u8) -> Vec<Seg> {
    let mut v = vec![];
    let h = &hdr[..hdr.len().min(len)];
    v.push(Seg::H(h.to_vec()));
    let mut at = h.len();
    if len > at {
        let k = (len - at).min(49179 - at.min(49179));
        if k > 0 {
            v.push(Seg::Z(k, fill));
            at += k;
        }
    }
    if len > at {
        let k = (len - at).min(4);
        v.push(Seg::H(ext[..k].to_vec()));
        at += k;
    }
    if len > at {
        v.push(Seg::Z(len - at, fill));
    }
    v
}

fn vtx_header(magic: &[u8; 2], stereo: u8, pf: u8, claim: u32) -> Vec<u8> {
    let mut h = magic.to_vec();
    h.push(stereo);
    h.extend_from_slice(&0u16.to_le_bytes());
    h.extend_from_slice(&1773400u32.to_le_bytes());
    h.push(pf);
    h.extend_from_slice(&1999u16.to_le_bytes());
    h.extend_from_slice(&claim.to_le_bytes());
    h
}

fn szx_one(mid: u8, id: &[u8; 4], size: u32, data: Vec<Seg>) -> SzxB {
    let mut b = SzxB::new(mid);
    b.chunk(id, size, data);
    b
}

/// minimal failing input per site (used to find out which repairs the tree under test contains,
/// and as the regression corpus that is run first)
fn witnesses() -> Vec<(&'static str, Case)> {
    let mut w = vec![];
    let mut hdr = [0u8; 27];
    hdr[25] = 3;
    let mut c = Case::new("sna");
    c.segs = sna_segs(&hdr, 49179, [0; 4], 0);
    w.push(("snaIm", c));
    let mut c = Case::new("sna");
    c.segs = sna_segs(&[0u8; 27], 49183, [0; 4], 0);
    w.push(("snaPage", c));
    let szx = |b: SzxB, m128: bool, ay: bool| {
        let mut c = Case::new("szx").machine(m128, false, 0);
        c.ay = ay;
        b.finish(c)
    };
    w.push(("szxIdUtf8", szx(szx_one(1, &[0xFF, 0xFF, 0xFF, 0xFF], 0, vec![]), false, false)));
    w.push(("szxAlloc", szx(szx_one(1, b"ABCD", 0x0800_0000, vec![]), false, false)));
    w.push(("szxCrtrShort", szx(szx_one(1, b"CRTR", 5, vec![Seg::Z(5, 0x41)]), false, false)));
    w.push(("szxCrtrUtf8", szx(szx_one(1, b"CRTR", 37, vec![Seg::H(vec![0xFF]), Seg::Z(36, 0x41)]), false, false)));
    w.push(("szxZ80rShort", szx(szx_one(1, b"Z80R", 10, vec![Seg::Z(10, 0)]), false, false)));
    w.push(("szxZ80rIm", szx(szx_one(1, b"Z80R", 37, vec![Seg::Z(28, 0), Seg::H(vec![3]), Seg::Z(8, 0)]), false, false)));
    w.push(("szxSpcrShort", szx(szx_one(1, b"SPCR", 2, vec![Seg::Z(2, 0)]), false, false)));
    w.push(("szxSpcrBorder", szx(szx_one(1, b"SPCR", 8, vec![Seg::H(vec![8]), Seg::Z(7, 0)]), false, false)));
    w.push(("szxAyShort", szx(szx_one(2, b"AY\0\0", 5, vec![Seg::Z(5, 0)]), true, true)));
    w.push(("szxKeybShort", szx(szx_one(1, b"KEYB", 2, vec![Seg::Z(2, 0)]), false, false)));
    w.push(("szxAmxmShort", szx(szx_one(1, b"AMXM", 0, vec![]), false, false)));
    w.push(("szxRampShort", szx(szx_one(1, b"RAMP", 1, vec![Seg::Z(1, 0)]), false, false)));
    w.push(("szxRampPage", szx(szx_one(1, b"RAMP", 16387, vec![Seg::H(vec![0, 0, 9]), Seg::Z(16384, 0)]), false, false)));
    w.push(("szxRampData", szx(szx_one(1, b"RAMP", 10, vec![Seg::H(vec![0, 0, 5]), Seg::Z(7, 0)]), false, false)));
    {
        let z = zlib_stored(100, 0x55);
        let zl = segs_len(&z);
        let mut b = SzxB::new(1);
        b.inflate.push(format!("{:x}:{:x}", b.data_off() + 3, 100));
        let mut d = vec![Seg::H(vec![1, 0, 5])];
        d.extend(z);
        b.chunk(b"RAMP", (3 + zl) as u32, d);
        w.push(("szxRampInflated", szx(b, false, false)));
    }
    {
        // not a load failure but what a load leaves behind: the frame clock (dwCyclesStart) moved back
        // behind the position the screen renderer has already processed
        let z80r = |cycles: u32| {
            let mut d = vec![0u8; 37];
            d[28] = 1;
            d[29..33].copy_from_slice(&cycles.to_le_bytes());
            Seg::H(d)
        };
        let mut b = SzxB::new(1);
        b.chunk(b"Z80R", 37, vec![z80r(14400)]);
        b.chunk(b"SPCR", 8, vec![Seg::Z(8, 0)]);
        b.chunk(b"Z80R", 37, vec![z80r(14350)]);
        w.push(("post-frames", szx(b, false, false)));
    }
    let vtx = |segs: Vec<Seg>, sc: Script| {
        let mut c = Case::new("vtx");
        c.sc = sc;
        c.segs = merge(segs);
        c
    };
    let std_reader = Script { eof_zero: true, ..Default::default() };
    w.push(("vtxSpin", vtx(vec![Seg::H(vtx_header(b"ay", 1, 50, 0)), Seg::H(b"abc".to_vec())], std_reader)));
    w.push((
        "vtxScan",
        vtx(
            vec![Seg::H(vtx_header(b"ay", 1, 50, 0)), Seg::Z(15, b'a'), Seg::Z(4, b'b'), Seg::H(vec![0])],
            Script { chunk: 3, eof_zero: true, ..Default::default() },
        ),
    ));
    w.push(("vtxAlloc", vtx(vec![Seg::H(vtx_header(b"ay", 1, 50, 134217720)), Seg::Z(5, 0)], std_reader)));
    w.push(("vtxPlayerFreq", vtx(vec![Seg::H(vtx_header(b"ay", 1, 0, 0)), Seg::Z(5, 0)], std_reader)));
    w
}

// ------------------------------------------------------------------------------------------------
// generators

fn gen_script(r: &mut Rng, std_reader: bool) -> Script {
    let mut s = Script { eof_zero: if std_reader { !r.chance(1, 6) } else { r.chance(1, 3) }, ..Default::default() };
    match r.below(10) {
        0..=4 => {}
        5 | 6 => s.chunk = *r.pick(&[1usize, 2, 3, 7, 100, 255, 256, 257, 4096, 16383, 16384, 16385]),
        7 => s.fail_read = Some(r.below(14) as usize),
        8 => s.fail_seek = Some(r.below(9) as usize),
        _ => {
            s.chunk = *r.pick(&[1usize, 3, 128, 5000]);
            s.fail_read = Some(r.below(60) as usize);
        }
    }
    s
}

fn gen_machine(r: &mut Rng, c: Case) -> Case {
    let m128 = r.bool();
    let mut c = c.machine(m128, r.chance(1, 4), r.below(8) as u8);
    c.ay = r.chance(1, 3);
    c
}

const SNA_LENS: [usize; 22] = [
    0, 1, 26, 27, 28, 49178, 49179, 49180, 49182, 49183, 49184, 65563, 131102, 131103, 131104, 147486, 147487,
    147488, 163840, 98331, 49179, 131103,
];

fn gen_sna(r: &mut Rng) -> Case {
    let mut hdr = r.bytes(27);
    hdr[25] = match r.below(8) {
        0 => 3,
        1 => 0xFF,
        2 => 7,
        3 => r.u8(),
        _ => r.below(3) as u8,
    };
    let len = if r.chance(1, 8) { r.below(163_841) as usize } else { *r.pick(&SNA_LENS) };
    let ext = [r.u8(), r.u8(), if r.chance(1, 2) { r.below(8) as u8 } else { r.u8() }, 0];
    let mut c = gen_machine(r, Case::new("sna"));
    c.segs = sna_segs(&hdr, len, ext, r.u8());
    c.sc = gen_script(r, false);
    c
}

const IDS: [&[u8; 4]; 7] = [b"CRTR", b"Z80R", b"SPCR", b"AY\0\0", b"KEYB", b"AMXM", b"RAMP"];
const MIN_LEN: [usize; 7] = [37, 37, 8, 18, 5, 7, 16387];

fn gen_szx_chunk(r: &mut Rng, b: &mut SzxB) {
    let k = r.below(9) as usize;
    if k >= 7 {
        // unknown or malformed id
        let id: [u8; 4] = if r.chance(1, 3) {
            [r.u8(), r.u8(), r.u8(), r.u8()]
        } else if r.chance(1, 2) {
            [0xC3, 0xA9, b'x', b'y']
        } else {
            *b"JOY\0"
        };
        let n = r.below(40) as usize;
        b.chunk(&id, n as u32, vec![Seg::H(r.bytes(n))]);
        return;
    }
    let mut id = *IDS[k];
    if r.chance(1, 6) {
        for ch in id.iter_mut() {
            if r.bool() {
                *ch = ch.to_ascii_lowercase();
            }
        }
    }
    let min = MIN_LEN[k];
    // RAMP: page, flags, payload
    if k == 6 {
        let page = match r.below(8) {
            0 => 8,
            1 => 9,
            2 => 255,
            3 => 3,
            _ => r.below(8) as u8,
        };
        match r.below(10) {
            0..=3 => {
                let n = *r.pick(&[16384usize, 16384, 16384, 16385, 16383, 20000, 0, 1]);
                b.chunk(&id, (3 + n) as u32, vec![Seg::H(vec![0, 0, page]), Seg::Z(n, r.u8())]);
            }
            4..=7 => {
                let n = *r.pick(&[16384usize, 16384, 16384, 16383, 16385, 0, 100, 65535, 65536, 70000]);
                let mut z = zlib_stored(n, r.u8());
                let res = if r.chance(1, 6) {
                    // corrupt: break the header or the checksum, or cut the stream
                    match r.below(3) {
                        0 => z[0] = Seg::H(vec![0x00, 0x00]),
                        1 => {
                            let l = z.len() - 1;
                            z[l] = Seg::H(vec![1, 2, 3, 4]);
                        }
                        _ => {
                            z.pop();
                            z.pop();
                        }
                    }
                    "x".to_string()
                } else if n > 65535 {
                    "x".to_string()
                } else {
                    format!("{:x}", n)
                };
                let zl = segs_len(&z);
                b.inflate.push(format!("{:x}:{}", b.data_off() + 3, res));
                let mut d = vec![Seg::H(vec![1, 0, page])];
                d.extend(z);
                b.chunk(&id, (3 + zl) as u32, d);
            }
            _ => {
                let n = r.below(3) as usize;
                b.chunk(&id, n as u32, vec![Seg::H(r.bytes(n))]);
            }
        }
        return;
    }
    let mode = r.below(12);
    let n = match mode {
        0 => min - 1,
        1 => r.below(min as u64) as usize,
        2 => 0,
        3 => min + 1 + r.below(20) as usize,
        _ => min,
    };
    let mut d = r.bytes(n);
    // keep the value fields valid unless this chunk is meant to break them
    let break_field = mode == 4;
    match k {
        0 => {
            for x in d.iter_mut().take(33) {
                *x = 0x20 + (*x % 0x5F);
            }
            if break_field && n > 0 {
                d[r.below(n.min(33) as u64) as usize] = 0xFF;
            }
        }
        1 => {
            if n > 28 {
                d[28] = if break_field { 3 + r.below(253) as u8 } else { r.below(3) as u8 };
            }
            if n > 32 && !r.chance(1, 10) {
                // dwCyclesStart inside a frame most of the time
                let t = (r.below(69888) as u32).to_le_bytes();
                d[29..33].copy_from_slice(&t);
            }
        }
        2 => {
            if n > 0 {
                d[0] = if break_field { 8 + r.below(248) as u8 } else { r.below(8) as u8 };
            }
        }
        _ => {}
    }
    // the declared size may lie
    let size = match r.below(40) {
        0 => 0xFFFF_FFFF,
        1 => 0x7FFF_FFFF,
        2 => n as u32 + 1,
        3 => 0x0010_0000,
        4 => (n as u32).saturating_sub(1),
        _ => n as u32,
    };
    b.chunk(&id, size, vec![Seg::H(d)]);
}

fn gen_szx(r: &mut Rng) -> Case {
    let mid = match r.below(10) {
        0 => 0,
        1..=4 => 1,
        5..=8 => 2,
        _ => *r.pick(&[3u8, 7, 255]),
    };
    let mut b = SzxB::new(mid);
    if r.chance(1, 40) {
        b.segs = vec![Seg::H(b"ZXSX\x01\x04\x01\x00".to_vec())];
    }
    if r.chance(1, 40) {
        let k = r.below(8) as usize;
        b.segs = vec![Seg::H(b"ZXST\x01\x04\x01\x00"[..k].to_vec())];
        b.off = k;
    }
    // the frame clock set several times in one file, with emulated time passing in between (the OUT to 0xFE
    // of an SPCR chunk): well-formed Z80R/SPCR pairs whose clocks jump around inside the picture lines,
    // often backwards within one scanline
    if r.chance(1, 5) {
        let line = r.below(192) as u32;
        let mut col = 20 + r.below(100) as u32;
        for _ in 0..r.range(2, 4) {
            let mut z = r.bytes(37);
            z[28] = r.below(3) as u8;
            let t = match r.below(4) {
                0 => r.below(69888) as u32,
                _ => 14336 + line * 224 + col,
            };
            z[29..33].copy_from_slice(&t.to_le_bytes());
            b.chunk(b"Z80R", 37, vec![Seg::H(z)]);
            let mut sp = r.bytes(8);
            sp[0] = r.below(8) as u8;
            b.chunk(b"SPCR", 8, vec![Seg::H(sp)]);
            col = if r.chance(2, 3) { r.below(col.max(1) as u64) as u32 } else { col + r.below(20) as u32 };
        }
    }
    let n = r.below(7);
    for _ in 0..n {
        gen_szx_chunk(r, &mut b);
    }
    if r.chance(1, 10) {
        let k = r.below(8) as usize;
        b.segs.push(Seg::H(r.bytes(k)));
    }
    let mut c = gen_machine(r, Case::new("szx"));
    c.sc = if r.chance(1, 2) { Script { eof_zero: r.bool(), ..Default::default() } } else { gen_script(r, false) };
    b.finish(c)
}

fn gen_scr(r: &mut Rng) -> Case {
    let len = *r.pick(&[6912usize, 6912, 6912, 6911, 6913, 0, 1, 27, 49179, 13824]);
    let mut c = gen_machine(r, Case::new("scr"));
    c.segs = merge(vec![Seg::Z(len, r.u8())]);
    c.sc = gen_script(r, false);
    c
}

fn gen_rom(r: &mut Rng) -> Case {
    let mut c = gen_machine(r, Case::new("rom"));
    let n = r.below(4);
    let page = |r: &mut Rng| {
        let len = *r.pick(&[16384usize, 16384, 16384, 16383, 16385, 0, 100, 32768]);
        merge(vec![Seg::Z(len, r.u8())])
    };
    if n == 0 {
        c.extra = "none".into();
    } else {
        c.segs = page(r);
        let rest: Vec<String> = (1..n).map(|_| segs_text(&page(r))).collect();
        if !rest.is_empty() {
            c.extra = rest.join("|");
        }
    }
    c.sc = gen_script(r, false);
    c
}

fn gen_tap_file(r: &mut Rng) -> Vec<Seg> {
    let mut v = vec![];
    let n = r.below(5);
    for _ in 0..n {
        let size = match r.below(12) {
            0 => 0,
            1 => 1,
            2 => 2,
            3 => 19,
            4 => *r.pick(&[127usize, 128, 129, 255, 256, 257, 383, 384, 385]),
            5 => 300 + r.below(1500) as usize,
            6 if r.chance(1, 6) => 65535,
            _ => 2 + r.below(40) as usize,
        };
        let declared = if r.chance(1, 12) { size + 1 + r.below(300) as usize } else { size };
        let mut h = (declared.min(65535) as u16).to_le_bytes().to_vec();
        if size <= 64 {
            let mut d = r.bytes(size);
            if size > 0 && r.chance(1, 2) {
                d[0] = if r.bool() { 0 } else { 0xFF };
            }
            h.extend(d);
            v.push(Seg::H(h));
        } else {
            h.push(if r.bool() { 0 } else { 0xFF });
            v.push(Seg::H(h));
            v.push(Seg::Z(size - 1, r.u8()));
        }
    }
    if r.chance(1, 8) {
        v.push(Seg::H(r.bytes(1)));
    }
    merge(v)
}

fn gen_fl(r: &mut Rng) -> String {
    let f = *r.pick(&[0x01u8, 0x00, 0x41, 0x40, 0xFF]);
    let a = *r.pick(&[0x00u8, 0xFF, 0x55]);
    let de = *r.pick(&[0u16, 1, 2, 17, 18, 19, 126, 127, 128, 129, 255, 256, 300, 0xFFFF]);
    // VERIFY (carry clear) compares with memory: keep it on the (all-zero, never written) ROM so that
    // earlier LOAD requests of the same case cannot change what it sees
    let ix = if f & 1 == 0 { *r.pick(&[0x0000u16, 0x1000, 0x3F00]) } else { *r.pick(&[0x4000u16, 0x8000, 0xFFF0, 0x0000]) };
    format!("f{:x}:{:x}:{:x}:{:x}", f, a, de, ix)
}

fn gen_tap(r: &mut Rng) -> Case {
    let mut c = gen_machine(r, Case::new("tap"));
    c.m128 = false;
    c.locked = true;
    c.bank = 2;
    c.segs = gen_tap_file(r);
    let n = r.below(4);
    let fl: Vec<String> = (0..n).map(|_| gen_fl(r)).collect();
    if !fl.is_empty() {
        c.extra = fl.join(";");
    }
    c.sc = gen_script(r, false);
    c
}

fn gen_tapc(r: &mut Rng) -> Case {
    let mut c = Case::new("tapc");
    c.segs = gen_tap_file(r);
    c.sc = gen_script(r, false);
    let n = 1 + r.below(30);
    let mut ops = vec![];
    for _ in 0..n {
        ops.push(match r.below(16) {
            0 | 1 => "p".to_string(),
            2 => "s".to_string(),
            3 => "r".to_string(),
            4 | 5 => "b".to_string(),
            6..=8 => "y".to_string(),
            9 => format!("c{:x}", *r.pick(&[0usize, 1, 100, 2168, 3_500_000, 10_000_000])),
            10..=12 => format!("k{:x}:{:x}", *r.pick(&[2usize, 10, 200, 6460, 16140, 20000]), *r.pick(&[4000usize, 10_000_000])),
            _ => {
                let k = 1 + r.below(200);
                (0..k).map(|_| "y").collect::<Vec<_>>().join(";")
            }
        });
    }
    c.extra = ops.join(";");
    c
}

struct VtxParts {
    tails: Vec<(u32, Vec<u8>)>,
    files: Vec<Vec<u8>>,
}

fn load_vtx_parts(notes: &mut Vec<String>) -> VtxParts {
    let mut p = VtxParts { tails: vec![], files: vec![] };
    for name in ["csoon.vtx", "secret.vtx", "sil00.vtx", "spf21_00.vtx"] {
        let path = format!(".cache/repo/vtx/src/test/{}", name);
        match std::fs::read(&path) {
            Ok(d) if d.len() > 16 => {
                let claim = u32::from_le_bytes([d[12], d[13], d[14], d[15]]);
                let mut nul = 0;
                let mut i = 16;
                while i < d.len() && nul < 5 {
                    if d[i] == 0 {
                        nul += 1;
                    }
                    i += 1;
                }
                if nul == 5 {
                    p.tails.push((claim, d[i..].to_vec()));
                }
                p.files.push(d);
            }
            _ => notes.push(format!("real asset {} not found; synthetic VTX files only", path)),
        }
    }
    p
}

fn gen_vtx(r: &mut Rng, parts: &VtxParts) -> Case {
    let mut c = Case::new("vtx");
    c.sc = gen_script(r, true);
    let magic: [u8; 2] = match r.below(12) {
        0 => [r.u8(), r.u8()],
        1..=4 => *b"ym",
        _ => *b"ay",
    };
    let stereo = if r.chance(1, 12) { 7 + r.below(249) as u8 } else { r.below(7) as u8 };
    let pf = match r.below(12) {
        0 => 0,
        1 => 255,
        2 => 1,
        _ => 50,
    };
    let tail = if !parts.tails.is_empty() && r.chance(2, 3) { Some(r.pick(&parts.tails).clone()) } else { None };
    let claim: u32 = match (r.below(16), &tail) {
        (0, _) => 0xFFFF_FFFA,
        (1, _) => 14 * (1 + r.below(20_000_000) as u32),
        (2, _) => 13 + r.below(1000) as u32,
        (3, _) => 0x7FFF_FFFE,
        (4, Some((cl, _))) => cl + 14,
        (5, Some((cl, _))) => cl.saturating_sub(14),
        (6, _) => 14,
        (_, Some((cl, _))) => *cl,
        _ => 0,
    };
    let mut segs = vec![Seg::H(vtx_header(&magic, stereo, pf, claim))];
    // strings block
    let nstr = match r.below(10) {
        0 => r.below(5) as usize,
        1 => 6,
        _ => 5,
    };
    for i in 0..nstr {
        let n = match r.below(14) {
            0 => 255,
            1 => 256,
            2 => 257,
            3 => 600,
            4 => *r.pick(&[250usize, 251, 252, 253, 254]),
            5 => 0,
            _ => r.below(24) as usize,
        };
        if n > 40 {
            segs.push(Seg::Z(n, b'a' + (i as u8)));
        } else {
            segs.push(Seg::H((0..n).map(|_| 0x20 + (r.u8() % 0x5F)).collect()));
        }
        segs.push(Seg::H(vec![0]));
    }
    if nstr < 5 && r.bool() {
        let n = r.below(300) as usize;
        segs.push(Seg::Z(n, b'x'));
    }
    if let Some((_, t)) = tail {
        let cut = if r.chance(1, 6) { r.below(t.len() as u64 + 1) as usize } else { t.len() };
        let mut t = t[..cut].to_vec();
        if r.chance(1, 10) && !t.is_empty() {
            let i = r.below(t.len() as u64) as usize;
            t[i] ^= 1 << r.below(8);
        }
        segs.push(Seg::H(t));
    } else if r.chance(1, 3) {
        let n = r.below(64) as usize;
        segs.push(Seg::H(r.bytes(n)));
    }
    if r.chance(1, 30) {
        let total = segs_len(&segs);
        let cut = r.below(total as u64 + 1) as usize;
        let b = segs_bytes(&segs);
        segs = vec![Seg::H(b[..cut].to_vec())];
    }
    c.segs = merge(segs);
    c
}

/// unstructured input for every loader
fn gen_random(r: &mut Rng) -> Case {
    let loader = *r.pick(&["sna", "szx", "scr", "tap", "tapc", "vtx", "rom"]);
    let mut c = gen_machine(r, Case::new(loader));
    let n = match r.below(6) {
        0 => 0,
        1 => r.below(16) as usize,
        2 => r.below(4096) as usize,
        _ => r.below(300) as usize,
    };
    let mut d = r.bytes(n);
    if r.chance(1, 2) {
        let pre: &[u8] = match loader {
            "szx" => b"ZXST\x01\x04\x01\x00",
            "vtx" => b"ay\x01",
            _ => b"",
        };
        for (i, x) in pre.iter().enumerate() {
            if i < d.len() {
                d[i] = *x;
            }
        }
    }
    c.segs = merge(vec![Seg::H(d)]);
    c.sc = gen_script(r, loader == "vtx");
    match loader {
        "tap" => {
            c.m128 = false;
            c.locked = true;
            c.bank = 2;
            c.extra = gen_fl(r);
        }
        "tapc" => c.extra = "p;k40:10000000;b;y;y;f".replace(";f", ";y"),
        _ => {}
    }
    c
}

/// gzip container (stored deflate block) around `data`
fn gzip_stored(data: &[u8]) -> Vec<u8> {
    let mut v = vec![0x1F, 0x8B, 8, 0, 0, 0, 0, 0, 0, 0xFF];
    let mut left = data;
    loop {
        let k = left.len().min(65535);
        let last = left.len() == k;
        v.push(if last { 1 } else { 0 });
        v.extend_from_slice(&(k as u16).to_le_bytes());
        v.extend_from_slice(&(!(k as u16)).to_le_bytes());
        v.extend_from_slice(&left[..k]);
        left = &left[k..];
        if last {
            break;
        }
    }
    let mut crc = 0xFFFF_FFFFu32;
    for b in data {
        crc ^= *b as u32;
        for _ in 0..8 {
            crc = if crc & 1 != 0 { (crc >> 1) ^ 0xEDB8_8320 } else { crc >> 1 };
        }
    }
    v.extend_from_slice(&(!crc).to_le_bytes());
    v.extend_from_slice(&(data.len() as u32).to_le_bytes());
    v
}

// ------------------------------------------------------------------------------------------------
// shrinking and recording

fn shrink(ctx: &mut Ctx, c: &Case, key: &str, budget: usize) -> Case {
    let mut cur = c.clone();
    let mut left = budget;
    let same = |ctx: &mut Ctx, cand: &Case, left: &mut usize| -> bool {
        if *left == 0 {
            return false;
        }
        *left -= 1;
        matches!(ctx.eval(cand).finding, Some(ref f) if f.key == key)
    };
    // plain script, default receiver
    for step in 0..6 {
        let mut cand = cur.clone();
        match step {
            0 => cand.sc = Script { eof_zero: cur.sc.eof_zero, ..Default::default() },
            1 => cand.sc.fail_seek = None,
            2 => cand.sc.fail_read = None,
            3 => cand.ay = false,
            4 => cand = cand.machine(false, true, 2),
            // (the fast-load trap of the 128K machine needs ROM 1 paged in: tape cases stay on the 48K)
            _ if !cur.loader.contains("tap") => cand = cand.machine(true, false, 0),
            _ => {}
        }
        if cand != cur && same(ctx, &cand, &mut left) {
            cur = cand;
        }
    }
    // tape operations: drop from the end, then single ones
    if cur.loader == "tapc" || cur.loader == "tap" {
        let mut ops: Vec<String> = cur.extra.split(';').map(|s| s.to_string()).collect();
        let mut i = ops.len();
        while i > 0 && ops.len() > 1 {
            i -= 1;
            let mut o2 = ops.clone();
            o2.remove(i);
            let mut cand = cur.clone();
            cand.extra = o2.join(";");
            if same(ctx, &cand, &mut left) {
                ops = o2;
                cur = cand;
            }
        }
    }
    // drop whole segments (for SZX a segment group is a chunk), last first
    let mut changed = true;
    while changed && left > 0 {
        changed = false;
        let mut i = cur.segs.len();
        while i > 0 {
            i -= 1;
            if cur.segs.len() <= 1 {
                break;
            }
            let mut cand = cur.clone();
            cand.segs.remove(i);
            if same(ctx, &cand, &mut left) {
                cur = cand;
                changed = true;
            }
        }
    }
    // shorten / blank what is left: shortest prefix of every segment that still fails the same way
    for i in 0..cur.segs.len() {
        let full = match &cur.segs[i] {
            Seg::H(b) => b.len(),
            Seg::Z(n, _) => *n,
        };
        let (mut lo, mut hi) = (1usize, full);
        while lo < hi && left > 0 {
            let mid = (lo + hi) / 2;
            let mut cand = cur.clone();
            cand.segs[i] = match &cur.segs[i] {
                Seg::H(b) => Seg::H(b[..mid].to_vec()),
                Seg::Z(_, v) => Seg::Z(mid, *v),
            };
            if same(ctx, &cand, &mut left) {
                hi = mid;
                cur = cand;
            } else {
                lo = mid + 1;
            }
        }
        if let Seg::H(b) = &cur.segs[i] {
            if b.iter().any(|x| *x != 0) && b.len() > 8 {
                let mut cand = cur.clone();
                let mut z = b.clone();
                for x in z.iter_mut().skip(8) {
                    *x = 0;
                }
                cand.segs[i] = Seg::H(z);
                if same(ctx, &cand, &mut left) {
                    cur = cand;
                }
            }
        }
    }
    cur
}

fn record(ctx: &mut Ctx, rep: &mut Report, c: &Case, ev: &Eval) {
    let f = match &ev.finding {
        Some(f) => f.clone(),
        None => return,
    };
    rep.count("findings_by_key", f.key.clone());
    if rep.has_key(&f.key) {
        rep.count("repeat_violations", f.key.clone());
        return;
    }
    let budget = if ev.obs.class == "hang" { 10 } else { 80 };
    let small = shrink(ctx, c, &f.key, budget);
    let ev2 = ctx.eval(&small);
    let f2 = match ev2.finding {
        Some(ref g) if g.key == f.key => g.clone(),
        _ => f.clone(),
    };
    let text = if matches!(ev2.finding, Some(ref g) if g.key == f.key) { small.text() } else { c.text() };
    rep.violation(Violation {
        kind: f2.kind,
        key: f2.key.clone(),
        what: f2.what.clone(),
        correspondence: "corr.C15.outcome-class (Model.Loaders vs the load entry points of rustzx-core / vtx)".into(),
        case: J::obj(vec![("text", J::s(text))]),
        implementation: f2.implementation.clone(),
        expected: f2.expected.clone(),
    });
}

fn observe(rep: &mut Report, c: &Case, ev: &Eval) {
    rep.eval();
    let loader = c.loader.as_str();
    rep.count("loader", loader);
    rep.count("script", c.sc.class());
    rep.count("outcome", format!("{}:{}", inner_loader(c), ev.obs.class));
    if ev.obs.class == "err" {
        rep.count("error_kind", format!("{}:{}", inner_loader(c), ev.obs.detail));
        if ev.pred.class == "err" && ev.pred.detail != ev.obs.detail {
            rep.count("error_kind_differs_from_model", format!("{}: real {} model {}", inner_loader(c), ev.obs.detail, ev.pred.detail));
        }
    }
    if ev.obs.post != "ok" {
        rep.count("frames_after_load", ev.obs.post.split(':').next().unwrap_or("").to_string());
    }
    let detail = if ev.obs.class == "panic" || ev.obs.class == "hang" { ev.pred.detail.clone() } else { ev.obs.detail.clone() };
    rep.class(format!(
        "{} {} {} -> {} {}",
        loader,
        if c.m128 { "128k" } else { "48k" },
        c.sc.class(),
        ev.obs.class,
        detail
    ));
}

fn run_case(ctx: &mut Ctx, rep: &mut Report, c: &Case) {
    let ev = ctx.eval(c);
    fold_case(ctx, rep, c, ev);
}

fn fold_case(ctx: &mut Ctx, rep: &mut Report, c: &Case, ev: Eval) {
    observe(rep, c, &ev);
    if rep.samples.len() < 3 && ev.finding.is_none() && c.len() < 400 {
        rep.sample(J::obj(vec![
            ("case", J::s(c.text())),
            ("real", J::s(format!("{} {} alloc={} post={}", ev.obs.class, ev.obs.detail, ev.obs.alloc, ev.obs.post))),
            ("model", J::s(format!("{} {} alloc={} steps={}", ev.pred.class, ev.pred.detail, ev.pred.alloc, ev.pred.steps))),
        ]));
    }
    record(ctx, rep, c, &ev);
}

fn new_ctx(o: &Opts, fix: u32) -> Ctx {
    Ctx {
        worker: Worker::new(),
        model: Model::spawn(&o.model, "C15"),
        fix,
        timeout: Duration::from_millis(4000),
        vtx_timeout: Duration::from_millis(if o.thorough() { 1500 } else { 400 }),
    }
}

/// Evaluates all queued cases on a pool of (worker process, model process) pairs in parallel, then
/// folds the results into the report in queue order (so the run is deterministic for a seed).
fn run_all(ctx: &mut Ctx, rep: &mut Report, o: &Opts, q: Vec<Case>) {
    let threads = std::thread::available_parallelism().map(|n| n.get()).unwrap_or(4).clamp(2, 12);
    let fix = ctx.fix;
    let mut results: Vec<Option<Eval>> = (0..q.len()).map(|_| None).collect();
    let mut started = 0u64;
    let mut killed = 0u64;
    let mut requests = 0u64;
    std::thread::scope(|sc| {
        let mut handles = vec![];
        for t in 0..threads {
            let qref = &q;
            handles.push(sc.spawn(move || {
                let mut cx = new_ctx(o, fix);
                let mut out = vec![];
                let mut i = t;
                while i < qref.len() && HANGS.load(Ordering::Relaxed) <= HANGS_GIVE_UP {
                    out.push((i, cx.eval(&qref[i])));
                    i += threads;
                }
                (out, cx.worker.spawned, cx.worker.killed, cx.model.requests)
            }));
        }
        for h in handles {
            let (out, s, k, r) = h.join().expect("evaluation thread died");
            started += s;
            killed += k;
            requests += r;
            for (i, e) in out {
                results[i] = Some(e);
            }
        }
    });
    let mut skipped = 0u64;
    for (c, ev) in q.iter().zip(results.into_iter()) {
        match ev {
            Some(ev) => fold_case(ctx, rep, c, ev),
            None => skipped += 1,
        }
    }
    if skipped > 0 {
        rep.notes.push(format!(
            "{} cases were not run: the watchdog had already killed more than {} hanging workers",
            skipped, HANGS_GIVE_UP
        ));
        rep.count("skipped", "after too many hangs");
    }
    rep.extra.push(("parallel_workers".into(), J::I(threads as i64)));
    rep.extra.push(("worker_processes_started".into(), J::I((started + ctx.worker.spawned) as i64)));
    rep.extra.push(("workers_killed_by_watchdog".into(), J::I((killed + ctx.worker.killed) as i64)));
    rep.extra.push(("model_requests".into(), J::I((requests + ctx.model.requests) as i64)));
}

/// every position of an injected failure / several short-read sizes over one file
fn fault_sweep(q: &mut Vec<Case>, base: &Case, reads: usize, seeks: usize, std_reader: bool) {
    for eof_zero in [false, true] {
        if std_reader && !eof_zero {
            continue;
        }
        for i in 0..reads {
            let mut c = base.clone();
            c.sc = Script { fail_read: Some(i), eof_zero, ..Default::default() };
            q.push(c);
        }
        for i in 0..seeks {
            let mut c = base.clone();
            c.sc = Script { fail_seek: Some(i), eof_zero, ..Default::default() };
            q.push(c);
        }
        for chunk in [1usize, 2, 3, 5, 8, 13, 100, 255, 256, 257, 16384] {
            let mut c = base.clone();
            c.sc = Script { chunk, eof_zero, ..Default::default() };
            q.push(c);
            let mut c = base.clone();
            c.sc = Script { chunk, fail_read: Some(reads + chunk % 7), eof_zero, ..Default::default() };
            q.push(c);
        }
    }
}

fn read_gz(path: &str) -> Option<Vec<u8>> {
    let raw = std::fs::read(path).ok()?;
    catch_unwind(|| rustzx_utils::io::GzipAsset::new(&raw[..]).ok().map(|a| a.into_vec())).ok().flatten()
}

pub fn run(o: &Opts) -> Report {
    if o.replay.as_deref() == Some("@worker") {
        worker_main();
    }
    let mut rep = Report::new("C15");
    rep.rule = "every case = (loader, receiving machine incl. paging lock/bank/AY, fault script of the asset, bytes) runs \
on the real entry point inside a worker process (catch_unwind; watchdog = the parent kills a silent worker; counting global \
allocator, requests > 1 GiB abort the worker) followed by further frames, and on the Lean model; compared: outcome class \
(ok/err/panic/hang/huge allocation), for tapes every operation result and value; the Lean spec judges class and largest \
request. Inputs: minimal witness per failure site, structure-aware SNA/SZX/SCR/ROM/TAP/VTX files (length and value fields at \
0/1/min-1/min/min+1/max, lying size fields, unknown/lower-case/non-UTF-8 ids, stored-deflate RAMP pages), real files of the \
repo and mutations of them, gzip-wrapped files, unstructured random bytes, and fault sweeps (a failing read/seek at every \
index, short reads of many sizes, EOF as Err or Ok(0)); distinct = (loader, machine, script class, outcome class, error \
kind or failure site)"
        .into();
    let mut ctx = new_ctx(o, 0);
    // which repairs does the tree under test contain? (one minimal witness per site)
    let wit = witnesses();
    let mut fixed_sites = vec![];
    for (site, c) in &wit {
        let t = ctx.timeout_for(c);
        let obs = ctx.worker.run(c, t);
        let fine = (obs.class == "ok" || obs.class == "err")
            && obs.alloc <= c.len() + 65536 + 2 * VTX_CHUNK
            && !obs.post.starts_with("panic");
        if fine {
            ctx.fix |= site_bit(site);
            if *site == "vtxScan" {
                ctx.fix |= site_bit("vtxStrings");
            }
            fixed_sites.push(site.to_string());
        }
    }
    {
        // behaviour switches (not failure sites): what the tree under test does where several
        // behaviours are acceptable. Each is read off one probe input.
        let mut probe = |name: &str, c: Case| {
            let t = ctx.timeout_for(&c);
            let o = ctx.worker.run(&c, t);
            if o.class == "err" {
                ctx.fix |= site_bit(name);
                fixed_sites.push(name.to_string());
            }
        };
        // is a 48K snapshot refused by the 128K machine as well?
        let mut c = Case::new("sna").machine(true, false, 0);
        c.segs = sna_segs(&[1u8; 27], 49179, [0; 4], 0);
        probe("snaRev", c);
        // restore_7ffd: a locked 128K receiver still takes the file's bank (2 => a sixth tail bank is
        // needed, the 131103-byte file ends one bank early)
        let mut c = Case::new("sna").machine(true, true, 0);
        c.segs = sna_segs(&[1u8; 27], 131103, [0, 0x80, 2, 0], 0);
        probe("snaRestore", c);
        // SZX for the other machine model refused?
        let b = SzxB::new(2);
        probe("szxMachine", b.finish(Case::new("szx")));
    }
    rep.extra.push(("repaired_sites_detected".into(), J::A(fixed_sites.iter().map(|s| J::s(s.clone())).collect())));
    rep.extra.push(("fix_mask".into(), J::s(format!("{:x}", ctx.fix))));

    if let Some(text) = &o.replay {
        match Case::parse(text) {
            Some(c) => {
                rep.sample(J::s(c.text()));
                run_case(&mut ctx, &mut rep, &c);
            }
            None => rep.notes.push("replay case could not be parsed".into()),
        }
        return rep;
    }

    let mut q: Vec<Case> = vec![];
    // 1. corpus: the witnesses themselves
    for (_, c) in &wit {
        q.push(c.clone());
    }
    // 1b. well-formed files whose cost lies in the number of chunks, not in any single length field
    for (m128, n) in [(false, 1200usize), (true, 1200), (false, 37), (true, 300)] {
        q.push(szx_many_pages(m128, n));
    }

    let mut notes = vec![];
    let parts = load_vtx_parts(&mut notes);
    let mut rng = Rng::new(o.seed ^ 0xC15);

    // 2. boundary sweep SNA: lengths x machines x IM
    for len in SNA_LENS.iter().take(20) {
        for m128 in [false, true] {
            for im in [0u8, 2, 3] {
                let mut hdr = [0u8; 27];
                hdr[25] = im;
                for bank in [0u8, 2, 5] {
                    let mut c = Case::new("sna").machine(m128, bank == 5, 1);
                    c.segs = sna_segs(&hdr, *len, [0, 0x80, bank, 0], 0xAA);
                    q.push(c);
                }
            }
        }
    }
    // 3. fault sweeps over valid files
    {
        let mut c = Case::new("sna");
        c.segs = sna_segs(&[1u8; 27], 49179, [0; 4], 1);
        fault_sweep(&mut q, &c, 6, 4, false);
        let mut c = Case::new("sna").machine(true, false, 0);
        c.segs = sna_segs(&[1u8; 27], 131103, [0, 0x80, 3, 0], 1);
        fault_sweep(&mut q, &c, 12, 7, false);
        let mut b = SzxB::new(2);
        b.chunk(b"CRTR", 37, vec![Seg::Z(37, 0x41)]);
        b.chunk(b"Z80R", 37, vec![Seg::Z(37, 0)]);
        b.chunk(b"SPCR", 8, vec![Seg::Z(8, 0)]);
        b.chunk(b"RAMP", 16387, vec![Seg::H(vec![0, 0, 5]), Seg::Z(16384, 7)]);
        b.chunk(b"KEYB", 5, vec![Seg::Z(5, 0)]);
        let c = b.finish(Case::new("szx").machine(true, false, 0));
        fault_sweep(&mut q, &c, 14, 14, false);
        let mut c = Case::new("scr");
        c.segs = vec![Seg::Z(6912, 0x38)];
        fault_sweep(&mut q, &c, 3, 3, false);
        let mut c = Case::new("rom").machine(true, false, 0);
        c.segs = vec![Seg::Z(16384, 0)];
        c.extra = "z4000x00".into();
        fault_sweep(&mut q, &c, 3, 1, false);
        let mut c = Case::new("tapc");
        c.segs = merge(vec![Seg::H(vec![19, 0, 0]), Seg::Z(18, 3), Seg::H(vec![0x2C, 0x01, 0xFF]), Seg::Z(299, 9)]);
        c.extra = "p;k3f10:989680;s;b;y;y;b;y;b;r;b".into();
        fault_sweep(&mut q, &c, 10, 3, false);
        let mut c = Case::new("tap");
        c.segs = merge(vec![Seg::H(vec![19, 0, 0]), Seg::Z(18, 3), Seg::H(vec![0x2C, 0x01, 0xFF]), Seg::Z(299, 9)]);
        c.extra = "f1:0:11:4000;f1:ff:12a:8000;f1:ff:1:8000".into();
        fault_sweep(&mut q, &c, 8, 2, false);
        if let Some(f) = parts.files.first() {
            let mut c = Case::new("vtx");
            c.segs = vec![Seg::H(f.clone())];
            fault_sweep(&mut q, &c, 16, 4, true);
        }
    }
    // 4. real files of the repository and mutations of them
    {
        let mut real: Vec<(String, Vec<u8>)> = vec![];
        for (l, p) in [
            ("sna", ".cache/repo/rustzx-core/src/emulator/snapshot/autoload/tape_48k.sna"),
            ("sna", ".cache/repo/rustzx-core/src/emulator/snapshot/autoload/tape_128k.sna"),
            ("szx", ".cache/repo/rustzx-test/test_data/nmi.szx"),
            ("scr", ".cache/repo/rustzx-test/test_data/src/rustzx.scr"),
        ] {
            match std::fs::read(p) {
                Ok(d) => real.push((l.into(), d)),
                Err(_) => notes.push(format!("real asset {} not found", p)),
            }
        }
        for (l, p) in [
            ("sna", ".cache/repo/rustzx-test/test_data/sound.128k.sna.gz"),
            ("sna", ".cache/repo/rustzx-test/test_data/keyboard.48k.sna.gz"),
            ("tap", ".cache/repo/rustzx-test/test_data/simple_tape.tap.gz"),
        ] {
            match read_gz(p) {
                Some(d) => real.push((l.into(), d)),
                None => notes.push(format!("real asset {} not found", p)),
            }
        }
        for f in &parts.files {
            real.push(("vtx".into(), f.clone()));
        }
        // the repository's gzip-compressed assets through the real GzipAsset, intact and damaged
        for (l, p) in [
            ("gz:sna", ".cache/repo/rustzx-test/test_data/sound.128k.sna.gz"),
            ("gz:sna", ".cache/repo/rustzx-test/test_data/mouse.48k.sna.gz"),
            ("gz:tap", ".cache/repo/rustzx-test/test_data/simple_tape.tap.gz"),
        ] {
            if let Ok(raw) = std::fs::read(p) {
                rep.count("real_files", l.to_string());
                for k in 0..o.n(5, 100) {
                    let mut d = raw.clone();
                    if k > 0 {
                        if rng.bool() {
                            let cut = rng.below(d.len() as u64) as usize;
                            d.truncate(cut);
                        } else {
                            let i = rng.below(d.len() as u64) as usize;
                            d[i] ^= 1 << rng.below(8);
                        }
                    }
                    let mut c = Case::new(l).machine(p.contains("128k"), false, 0);
                    if l == "gz:tap" {
                        c.extra = "f1:0:11:4000".into();
                    }
                    c.segs = vec![Seg::H(d)];
                    q.push(c);
                }
            }
        }
        let per = o.n(6, 200);
        for (l, d) in &real {
            rep.count("real_files", l.clone());
            for k in 0..=per {
                let mut data = d.clone();
                if k > 0 {
                    // mutate: a few bytes in the structural prefix, or cut / extend
                    match rng.below(4) {
                        0 => {
                            let cut = rng.below(data.len() as u64 + 1) as usize;
                            data.truncate(cut);
                        }
                        1 => {
                            let n = 1 + rng.below(64) as usize;
                            data.extend(rng.bytes(n));
                        }
                        _ => {
                            for _ in 0..1 + rng.below(3) {
                                let span = data.len().min(if rng.bool() { 64 } else { data.len() });
                                if span > 0 {
                                    let i = rng.below(span as u64) as usize;
                                    data[i] = rng.u8();
                                }
                            }
                        }
                    }
                }
                let m128 = if k == 0 { d.len() > 60000 } else { rng.bool() };
                let mut c = Case::new(l).machine(m128, false, 0);
                if l == "tap" {
                    c = c.machine(false, true, 2);
                    c.extra = "f1:0:11:4000;f1:ff:200:8000".into();
                }
                if l == "vtx" {
                    c.sc.eof_zero = true;
                }
                c.segs = vec![Seg::H(data)];
                q.push(c);
            }
        }
        // gzip-wrapped: valid containers around generated files, and damaged containers
        for k in 0..o.n(60, 3000) {
            let inner = match k % 4 {
                0 => gen_sna(&mut rng),
                1 => gen_szx(&mut rng),
                2 => gen_scr(&mut rng),
                _ => gen_tap(&mut rng),
            };
            if inner.len() > 70000 && !o.thorough() {
                continue;
            }
            let mut gzb = gzip_stored(&segs_bytes(&inner.segs));
            match rng.below(8) {
                0 => {
                    let cut = rng.below(gzb.len() as u64) as usize;
                    gzb.truncate(cut);
                }
                1 => {
                    let i = rng.below(gzb.len() as u64) as usize;
                    gzb[i] ^= 0x40;
                }
                _ => {}
            }
            let mut c = inner.clone();
            c.loader = format!("gz:{}", inner.loader);
            c.sc = Script::default();
            c.segs = vec![Seg::H(gzb)];
            if c.loader == "gz:szx" {
                // inflate offsets refer to the decompressed file: unchanged
            }
            q.push(c);
        }
    }
    // 5. structure-aware random files
    let scale = |q: u64, t: u64| o.n(q, t);
    for _ in 0..scale(3000, 300_000) {
        let c = gen_sna(&mut rng);
        q.push(c);
    }
    for _ in 0..scale(8000, 900_000) {
        let c = gen_szx(&mut rng);
        q.push(c);
    }
    for _ in 0..scale(300, 20_000) {
        let c = gen_scr(&mut rng);
        q.push(c);
    }
    for _ in 0..scale(300, 20_000) {
        let c = gen_rom(&mut rng);
        q.push(c);
    }
    for _ in 0..scale(700, 100_000) {
        let c = gen_tap(&mut rng);
        q.push(c);
    }
    for _ in 0..scale(1500, 200_000) {
        let c = gen_tapc(&mut rng);
        q.push(c);
    }
    for _ in 0..scale(3000, 300_000) {
        let c = gen_vtx(&mut rng, &parts);
        q.push(c);
    }
    for _ in 0..scale(3000, 200_000) {
        let c = gen_random(&mut rng);
        q.push(c);
    }
    rep.notes.extend(notes);
    run_all(&mut ctx, &mut rep, o, q);
    rep
}
