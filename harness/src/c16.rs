//! C16 — emulation is deterministic and independent of how the host drives it.
//!
//! Main tie (metamorphic, on the real code): the same scenario under different drivings must give
//! identical hashes of registers, memory, both frame buffers, frame clock, and — where both runs
//! drain the queue at the same boundaries — the audio stream, at equal completed-frame counts.
//! The reference driving is "one frame per call, FrameCount(1), whole in-memory asset".
//! Model ties: the loop logic of `emulate_frames` against the Lean loop model on a timing-exact toy
//! machine; `read_exact`/`seek` of every asset implementation against the Lean asset model.
mod drive;
pub mod env;
mod scn;
mod small;

use crate::util::*;
use drive::*;
use env::Deliv;
use scn::*;
use small::*;
use std::collections::HashMap;

struct Refs<'a> {
    scn: &'a Scenario,
    cache: HashMap<(usize, u8, u8), std::rc::Rc<RunOut>>,
    pub runs: u64,
}

fn drain_id(d: Drain) -> u8 {
    match d {
        Drain::Every => 0,
        Drain::Every3 => 1,
        Drain::Never => 2,
        Drain::Returns => 3,
    }
}

impl<'a> Refs<'a> {
    fn get(&mut self, frames: usize, drain: Drain, mix: u8) -> std::rc::Rc<RunOut> {
        let key = (frames, drain_id(drain), mix);
        if let Some(r) = self.cache.get(&key) {
            return r.clone();
        }
        let mut d = Driving::reference(frames, drain);
        d.mix = mix;
        let r = std::rc::Rc::new(run_driving(self.scn, &d));
        self.runs += 1;
        self.cache.insert(key, r.clone());
        r
    }
    /// the reference for the state (always: one frame per call, drained every frame, default mixer) and, if one of
    /// the reference drivings drains at exactly the same boundaries with the same mixer, the reference for the audio
    fn for_driving(&mut self, d: &Driving) -> (std::rc::Rc<RunOut>, Option<std::rc::Rc<RunOut>>) {
        let frames = d.frames();
        let base = self.get(frames, Drain::Every, 0);
        if let Some((ds, mix)) = d.audio_key() {
            for pol in [Drain::Every, Drain::Every3, Drain::Never] {
                let mut rd = Driving::reference(frames, pol);
                rd.mix = mix;
                rd.seed = d.seed;
                if rd == *d {
                    // the driving *is* this reference driving: nothing to compare its audio with
                    return (base, None);
                }
                if rd.drain_set() == ds {
                    return (base, Some(self.get(frames, pol, mix)));
                }
            }
        }
        (base, None)
    }
}

struct Diff {
    k: usize,
    component: &'static str,
    implementation: String,
    expected: String,
}

fn compare(reference: &RunOut, x: &RunOut, audio: bool) -> Option<Diff> {
    if reference.load != x.load {
        return Some(Diff { k: 0, component: "load", implementation: x.load.clone(), expected: reference.load.clone() });
    }
    for o in &x.obs {
        let r = match reference.obs.iter().find(|r| r.k == o.k) {
            Some(r) => r,
            None => continue,
        };
        let mut fields: Vec<(&'static str, u64, u64)> = vec![
            ("steps", o.steps, r.steps),
            ("clocks", o.clocks as u64, r.clocks as u64),
            ("regs", o.regs, r.regs),
            ("ram", o.ram, r.ram),
            ("banks", o.banks, r.banks),
            ("screen", o.screen, r.screen),
            ("border", o.border, r.border),
            ("misc", o.misc, r.misc),
        ];
        if audio {
            fields.push(("audio", o.audio ^ o.audio_n, r.audio ^ r.audio_n));
        }
        for (name, a, b) in fields {
            if a != b {
                return Some(Diff { k: o.k, component: name, implementation: format!("{}={:x} after {} frames", name, a, o.k), expected: format!("{}={:x} after {} frames", name, b, o.k) });
            }
        }
    }
    if x.error != reference.error {
        return Some(Diff {
            k: x.obs.len(),
            component: "error",
            implementation: format!("{:?} {}", x.error, x.api.first().cloned().unwrap_or_default()),
            expected: format!("{:?}", reference.error),
        });
    }
    if !x.api.is_empty() {
        return Some(Diff { k: x.obs.len(), component: "api", implementation: x.api[0].clone(), expected: "stop reasons, frame counter and duration as documented".into() });
    }
    if x.obs.len() == 0 && reference.obs.len() != 0 && x.error.is_none() {
        return Some(Diff { k: 0, component: "error", implementation: "no observation".into(), expected: "observations".into() });
    }
    if x.obs.last().map(|o| o.k) == reference.obs.last().map(|o| o.k) && x.final_sna != reference.final_sna {
        return Some(Diff { k: x.obs.len(), component: "final-sna", implementation: format!("{:x}", x.final_sna), expected: format!("{:x}", reference.final_sna) });
    }
    None
}

fn compare_audio(reference: &RunOut, x: &RunOut) -> Option<Diff> {
    for o in &x.obs {
        if let Some(r) = reference.obs.iter().find(|r| r.k == o.k) {
            if (o.audio, o.audio_n) != (r.audio, r.audio_n) {
                return Some(Diff {
                    k: o.k,
                    component: "audio",
                    implementation: format!("{} samples, hash {:x} after {} frames", o.audio_n, o.audio, o.k),
                    expected: format!("{} samples, hash {:x} after {} frames", r.audio_n, r.audio, o.k),
                });
            }
        }
    }
    None
}

fn truncate(d: &Driving, k: usize) -> Driving {
    let mut t = d.clone();
    t.part = d.part.iter().copied().filter(|&x| x < k).collect();
    t.part.push(k);
    t
}

/// candidates one step closer to the reference driving
fn simpler(d: &Driving) -> Vec<Driving> {
    let mut v = vec![];
    let f = d.frames();
    if f > 1 {
        v.push(truncate(d, f / 2));
        v.push(truncate(d, f - 1));
    }
    let mut push = |m: &dyn Fn(&mut Driving)| {
        let mut c = d.clone();
        m(&mut c);
        if c != *d {
            v.push(c);
        }
    };
    push(&|c| c.deliv = Deliv::Whole);
    push(&|c| c.mix = 0);
    push(&|c| c.resume1 = false);
    push(&|c| {
        c.sound = true;
        c.sound_toggle = false
    });
    push(&|c| c.step = StepKind::None);
    push(&|c| c.bps.clear());
    push(&|c| c.mode = ModeKind::Fc);
    push(&|c| c.part = (1..=f).collect());
    push(&|c| c.drain = Drain::Never);
    push(&|c| c.drain = Drain::Every);
    push(&|c| c.part = vec![f]);
    if d.bps.len() > 1 {
        for a in &d.bps {
            let a = *a;
            push(&move |c| c.bps = vec![a]);
        }
    }
    if let Deliv::Short { k, z, seed } = d.deliv {
        if k > 1 {
            push(&move |c| c.deliv = Deliv::Short { k: 1, z, seed });
        }
        if z {
            push(&move |c| c.deliv = Deliv::Short { k, z: false, seed });
        }
    }
    v
}

fn check_pair(scn: &Scenario, refs: &mut Refs, d: &Driving) -> (Option<Diff>, RunOut, bool) {
    let x = run_driving(scn, d);
    let (base, aref) = refs.for_driving(d);
    let audio = aref.is_some();
    let mut diff = compare(&base, &x, false);
    if diff.is_none() {
        if let Some(ar) = &aref {
            diff = compare_audio(ar, &x);
        }
    }
    if let Some(df) = diff.as_mut() {
        if df.component == "error" || df.component == "api" {
            // the failing call is the one heading for the first boundary that was not observed
            df.k = d.part.get(x.obs.len()).copied().unwrap_or(d.frames());
        }
    }
    (diff, x, audio)
}

fn report_violation(rep: &mut Report, scn: &Scenario, d: &Driving, diff: &Diff, refname: &str) {
    let key = format!("C16/{}/{}-vs-{}/{}", scn.name, refname, d.class(), diff.component);
    rep.violation(Violation {
        kind: Kind::SpecViolated,
        key,
        what: format!(
            "scenario {} driven as [{}] differs from the reference driving (one frame per call) in '{}' after {} frames",
            scn.name,
            d.text(),
            diff.component,
            diff.k
        ),
        correspondence: "metamorphic equation of C16 (slicing_irrelevant / mixer_noninterference / loader_chunking_independent on the real code)".into(),
        case: J::obj(vec![("text", J::s(format!("meta scn={} {}", scn.name, d.text())))]),
        implementation: diff.implementation.clone(),
        expected: diff.expected.clone(),
    });
}

fn shrink(scn: &Scenario, refs: &mut Refs, d: Driving, diff: Diff) -> (Driving, Diff) {
    let mut best = d;
    let mut bdiff = diff;
    let mut budget = 30;
    loop {
        let mut progressed = false;
        // no more frames than needed (every candidate is re-run on the real code)
        let mut cands: Vec<Driving> = vec![];
        if bdiff.k >= 1 && bdiff.k < best.frames() {
            cands.push(truncate(&best, bdiff.k));
        }
        cands.extend(simpler(&best));
        for c in cands {
            if budget == 0 {
                return (best, bdiff);
            }
            budget -= 1;
            if let (Some(df), _, _) = check_pair(scn, refs, &c) {
                best = c;
                bdiff = df;
                progressed = true;
                break;
            }
        }
        if !progressed {
            return (best, bdiff);
        }
    }
}

fn partition(kind: u8, frames: usize, cuts: &[usize], r: &mut Rng) -> Vec<usize> {
    let mut p: Vec<usize> = match kind {
        0 => (1..=frames).collect(),
        1 => {
            let mut v = vec![];
            let mut k = 0;
            while k < frames {
                k += r.range(1, 7) as usize;
                v.push(k.min(frames));
            }
            v
        }
        2 => (1..=frames).filter(|k| k % 3 == 0).collect(),
        _ => vec![],
    };
    p.extend(cuts.iter().copied().filter(|&c| c >= 1 && c <= frames));
    p.push(frames);
    p.sort();
    p.dedup();
    p
}

/// the i-th driving of a scenario: templates cycle so that every class is reached in every run
fn gen_driving(scn: &Scenario, frames: usize, i: usize, r: &mut Rng) -> Driving {
    let cuts: Vec<usize> = scn.events.iter().map(|e| e.0).collect();
    let mut d = Driving::reference(frames, Drain::Every);
    d.seed = r.next() >> 16;
    let has_files = scn.sna.is_some() || scn.tap.is_some();
    let nt = if has_files { 28 } else { 20 };
    let win = |r: &mut Rng, w: usize| -> (usize, usize) {
        let a = r.below(frames as u64) as usize;
        (a, (a + w).min(frames))
    };
    let some_bps = |r: &mut Rng| -> Vec<u16> {
        let n = r.range(1, 3) as usize;
        (0..n).map(|_| *r.pick(&scn.bp_addrs)).collect()
    };
    match i % nt {
        0 => d.part = partition(1, frames, &cuts, r),
        1 => d.mode = ModeKind::Max,
        2 => {
            d.mode = ModeKind::Max;
            d.part = partition(1, frames, &cuts, r);
        }
        3 => {
            d.mode = ModeKind::Mixed;
            d.part = partition(1, frames, &cuts, r);
        }
        4 => {
            d.bps = some_bps(r);
            d.bp_win = win(r, 3);
        }
        5 => {
            d.part = partition(1, frames, &cuts, r);
            d.bps = some_bps(r);
            d.bp_win = win(r, 4);
            d.drain = Drain::Returns;
        }
        6 => {
            d.mode = ModeKind::Max;
            d.part = partition(1, frames, &cuts, r);
            d.bps = some_bps(r);
            d.bp_win = win(r, 4);
        }
        7 => {
            d.step = StepKind::BreakAll;
            d.step_win = win(r, 1);
        }
        8 => {
            d.mode = ModeKind::Max;
            d.part = partition(1, frames, &cuts, r);
            d.step = StepKind::BreakAll;
            d.step_win = win(r, 2);
        }
        9 => {
            d.step = StepKind::Fc0;
            d.step_win = win(r, 1);
        }
        10 => d.sound = false,
        11 => {
            d.sound_toggle = true;
            d.drain = Drain::Never;
        }
        12 => {
            d.part = partition(2, frames, &cuts, r);
            d.drain = Drain::Every3;
        }
        13 => {
            d.mode = ModeKind::Max;
            d.part = partition(2, frames, &cuts, r);
            d.drain = Drain::Every3;
        }
        14 => {
            d.part = partition(3, frames, &cuts, r);
            d.drain = Drain::Never;
        }
        15 => d.mix = 1,
        16 => {
            d.mix = 2;
            d.part = partition(1, frames, &cuts, r);
            d.drain = Drain::Never;
        }
        17 => {
            d.mix = 3;
            d.mode = ModeKind::Max;
            d.sound = false;
        }
        18 | 19 => {
            // several frames per call, a breakpoint stop inside one of them, the resuming call asks for one frame
            d.part = partition(if i % nt == 18 { 2 } else { 1 }, frames, &cuts, r);
            d.bps = some_bps(r);
            d.bp_win = win(r, 4);
            d.resume1 = true;
        }
        t => {
            d.deliv = match t {
                20 => Deliv::VWhole,
                21 => Deliv::Short { k: 1, z: false, seed: r.next() >> 40 },
                22 => Deliv::Short { k: r.range(2, 7) as usize, z: false, seed: r.next() >> 40 },
                23 => Deliv::Short { k: r.range(1, 200) as usize, z: true, seed: r.next() >> 40 },
                24 => Deliv::Gzip,
                25 => Deliv::File,
                26 => Deliv::Short { k: 1, z: true, seed: r.next() >> 40 },
                _ => Deliv::Short { k: r.range(100, 20000) as usize, z: r.bool(), seed: r.next() >> 40 },
            };
            match r.below(4) {
                0 => {}
                1 => d.part = partition(1, frames, &cuts, r),
                2 => {
                    d.mode = ModeKind::Max;
                    d.part = partition(1, frames, &cuts, r);
                }
                _ => {
                    d.mode = ModeKind::Mixed;
                    d.part = partition(2, frames, &cuts, r);
                    d.drain = Drain::Every3;
                }
            }
        }
    }
    d
}

/// the reference driving once more, on another thread with a perturbed heap; any difference is a hidden input
fn rerun_check(scn: &Scenario, frames: usize, first: Option<&RunOut>) -> Option<Diff> {
    let d = Driving::reference(frames, Drain::Every);
    let own;
    let first = match first {
        Some(f) => f,
        None => {
            own = run_driving(scn, &d);
            &own
        }
    };
    let scn2 = scn.clone();
    let again = std::thread::spawn(move || {
        let junk: Vec<Vec<u8>> = (0..37).map(|i| vec![i as u8; 1000 + 4099 * i]).collect();
        let r = run_driving(&scn2, &d);
        drop(junk);
        r
    })
    .join()
    .unwrap_or_default();
    compare(first, &again, true)
}

fn report_rerun(rep: &mut Report, scn: &Scenario, frames: usize, diff: &Diff) {
    rep.violation(Violation {
        kind: Kind::SpecViolated,
        key: format!("C16/{}/fc1-vs-fc1-rerun/{}", scn.name, diff.component),
        what: format!(
            "scenario {}: two runs of the same driving (one frame per call, {} frames; second run on another thread) differ in '{}' after {} frames: the emulation has an input besides its state and the host inputs",
            scn.name, frames, diff.component, diff.k
        ),
        correspondence: "determinism (no hidden inputs), checked by running twice".into(),
        case: J::obj(vec![("text", J::s(format!("rerun scn={} frames={}", scn.name, frames)))]),
        implementation: diff.implementation.clone(),
        expected: diff.expected.clone(),
    });
}

fn metamorphic(o: &Opts, rep: &mut Report, rng: &mut Rng) {
    let scns = scenarios();
    let mut compared_audio = 0u64;
    for scn in &scns {
        let frames = if o.thorough() { scn.frames.1 } else { scn.frames.0 };
        let t0 = std::time::Instant::now();
        let mut refs = Refs { scn, cache: HashMap::new(), runs: 0 };
        let base = refs.get(frames, Drain::Every, 0);
        let t_ref = t0.elapsed().as_secs_f64();
        if let (Some(e), true) = (&base.error, scn.name != "tape-trunc") {
            rep.notes.push(format!("scenario {}: reference run ended with {}", scn.name, e));
        }
        rep.count("scenario_frames", format!("{}={}", scn.name, frames));
        // pure determinism: the same driving again, on another thread, with a perturbed heap
        rep.eval();
        rep.class(format!("{}/fc1-vs-fc1(second run, other thread)", scn.name));
        rep.count("pairs", format!("{}/rerun", scn.name));
        if let Some(df) = rerun_check(scn, frames, Some(&base)) {
            // as few frames as needed
            let k = df.k.max(1).min(frames);
            let df2 = if k < frames { rerun_check(scn, k, None) } else { None };
            match df2 {
                Some(d2) => report_rerun(rep, scn, k, &d2),
                None => report_rerun(rep, scn, frames, &df),
            }
        }
        let n = if o.thorough() { scn.weight as u64 * 6 } else { scn.weight as u64 };
        for i in 0..n as usize {
            // every template (driving class) is reached for every scenario in every run; parameters are seeded
            // the first drivings of every scenario are directed: one breakpoint address of the scenario at a time, set
            // for the whole run (a stop at exactly that instruction, whenever the program gets there)
            let d = if i < scn.bp_addrs.len() {
                let mut d = Driving::reference(frames, Drain::Every);
                d.seed = rng.next() >> 16;
                d.bps = vec![scn.bp_addrs[i]];
                d.bp_win = (0, frames);
                d
            } else {
                gen_driving(scn, frames, i, rng)
            };
            let (diff, x, audio) = check_pair(scn, &mut refs, &d);
            rep.eval();
            let class = d.class();
            rep.class(format!("{}/fc1-vs-{}", scn.name, class));
            rep.count("pairs", format!("{}/{}", scn.name, class));
            rep.count("driving_dims", format!("mode={:?}", d.mode));
            rep.count("driving_dims", format!("deliv={}", d.deliv.class()));
            rep.count("driving_dims", format!("drain={:?}", d.drain));
            rep.count("driving_dims", format!("audio_compared={}", audio));
            rep.count_n("stop_reasons", "completed", x.stops[0]);
            rep.count_n("stop_reasons", "timeout", x.stops[1]);
            rep.count_n("stop_reasons", "breakpoint", x.stops[2]);
            rep.count_n("stop_reasons", "breakpoint-on-the-frame-crossing-step", x.bp_at_boundary);
            rep.count_n("boundaries_compared", scn.name, x.obs.len() as u64);
            if audio {
                compared_audio += 1;
            }
            if rep.samples.len() < 4 && i % 3 == 1 {
                rep.sample(J::obj(vec![
                    ("scenario", J::s(scn.name)),
                    ("driving", J::s(d.text())),
                    ("calls", J::I(x.calls as i64)),
                    ("boundaries_compared", J::I(x.obs.len() as i64)),
                    ("audio_compared", J::B(audio)),
                    ("last", J::s(x.obs.last().map(|o| format!("k={} steps={} regs={:x} ram={:x} screen={:x} audio_n={}", o.k, o.steps, o.regs, o.ram, o.screen, o.audio_n)).unwrap_or_default())),
                ]));
            }
            if let Some(df) = diff {
                let key = format!("C16/{}/fc1-vs-{}/{}", scn.name, d.class(), df.component);
                if rep.has_key(&key) {
                    rep.count("repeat_violations", key);
                } else {
                    let (sd, sdf) = shrink(scn, &mut refs, d, df);
                    report_violation(rep, scn, &sd, &sdf, "fc1");
                }
            }
        }
        // drain policy alone must not matter for the state
        for pol in [Drain::Every3, Drain::Never] {
            let d = Driving::reference(frames, pol);
            let (diff, _, _) = check_pair(scn, &mut refs, &d);
            rep.eval();
            rep.class(format!("{}/fc1-vs-{}", scn.name, d.class()));
            rep.count("pairs", format!("{}/{}", scn.name, d.class()));
            if let Some(df) = diff {
                let (sd, sdf) = shrink(scn, &mut refs, d, df);
                report_violation(rep, scn, &sd, &sdf, "fc1");
            }
        }
        rep.count_n("reference_runs", scn.name, refs.runs);
        rep.extra.push((format!("wall_s_{}", scn.name), J::s(format!("ref {:.2} total {:.2}", t_ref, t0.elapsed().as_secs_f64()))));
    }
    rep.count_n("audio", "pairs_with_audio_compared", compared_audio);
}

fn small_checks(o: &Opts, rep: &mut Report, rng: &mut Rng, model: &mut Model) {
    for _ in 0..o.n(300, 20_000) {
        let tc = toy_gen(rng);
        let out = toy_run(&tc, model);
        rep.evaluations += tc.calls.len() as u64;
        for c in &out.classes {
            rep.class(c.clone());
            rep.count("toy_calls", c.trim_start_matches("toy/").to_string());
        }
        if let Some(kind) = out.kind {
            let tc = toy_shrink(tc, model);
            let out2 = toy_run(&tc, model);
            let (w, i, e) = if out2.kind.is_some() { (out2.what, out2.implementation, out2.expected) } else { (out.what, out.implementation, out.expected) };
            rep.violation(Violation {
                kind: out2.kind.unwrap_or(kind),
                key: "C16/loop/emulate_frames-vs-model".into(),
                what: w,
                correspondence: "corr.C16.loop (emulate_frames on a fixed-timing program vs. Driving.run on the toy machine)".into(),
                case: J::obj(vec![("text", J::s(tc.text()))]),
                implementation: i,
                expected: e,
            });
        }
    }
    for _ in 0..o.n(6_000, 400_000) {
        let c = rx_gen(rng);
        rx_one(&c, rep, model);
    }
    for _ in 0..o.n(1_500, 100_000) {
        let c = seek_gen(rng);
        seek_one(&c, rep, model);
    }
}

/// loaders on damaged/odd files: every delivery must give the outcome and the (partially loaded) machine of the
/// whole-buffer delivery. case text: `load m128=<0|1> kind=<0 sna|1 scr|2 rom set|3 szx> cut=<len> deliv=<...>`
fn loader_files(m128: bool, kind: u8) -> Vec<u8> {
    let (code, _) = diag_program();
    match (kind, m128) {
        (0, false) => sna48(&code, 0x8000, 0x8000, 0xBD00, 0x5C3A, 21),
        (0, true) => sna128(&code, 0x8000, 0x8000, 0xBD00, 0x5C3A, 23),
        // a host ROM set: one 16K page (48K) or two (128K), delivered page by page
        (2, _) => Rng::new(79).bytes(if m128 { 32768 } else { 16384 }),
        // an SZX with register chunks and several stored (uncompressed) RAM pages
        (3, _) => {
            let mut seed = 1000u64;
            loop {
                let spec = crate::c14::random_szx(&mut Rng::new(seed), m128);
                let raw = spec.order.iter().filter(|c| matches!(c, crate::c14::Ck::Ramp(_, crate::c14::Comp::Raw))).count();
                if raw >= 2 && spec.order.contains(&crate::c14::Ck::Z80r) {
                    return spec.encode().0;
                }
                seed += 1;
            }
        }
        _ => Rng::new(77).bytes(6912),
    }
}

fn kind_name(kind: u8) -> &'static str {
    match kind {
        0 => "sna",
        2 => "rom",
        3 => "szx",
        _ => "scr",
    }
}

fn loader_one(m128: bool, kind: u8, cut: usize, deliv: &Deliv, rep: &mut Report) {
    let full = loader_files(m128, kind);
    let mut file = full.clone();
    if cut <= full.len() {
        file.truncate(cut);
    } else {
        file.resize(cut, 0x5A);
    }
    rep.eval();
    let base = load_only(m128, kind, &file, &Deliv::Whole);
    let x = load_only(m128, kind, &file, deliv);
    let class = format!(
        "load/{}{}/{}/{}",
        kind_name(kind),
        if m128 { "128" } else { "48" },
        if cut == full.len() { "intact" } else if cut < full.len() { "truncated" } else { "oversize" },
        deliv.class()
    );
    rep.class(class.clone());
    rep.count("loaders", class.trim_start_matches("load/").to_string());
    if let (Ok(b), Ok(xx)) = (&base, &x) {
        rep.count("loader_outcomes", b.0.clone());
        if b != xx {
            rep.violation(Violation {
                kind: Kind::SpecViolated,
                key: format!("C16/load/{}/{}", kind_name(kind), deliv.class()),
                what: "a loader gives a different outcome or leaves a different machine when the same file bytes arrive through another asset".into(),
                correspondence: "loader_chunking_independent on the real loaders".into(),
                case: J::obj(vec![("text", J::s(format!("load m128={} kind={} cut={} deliv={}", m128 as u8, kind, cut, deliv.text())))]),
                implementation: format!("{} state {:x}", xx.0, xx.1),
                expected: format!("{} state {:x}", b.0, b.1),
            });
        }
    } else {
        rep.notes.push(format!("loader check could not build its asset: {:?} {:?}", base.err(), x.err()));
    }
}

fn loader_checks(o: &Opts, rep: &mut Report, rng: &mut Rng) {
    for _ in 0..o.n(60, 3000) {
        let m128 = rng.bool();
        let kind = match rng.below(8) { 0 | 1 => 1, 2 => 2, 3 | 4 => 3, _ => 0 };
        let len = loader_files(m128, kind).len();
        let cut = match rng.below(5) {
            0 => len,
            1 => len + 1 + rng.below(40) as usize,
            // a truncated 128K image must still be longer than a 48K image (otherwise it *is* a 48K image)
            _ if kind == 0 && m128 => 49180 + rng.below((len - 49180) as u64) as usize,
            _ => rng.below(len as u64) as usize,
        };
        let deliv = match rng.below(6) {
            0 => Deliv::VWhole,
            1 => Deliv::Short { k: 1, z: rng.bool(), seed: rng.next() >> 40 },
            2 => Deliv::Short { k: rng.range(2, 300) as usize, z: rng.bool(), seed: rng.next() >> 40 },
            3 => Deliv::Short { k: rng.range(300, 30000) as usize, z: rng.bool(), seed: rng.next() >> 40 },
            4 => Deliv::Gzip,
            _ => Deliv::File,
        };
        loader_one(m128, kind, cut, &deliv, rep);
    }
}

fn toy_shrink(mut tc: ToyCase, model: &mut Model) -> ToyCase {
    let fails = |t: &ToyCase, m: &mut Model| toy_run(t, m).kind.is_some();
    // fewer calls, then shorter program, then simpler calls
    loop {
        let mut progressed = false;
        for i in (0..tc.calls.len()).rev() {
            if tc.calls.len() <= 1 {
                break;
            }
            let mut c = tc.clone();
            c.calls.remove(i);
            if fails(&c, model) {
                tc = c;
                progressed = true;
            }
        }
        for i in (0..tc.prog.len()).rev() {
            if tc.prog.len() <= 1 {
                break;
            }
            let mut c = tc.clone();
            c.prog.remove(i);
            for cl in c.calls.iter_mut() {
                cl.bps.clear();
            }
            if fails(&c, model) {
                tc = c;
                progressed = true;
            }
        }
        for i in 0..tc.calls.len() {
            let mut c = tc.clone();
            c.calls[i].bps.clear();
            c.calls[i].bpall = false;
            if c.calls[i].bps != tc.calls[i].bps || tc.calls[i].bpall {
                if fails(&c, model) {
                    tc = c;
                    progressed = true;
                }
            }
        }
        if !progressed {
            return tc;
        }
    }
}

fn rx_one(c: &RxCase, rep: &mut Report, model: &mut Model) {
    let out = rx_run(c, model);
    rep.eval();
    if !out.class.is_empty() {
        rep.class(out.class.clone());
        rep.count("read_exact", out.class.trim_start_matches("rx/").to_string());
    }
    if let Some(kind) = out.kind {
        // shrink: shorter data / fewer caps while it still fails
        let mut best = c.clone();
        let mut bout = out;
        loop {
            let mut cands: Vec<RxCase> = vec![];
            if !best.caps.is_empty() {
                let mut t = best.clone();
                t.caps.pop();
                cands.push(t);
            }
            if !best.data.is_empty() {
                let mut t = best.clone();
                t.data.pop();
                cands.push(t);
            }
            if best.n > 0 {
                let mut t = best.clone();
                t.n -= 1;
                cands.push(t);
            }
            if best.pos > 0 {
                let mut t = best.clone();
                t.pos -= 1;
                cands.push(t);
            }
            let mut progressed = false;
            for t in cands {
                let o2 = rx_run(&t, model);
                if o2.kind.is_some() {
                    best = t;
                    bout = o2;
                    progressed = true;
                    break;
                }
            }
            if !progressed {
                break;
            }
        }
        rep.violation(Violation {
            kind: bout.kind.unwrap_or(kind),
            key: format!("C16/read_exact/{}", best.kind),
            what: bout.what,
            correspondence: "corr.C16.read_exact (LoadableAsset::read_exact over every asset implementation vs. Driving.readExact / readExactSpec)".into(),
            case: J::obj(vec![("text", J::s(best.text()))]),
            implementation: bout.implementation,
            expected: bout.expected,
        });
    }
}

fn seek_one(c: &SeekCase, rep: &mut Report, model: &mut Model) {
    let (class, bad) = seek_run(c, model);
    rep.eval();
    rep.class(class.clone());
    rep.count("seek", class.trim_start_matches("seek/").to_string());
    if let Some((kind, key, imp, exp)) = bad {
        rep.violation(Violation {
            kind,
            key,
            what: "seek result differs from the position arithmetic of the model".into(),
            correspondence: "corr.C16.seek".into(),
            case: J::obj(vec![("text", J::s(c.text()))]),
            implementation: imp,
            expected: exp,
        });
    }
}

/// Large files (hundreds of KiB: long tapes) through every asset implementation of the library: the bytes
/// delivered at the start, across the 64/128/256 KiB marks and at the very end are the file's bytes, and the
/// end of the file is where the file ends.
fn large_assets(o: &Opts, rep: &mut Report, only: Option<(char, usize)>) {
    use rustzx_core::host::{BufferCursor, LoadableAsset, SeekFrom, SeekableAsset};
    use rustzx_utils::io::{FileAsset, GzipAsset};
    fn probe<A: LoadableAsset + SeekableAsset>(mut a: A, data: &[u8]) -> Option<String> {
        let len = data.len();
        let end = a.seek(SeekFrom::End(0)).ok()?;
        if end != len {
            return Some(format!("seek(End(0)) = {} for a file of {} bytes", end, len));
        }
        let mut marks = vec![0usize, 65535, 131071, 262143, 262144 - 500, len.saturating_sub(1000)];
        marks.retain(|m| *m + 1000 <= len);
        for m in marks {
            if a.seek(SeekFrom::Start(m)).is_err() {
                return Some(format!("seek to {} failed", m));
            }
            let mut b = vec![0u8; 1000];
            if let Err(e) = a.read_exact(&mut b) {
                return Some(format!("read_exact of 1000 bytes at {} failed: {:?}", m, e));
            }
            if b[..] != data[m..m + 1000] {
                let k = (0..1000).find(|i| b[*i] != data[m + *i]).unwrap_or(0);
                return Some(format!("byte at offset {} is {:02x}, the file holds {:02x}", m + k, b[k], data[m + k]));
            }
        }
        None
    }
    // an asset that has been read to its end is still the same file: after the end-of-file answer a seek back
    // delivers the file's bytes again (a tape is rewound and replayed)
    fn reuse<A: LoadableAsset + SeekableAsset>(mut a: A, data: &[u8]) -> Option<String> {
        let len = data.len();
        for round in 0..3 {
            let mut all = vec![0u8; len];
            if a.seek(SeekFrom::Start(0)).is_err() {
                return Some(format!("round {}: seek to the start failed", round));
            }
            if let Err(e) = a.read_exact(&mut all) {
                return Some(format!("round {}: reading the whole file after a seek to the start failed: {:?}", round, e));
            }
            if all[..] != data[..] {
                return Some(format!("round {}: the bytes read differ from the file", round));
            }
            // run into the end of the file (several ways), then go back
            let mut one = [0u8; 1];
            let _ = a.read_exact(&mut one);
            let _ = a.read(&mut one);
            let back = len - 1 - (round * 37) % len.min(200);
            if a.seek(SeekFrom::Start(back)).is_err() {
                return Some(format!("round {}: seek back to {} after the end of the file failed", round, back));
            }
            let mut tail = vec![0u8; len - back];
            if let Err(e) = a.read_exact(&mut tail) {
                return Some(format!("round {}: after reading past the end and seeking back to {}, read_exact of the last {} bytes failed: {:?}", round, back, len - back, e));
            }
            if tail[..] != data[back..] {
                return Some(format!("round {}: after reading past the end and seeking back to {}, other bytes than the file's", round, back));
            }
        }
        None
    }
    for size in [1usize, 100, 4096, 4097, 10_000] {
        let data: Vec<u8> = (0..size).map(|i| ((i * 11 + (i >> 8) * 3) & 0xFF) as u8).collect();
        for kind in ['b', 'g', 'f', 'v'] {
            if only.is_some() {
                continue;
            }
            let r: Result<Option<String>, String> = match kind {
                'b' => Ok(reuse(BufferCursor::new(data.clone()), &data)),
                'v' => Ok(reuse(crate::host::VAsset::new(data.clone()), &data)),
                'g' => GzipAsset::new(&env::gzip_stored(&data, 60000)[..]).map(|a| reuse(a, &data)).map_err(|e| e.to_string()),
                _ => env::temp_file(&data).map(|f| reuse(FileAsset::from(f), &data)),
            };
            rep.eval();
            rep.class(format!("asset reuse after eof kind={} size={}", kind, size));
            let bad = match r {
                Ok(None) => None,
                Ok(Some(w)) => Some(w),
                Err(e) => Some(format!("the asset could not be opened: {}", e)),
            };
            if let Some(what) = bad {
                rep.violation(Violation {
                    kind: Kind::SpecViolated,
                    key: format!("C16/asset/reuse-after-eof/kind={}", kind),
                    what: format!("a file of {} bytes through asset implementation '{}' (b = BufferCursor, g = GzipAsset, f = FileAsset, v = in-memory): {}", size, kind, what),
                    correspondence: "corr.C16.read_exact (asset implementations deliver the bytes of the file)".into(),
                    case: J::obj(vec![("text", J::s(format!("assetreuse kind={} size={}", kind, size)))]),
                    implementation: what.clone(),
                    expected: "the file's bytes again, whatever implementation delivers them".into(),
                });
            }
        }
    }
    let sizes: Vec<usize> = if o.thorough() { vec![70_000, 262_144, 262_145, 300_000, 1_200_000] } else { vec![262_145, 300_000] };
    for size in sizes {
        let data: Vec<u8> = (0..size).map(|i| ((i * 7 + (i >> 8) * 13 + (i >> 16) * 101) & 0xFF) as u8).collect();
        for kind in ['b', 'g', 'f', 'v'] {
            if let Some((k, sz)) = only {
                if k != kind || sz != size {
                    continue;
                }
            }
            let r: Result<Option<String>, String> = match kind {
                'b' => Ok(probe(BufferCursor::new(data.clone()), &data)),
                'v' => Ok(probe(crate::host::VAsset::new(data.clone()), &data)),
                'g' => GzipAsset::new(&env::gzip_stored(&data, 60000)[..]).map(|a| probe(a, &data)).map_err(|e| e.to_string()),
                _ => env::temp_file(&data).map(|f| probe(FileAsset::from(f), &data)),
            };
            rep.eval();
            rep.class(format!("large asset kind={} size={}", kind, size));
            let bad = match r {
                Ok(None) => None,
                Ok(Some(w)) => Some(w),
                Err(e) => Some(format!("the asset could not be opened: {}", e)),
            };
            if let Some(what) = bad {
                rep.violation(Violation {
                    kind: Kind::SpecViolated,
                    key: format!("C16/asset/large/kind={}", kind),
                    what: format!("a file of {} bytes through asset implementation '{}' (b = BufferCursor, g = GzipAsset, f = FileAsset, v = in-memory): {}", size, kind, what),
                    correspondence: "corr.C16.read_exact (asset implementations deliver the bytes of the file)".into(),
                    case: J::obj(vec![("text", J::s(format!("largeasset kind={} size={}", kind, size)))]),
                    implementation: what.clone(),
                    expected: "the file's bytes, whatever implementation delivers them".into(),
                });
            }
        }
    }
}

fn replay(text: &str, rep: &mut Report, model: &mut Model) {
    let text = text.trim();
    if text.starts_with("assetreuse ") {
        let o = Opts { tier: "quick".into(), seed: 1, model: String::new(), out: String::new(), replay: None, corpus: None };
        large_assets(&o, rep, None);
        return;
    }
    if let Some(rest) = text.strip_prefix("largeasset ") {
        let mut kind = 'g';
        let mut size = 300_000usize;
        for tok in rest.split_whitespace() {
            if let Some(v) = tok.strip_prefix("kind=") {
                kind = v.chars().next().unwrap_or('g');
            }
            if let Some(v) = tok.strip_prefix("size=") {
                size = v.parse().unwrap_or(size);
            }
        }
        let o = Opts { tier: "thorough".into(), seed: 1, model: String::new(), out: String::new(), replay: None, corpus: None };
        large_assets(&o, rep, Some((kind, size)));
        return;
    }
    if text.starts_with("meta ") {
        let rest = &text[5..];
        let (scn_tok, drv) = match rest.split_once(' ') {
            Some(x) => x,
            None => {
                rep.notes.push("replay: malformed case".into());
                return;
            }
        };
        let name = scn_tok.trim_start_matches("scn=");
        let scns = scenarios();
        let scn = match scns.iter().find(|s| s.name == name) {
            Some(s) => s,
            None => {
                rep.notes.push(format!("replay: unknown scenario {}", name));
                return;
            }
        };
        let d = match Driving::parse(drv) {
            Some(d) => d,
            None => {
                rep.notes.push("replay: cannot parse the driving".into());
                return;
            }
        };
        let mut refs = Refs { scn, cache: HashMap::new(), runs: 0 };
        let (diff, _, _) = check_pair(scn, &mut refs, &d);
        rep.eval();
        rep.class(format!("{}/fc1-vs-{}", scn.name, d.class()));
        if let Some(df) = diff {
            report_violation(rep, scn, &d, &df, "fc1");
        }
    } else if text.starts_with("rerun ") {
        let mut name = "";
        let mut frames = 0usize;
        for tok in text.split_whitespace().skip(1) {
            if let Some(v) = tok.strip_prefix("scn=") {
                name = v;
            } else if let Some(v) = tok.strip_prefix("frames=") {
                frames = v.parse().unwrap_or(0);
            }
        }
        let scns = scenarios();
        match scns.iter().find(|s| s.name == name) {
            Some(scn) if frames > 0 => {
                rep.eval();
                if let Some(df) = rerun_check(scn, frames, None) {
                    report_rerun(rep, scn, frames, &df);
                }
            }
            _ => rep.notes.push("replay: malformed rerun case".into()),
        }
    } else if text.starts_with("load ") {
        let mut m128 = false;
        let mut kind = 0u8;
        let mut cut = 0usize;
        let mut deliv = None;
        for tok in text.split_whitespace().skip(1) {
            if let Some((k, v)) = tok.split_once('=') {
                match k {
                    "m128" => m128 = v == "1",
                    "kind" => kind = v.parse().unwrap_or(0),
                    "cut" => cut = v.parse().unwrap_or(0),
                    "deliv" => deliv = Deliv::parse(v),
                    _ => {}
                }
            }
        }
        match deliv {
            Some(d) => loader_one(m128, kind, cut, &d, rep),
            None => rep.notes.push("replay: malformed load case".into()),
        }
    } else if text.starts_with("toy ") {
        if let Some(tc) = ToyCase::parse(text) {
            let out = toy_run(&tc, model);
            rep.evaluations += tc.calls.len() as u64;
            if let Some(kind) = out.kind {
                rep.violation(Violation {
                    kind,
                    key: "C16/loop/emulate_frames-vs-model".into(),
                    what: out.what,
                    correspondence: "corr.C16.loop".into(),
                    case: J::obj(vec![("text", J::s(tc.text()))]),
                    implementation: out.implementation,
                    expected: out.expected,
                });
            }
        } else {
            rep.notes.push("replay: cannot parse the toy case".into());
        }
    } else if text.starts_with("rx ") {
        match RxCase::parse(text) {
            Some(c) => rx_one(&c, rep, model),
            None => rep.notes.push("replay: cannot parse the rx case".into()),
        }
    } else if text.starts_with("seek ") {
        match SeekCase::parse(text) {
            Some(c) => seek_one(&c, rep, model),
            None => rep.notes.push("replay: cannot parse the seek case".into()),
        }
    } else {
        rep.notes.push("replay: unknown case kind".into());
    }
}

pub fn run(o: &Opts) -> Report {
    let mut rep = Report::new("C16");
    rep.rule = "metamorphic on the real emulator: scenarios {48K/128K ROM boot with key script, hand-written \
        diagnostic program (IM2, HALT, keyboard, contended screen writes, border/beeper, 7FFD paging, AY, floating bus) \
        on 48K/128K loaded from SNA, tape load through the ROM with fast-load on/off} x drivings built from templates \
        {FrameCount(n_i) partitions, Max with scripted stopwatch/limits, mixed, breakpoint sets in a frame window (also with the resuming call switched to FrameCount(1)), \
        break_all and FrameCount(0) single-stepping across frame boundaries, set_sound off/toggled, mixer configurations, \
        drain every frame / every 3rd / never / at every return, asset delivery whole / VAsset / short reads 1..k with Err or Ok(0) at EOF / \
        GzipAsset / FileAsset}; every driving is compared with the reference driving (FrameCount(1), one frame per call) at every \
        frame boundary both reach: step count, frame clock, register hash, 64K peeks, 128K banks via SNA save, screen and border \
        buffers, border/paging/INT, audio stream where both drain at the same boundaries; plus a second run of the reference on \
        another thread. distinct = (scenario, driving class) pairs, loop-model call classes (mode, stop reason, breakpoint kind, at \
        boundary), read_exact classes (asset kind, chunking kind, EOF kind), seek classes. Model ties: emulate_frames vs the Lean \
        loop model on random fixed-timing programs (stop reason, steps, PC, frame clock, frames_count, stopwatch reads, duration); \
        read_exact/seek of every asset implementation vs the Lean asset model and spec.".into();
    rep.max_samples = 6;
    let mut model = Model::spawn(&o.model, "C16");
    if let Some(text) = &o.replay {
        replay(text, &mut rep, &mut model);
        return rep;
    }
    let mut rng = Rng::new(o.seed);
    let t0 = std::time::Instant::now();
    small_checks(o, &mut rep, &mut rng, &mut model);
    loader_checks(o, &mut rep, &mut rng);
    large_assets(o, &mut rep, None);
    rep.extra.push(("wall_s_model_ties".into(), J::F(t0.elapsed().as_secs_f64())));
    metamorphic(o, &mut rep, &mut rng);
    let _ = std::fs::remove_dir("/tmp/determ");
    rep
}
