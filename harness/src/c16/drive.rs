//! C16 drivings: one scenario executed on the real emulator under a fully explicit host behaviour.
use super::env::*;
use super::scn::*;
use crate::host::{settings, Cfg, SW_SCRIPT};
use crate::util::Rng;
use rustzx_core::{
    host::{Snapshot, SnapshotRecorder, Tape},
    EmulationMode, EmulationStopReason, Emulator,
};
use std::panic::{catch_unwind, AssertUnwindSafe};
use std::time::Duration;

#[derive(Clone, Copy, Debug, PartialEq)]
pub enum ModeKind {
    Fc,
    Max,
    Mixed,
}
#[derive(Clone, Copy, Debug, PartialEq)]
pub enum Drain {
    Every,
    Every3,
    Never,
    /// after every return, breakpoint stops included
    Returns,
}
#[derive(Clone, Copy, Debug, PartialEq)]
pub enum StepKind {
    None,
    /// `break_all` single stepping
    BreakAll,
    /// `FrameCount(0)` single stepping
    Fc0,
}

#[derive(Clone, Debug, PartialEq)]
pub struct Driving {
    /// frame numbers at which a call must end (sorted, last = frames)
    pub part: Vec<usize>,
    pub mode: ModeKind,
    /// breakpoint addresses and the frame window [from, to) in which they are set
    pub bps: Vec<u16>,
    pub bp_win: (usize, usize),
    /// single stepping while completed frames are in [from, to)
    pub step: StepKind,
    pub step_win: (usize, usize),
    /// `set_sound` value; `toggle`: flipped every 4 frames boundaries
    pub sound: bool,
    pub sound_toggle: bool,
    pub drain: Drain,
    pub deliv: Deliv,
    /// mixer configuration: 0 = default, 1 = AY and beeper off, 2 = 11025 Hz / volume 30, 3 = sound_enabled off
    pub mix: u8,
    /// seed of stopwatch scripts and time limits
    pub seed: u64,
    /// after a breakpoint stop the host switches to FrameCount(1) for the call that resumes (the frame the
    /// stop fell into is then the last — visible — frame of a call instead of an inner frame of a longer one)
    pub resume1: bool,
}

impl Driving {
    pub fn reference(frames: usize, drain: Drain) -> Driving {
        Driving {
            part: (1..=frames).collect(),
            mode: ModeKind::Fc,
            bps: vec![],
            bp_win: (0, 0),
            step: StepKind::None,
            step_win: (0, 0),
            sound: true,
            sound_toggle: false,
            drain,
            deliv: Deliv::Whole,
            mix: 0,
            seed: 1,
            resume1: false,
        }
    }
    pub fn frames(&self) -> usize {
        *self.part.last().unwrap_or(&0)
    }
    pub fn text(&self) -> String {
        let part = if self.part.len() == self.frames() {
            format!("each:{}", self.frames())
        } else {
            self.part.iter().map(|x| x.to_string()).collect::<Vec<_>>().join(",")
        };
        format!(
            "part={} mode={} bps={}@{}-{} step={}@{}-{} sound={}{} drain={} deliv={} mix={} seed={}{}",
            part,
            match self.mode { ModeKind::Fc => "fc", ModeKind::Max => "max", ModeKind::Mixed => "mixed" },
            if self.bps.is_empty() { "-".to_string() } else { self.bps.iter().map(|a| format!("{:04x}", a)).collect::<Vec<_>>().join(",") },
            self.bp_win.0, self.bp_win.1,
            match self.step { StepKind::None => "none", StepKind::BreakAll => "breakall", StepKind::Fc0 => "fc0" },
            self.step_win.0, self.step_win.1,
            if self.sound { "on" } else { "off" },
            if self.sound_toggle { "~" } else { "" },
            match self.drain { Drain::Every => "every", Drain::Every3 => "every3", Drain::Never => "never", Drain::Returns => "returns" },
            self.deliv.text(), self.mix, self.seed,
            if self.resume1 { " resume=1" } else { "" }
        )
    }
    pub fn parse(s: &str) -> Option<Driving> {
        let mut d = Driving::reference(1, Drain::Every);
        for tok in s.split_whitespace() {
            let (k, v) = tok.split_once('=')?;
            let win = |w: &str| -> Option<(usize, usize)> {
                let (a, b) = w.split_once('-')?;
                Some((a.parse().ok()?, b.parse().ok()?))
            };
            match k {
                "part" => {
                    d.part = if let Some(n) = v.strip_prefix("each:") {
                        (1..=n.parse::<usize>().ok()?).collect()
                    } else {
                        v.split(',').map(|x| x.parse().ok()).collect::<Option<Vec<usize>>>()?
                    }
                }
                "mode" => d.mode = match v { "fc" => ModeKind::Fc, "max" => ModeKind::Max, "mixed" => ModeKind::Mixed, _ => return None },
                "bps" => {
                    let (a, w) = v.split_once('@')?;
                    d.bps = if a == "-" { vec![] } else { a.split(',').map(|x| u16::from_str_radix(x, 16).ok()).collect::<Option<Vec<u16>>>()? };
                    d.bp_win = win(w)?;
                }
                "step" => {
                    let (a, w) = v.split_once('@')?;
                    d.step = match a { "none" => StepKind::None, "breakall" => StepKind::BreakAll, "fc0" => StepKind::Fc0, _ => return None };
                    d.step_win = win(w)?;
                }
                "sound" => {
                    d.sound_toggle = v.ends_with('~');
                    d.sound = v.trim_end_matches('~') == "on";
                }
                "drain" => d.drain = match v { "every" => Drain::Every, "every3" => Drain::Every3, "never" => Drain::Never, "returns" => Drain::Returns, _ => return None },
                "deliv" => d.deliv = Deliv::parse(v)?,
                "mix" => d.mix = v.parse().ok()?,
                "seed" => d.seed = v.parse().ok()?,
                "resume" => d.resume1 = v == "1",
                _ => return None,
            }
        }
        if d.part.is_empty() || d.part.windows(2).any(|w| w[0] >= w[1]) || d.part[0] == 0 {
            return None;
        }
        Some(d)
    }
    /// class name used in violation keys and coverage: the kinds of deviation from the reference driving
    pub fn class(&self) -> String {
        let mut c: Vec<String> = vec![];
        let each = self.part.len() == self.frames();
        match self.mode {
            ModeKind::Fc => c.push(if each { "fc1".into() } else { "fcN".into() }),
            ModeKind::Max => c.push(if each { "max1".into() } else { "maxN".into() }),
            ModeKind::Mixed => c.push(if each { "mixed1".into() } else { "mixedN".into() }),
        }
        if !self.bps.is_empty() && self.bp_win.1 > self.bp_win.0 {
            c.push("bp".into());
        }
        match self.step {
            StepKind::None => {}
            StepKind::BreakAll => c.push("breakall".into()),
            StepKind::Fc0 => c.push("fc0".into()),
        }
        if !self.sound || self.sound_toggle {
            c.push("sound-off".into());
        }
        match self.drain {
            Drain::Every => {}
            Drain::Every3 => c.push("drain3".into()),
            Drain::Never => c.push("nodrain".into()),
            Drain::Returns => c.push("drain-returns".into()),
        }
        if self.deliv != Deliv::Whole {
            c.push(self.deliv.class().into());
        }
        if self.mix != 0 {
            c.push(format!("mix{}", self.mix));
        }
        if self.resume1 {
            c.push("resume-fc1".into());
        }
        c.join("+")
    }
    /// frames after which this driving drains the audio queue completely (at boundaries)
    pub fn drain_set(&self) -> Vec<usize> {
        match self.drain {
            Drain::Every | Drain::Returns => self.part.clone(),
            Drain::Every3 => self.part.iter().copied().filter(|k| k % 3 == 0).collect(),
            Drain::Never => vec![],
        }
    }
    pub fn audio_key(&self) -> Option<(Vec<usize>, u8)> {
        if self.drain == Drain::Returns && (self.step != StepKind::None || !self.bps.is_empty()) || self.resume1 {
            return None;
        }
        Some((self.drain_set(), self.mix))
    }
}

/// What is compared at a frame boundary.
#[derive(Clone, Debug, PartialEq)]
pub struct Obs {
    pub k: usize,
    pub steps: u64,
    pub regs: u64,
    pub ram: u64,
    pub banks: u64,
    pub screen: u64,
    pub border: u64,
    pub clocks: usize,
    pub misc: u64,
    pub audio: u64,
    pub audio_n: u64,
}

pub const COMPONENTS: [&str; 10] =
    ["steps", "regs", "ram", "banks", "screen", "border", "clocks", "misc", "audio", "final-sna"];

#[derive(Clone, Default)]
pub struct RunOut {
    pub obs: Vec<Obs>,
    /// loop-logic complaints found while driving (unexpected stop reason, overshoot, duration)
    pub api: Vec<String>,
    pub error: Option<String>,
    pub final_sna: u64,
    pub calls: u64,
    pub stops: [u64; 3],
    pub bp_at_boundary: u64,
    pub load: String,
}

fn regs_hash(e: &mut Emu) -> u64 {
    let c = e.verif_cpu();
    let mut b: Vec<u8> = vec![];
    let r = &mut c.regs;
    for w in [r.get_pc(), r.get_sp(), r.get_af(), r.get_bc(), r.get_de(), r.get_hl(), r.get_ix(), r.get_iy(), r.get_mem_ptr()] {
        b.extend_from_slice(&w.to_le_bytes());
    }
    r.exx();
    for w in [r.get_bc(), r.get_de(), r.get_hl()] {
        b.extend_from_slice(&w.to_le_bytes());
    }
    r.exx();
    r.swap_af_alt();
    b.extend_from_slice(&r.get_af().to_le_bytes());
    r.swap_af_alt();
    b.extend_from_slice(&[r.get_i(), r.get_r(), r.get_iff1() as u8, r.get_iff2() as u8, r.verif_q(), r.get_last_q()]);
    let im: u8 = c.get_im().into();
    b.extend_from_slice(&[im, c.halted as u8, c.skip_interrupt as u8, c.verif_active_prefix().to_byte().unwrap_or(0)]);
    fnv1(&b)
}

pub fn observe(e: &mut Emu, m128: bool, k: usize, audio: (u64, u64)) -> Obs {
    let regs = regs_hash(e);
    let mut ram = FNV0;
    let mut buf = [0u8; 256];
    for hi in 0..256usize {
        for lo in 0..256usize {
            buf[lo] = e.peek(((hi << 8) | lo) as u16);
        }
        fnv(&mut ram, &buf);
    }
    let banks = if m128 {
        let mut v = Vec::with_capacity(131103);
        match e.save_snapshot(SnapshotRecorder::Sna(VecRec(&mut v))) {
            Ok(()) => fnv1(&v),
            Err(_) => 1,
        }
    } else {
        0
    };
    let screen = fnv1(&e.screen_buffer().px);
    let border = fnv1(&e.border_buffer().px);
    let (p, l, s) = e.verif_paging();
    let misc = fnv1(&[e.border_color() as u8, p, l as u8, s, e.verif_int_active() as u8]);
    Obs {
        k,
        steps: e.debug_interface().map(|d| d.steps).unwrap_or(0),
        regs,
        ram,
        banks,
        screen,
        border,
        clocks: e.verif_frame_clocks(),
        misc,
        audio: audio.0,
        audio_n: audio.1,
    }
}

fn drain_audio(e: &mut Emu, acc: &mut (u64, u64)) {
    while let Some(s) = e.next_audio_sample() {
        fnv(&mut acc.0, &s.left.to_bits().to_le_bytes());
        fnv(&mut acc.0, &s.right.to_bits().to_le_bytes());
        acc.1 += 1;
    }
}

fn apply_events(scn: &Scenario, k: usize, e: &mut Emu) {
    for (f, ev) in &scn.events {
        if *f == k {
            match *ev {
                HostEv::Key(i, p) => e.send_key(KEYS[i], p),
                HostEv::Play => e.play_tape(),
            }
        }
    }
}

pub fn build(scn: &Scenario, d: &Driving) -> Result<(Emu, String), String> {
    let mut c = Cfg::new(scn.m128);
    c.rom = true;
    c.fastload = scn.fastload;
    c.sound = d.mix != 3;
    c.ay = true;
    match d.mix {
        1 => {
            c.ay = false;
            c.beeper = false;
        }
        2 => {
            c.rate = 11025;
            c.volume = 30;
        }
        _ => {}
    }
    let mut e: Emu = Emulator::new(settings(&c), DCtx).map_err(|_| "Emulator::new failed".to_string())?;
    e.set_debug_interface(DDbg::default());
    let mut load = String::new();
    if let Some(sna) = &scn.sna {
        let a = d.deliv.make(sna)?;
        match e.load_snapshot(Snapshot::Sna(a)) {
            Ok(()) => load.push_str("sna:ok "),
            Err(err) => load.push_str(&format!("sna:err:{:?} ", err)),
        }
    }
    if let Some(tap) = &scn.tap {
        let a = d.deliv.make(tap)?;
        match e.load_tape(Tape::Tap(a)) {
            Ok(()) => load.push_str("tap:ok"),
            Err(err) => load.push_str(&format!("tap:err:{:?}", err)),
        }
    }
    Ok((e, load))
}

fn sw_set(v: Vec<Duration>) {
    SW_SCRIPT.with(|s| {
        let mut s = s.borrow_mut();
        s.clear();
        s.extend(v);
    });
}
fn sw_len() -> usize {
    SW_SCRIPT.with(|s| s.borrow().len())
}

/// Runs the scenario under the driving. Observations are taken at every boundary of `d.part`.
pub fn run_driving(scn: &Scenario, d: &Driving) -> RunOut {
    let mut out = RunOut::default();
    let r = catch_unwind(AssertUnwindSafe(|| run_inner(scn, d, &mut out)));
    if r.is_err() {
        out.error = Some("panic inside the emulator".into());
    }
    sw_set(vec![]);
    out
}

const GUARD: usize = 4096;

fn run_inner(scn: &Scenario, d: &Driving, out: &mut RunOut) {
    let (mut e, load) = match build(scn, d) {
        Ok(x) => x,
        Err(s) => {
            out.error = Some(s);
            return;
        }
    };
    out.load = load;
    let mut rng = Rng::new(d.seed ^ 0xC16);
    let mut audio = (FNV0, 0u64);
    let mut done = 0usize;
    let mut sound = d.sound;
    e.set_sound(sound);
    apply_events(scn, 0, &mut e);
    let max_calls: u64 = 200_000 + 40_000 * d.frames() as u64;
    let mut after_bp = false;
    for &target in &d.part {
        while done < target {
            let remaining = target - done;
            let stepping = d.step != StepKind::None && done >= d.step_win.0 && done < d.step_win.1;
            let bp_on = !d.bps.is_empty() && done >= d.bp_win.0 && done < d.bp_win.1;
            {
                let dbg = e.debug_interface().unwrap();
                dbg.break_all = stepping && d.step == StepKind::BreakAll;
                // no frame has more than 70908/4 steps: a call that needs more than this never returns on its own
                dbg.budget = (remaining as u64 + 2) * 20_000;
                dbg.call_steps = 0;
                if bp_on {
                    if dbg.bps.is_empty() {
                        dbg.bps = d.bps.iter().copied().collect();
                    }
                } else if !dbg.bps.is_empty() {
                    dbg.bps.clear();
                }
            }
            let use_max = match d.mode {
                ModeKind::Fc => false,
                ModeKind::Max => true,
                ModeKind::Mixed => out.calls % 2 == 1,
            } && !(stepping && d.step == StepKind::Fc0);
            let frames_in_call;
            let info;
            if use_max {
                e.set_speed(EmulationMode::Max);
                let limit_us = rng.range(1, 20_000);
                let limit = Duration::from_micros(limit_us);
                let mut script: Vec<Duration> = vec![];
                for _ in 1..remaining {
                    // readings up to and including the limit do not stop the run (`>` is strict)
                    let v = if rng.chance(1, 4) { limit_us } else { rng.below(limit_us + 1) };
                    script.push(Duration::from_micros(v));
                }
                script.push(Duration::from_micros(limit_us + 1 + rng.below(5000)));
                let dur = Duration::from_nanos(rng.below(1 << 40));
                script.push(dur);
                let base = script.len();
                for _ in 0..GUARD {
                    script.push(Duration::from_secs(3600));
                }
                sw_set(script);
                let res = e.emulate_frames(limit);
                let consumed = base + GUARD - sw_len();
                sw_set(vec![]);
                info = match res {
                    Ok(i) => i,
                    Err(err) => {
                        out.error = Some(format!("emulate_frames: {:?}", err));
                        return;
                    }
                };
                match info.stop_reason {
                    EmulationStopReason::Timeout => {
                        frames_in_call = consumed.saturating_sub(1);
                        if consumed == base && info.duration != dur {
                            out.api.push(format!("duration of a Max call is not the stopwatch reading at frame {}", done));
                        }
                    }
                    EmulationStopReason::Breakpoint => {
                        frames_in_call = consumed.saturating_sub(1) + e.verif_frames_count();
                    }
                    EmulationStopReason::Completed => {
                        out.api.push(format!("Completed returned in Max mode at frame {}", done));
                        frames_in_call = consumed.saturating_sub(1);
                    }
                }
            } else {
                let n = if stepping && d.step == StepKind::Fc0 { 0 } else if d.resume1 && after_bp { 1 } else { remaining };
                e.set_speed(EmulationMode::FrameCount(n));
                let dur = Duration::from_nanos(rng.below(1 << 40));
                let mut script = vec![dur];
                for _ in 0..8 {
                    script.push(Duration::from_secs(3600));
                }
                sw_set(script);
                // in FrameCount mode the limit must be irrelevant: often zero, below every reading
                let limit = if rng.bool() { Duration::ZERO } else { Duration::from_micros(rng.below(30_000)) };
                let res = e.emulate_frames(limit);
                let consumed = 9 - sw_len();
                sw_set(vec![]);
                info = match res {
                    Ok(i) => i,
                    Err(err) => {
                        out.error = Some(format!("emulate_frames: {:?}", err));
                        return;
                    }
                };
                frames_in_call = e.verif_frames_count();
                if consumed != 1 || info.duration != dur {
                    out.api.push(format!("FrameCount call read the stopwatch {} times / wrong duration at frame {}", consumed, done));
                }
                match info.stop_reason {
                    EmulationStopReason::Timeout => out.api.push(format!("Timeout returned in FrameCount mode at frame {}", done)),
                    EmulationStopReason::Completed => {
                        if n > 0 && frames_in_call != n {
                            out.api.push(format!("Completed FrameCount({}) call reports {} frames at frame {}", n, frames_in_call, done));
                        }
                    }
                    EmulationStopReason::Breakpoint => {}
                }
            }
            after_bp = matches!(info.stop_reason, EmulationStopReason::Breakpoint);
            match info.stop_reason {
                EmulationStopReason::Completed => out.stops[0] += 1,
                EmulationStopReason::Timeout => out.stops[1] += 1,
                EmulationStopReason::Breakpoint => {
                    out.stops[2] += 1;
                    if frames_in_call > 0 && done + frames_in_call == target {
                        out.bp_at_boundary += 1;
                    }
                }
            }
            if e.debug_interface().unwrap().exhausted {
                out.api.push(format!(
                    "a call ({}) asked for {} frame(s) executed {} steps without returning (watchdog stop) at frame {}",
                    if use_max { "Max".to_string() } else { "FrameCount".to_string() }, remaining, e.debug_interface().unwrap().call_steps, done));
                out.error = Some("hang".into());
                return;
            }
            done += frames_in_call;
            out.calls += 1;
            if d.resume1 && done < target && frames_in_call > 0 && matches!(info.stop_reason, EmulationStopReason::Completed) {
                // the call that resumed after a breakpoint stop has delivered a frame: the host looks at it
                out.obs.push(observe(&mut e, scn.m128, done, audio));
            }
            if d.drain == Drain::Returns {
                drain_audio(&mut e, &mut audio);
            }
            if out.calls > max_calls {
                out.error = Some(format!("gave up after {} calls at frame {}", out.calls, done));
                return;
            }
        }
        if done != target {
            out.api.push(format!("a call overshot its target: {} frames done, {} requested", done, target));
            out.error = Some("overshoot".into());
            return;
        }
        // host actions at the boundary: observe, drain, toggle sound, inputs
        match d.drain {
            Drain::Every | Drain::Returns => drain_audio(&mut e, &mut audio),
            Drain::Every3 => {
                if target % 3 == 0 {
                    drain_audio(&mut e, &mut audio)
                }
            }
            Drain::Never => {}
        }
        if target == d.frames() {
            drain_audio(&mut e, &mut audio);
        }
        out.obs.push(observe(&mut e, scn.m128, target, audio));
        if std::env::var("ZXH_C16_DEBUG").is_ok() {
            let pc = e.verif_cpu().regs.get_pc();
            let halted = e.verif_cpu().halted;
            let o = out.obs.last().unwrap();
            let tail: Vec<String> = (0x80a0u16..0x80c8).map(|a| format!("{:02x}", e.peek(a))).collect();
            eprintln!("{} k={} pc={:04x} halted={} clocks={} steps={} audio_n={} border={:?} 8f00={:02x}{:02x} 9000={:02x} mem={}", scn.name, target, pc, halted, o.clocks, o.steps, o.audio_n, e.border_color() as u8, e.peek(0x8f01), e.peek(0x8f00), e.peek(0x9000), tail.join(""));
        }
        if d.sound_toggle && target % 4 == 0 {
            sound = !sound;
            e.set_sound(sound);
        }
        apply_events(scn, target, &mut e);
    }
    // end of run: a snapshot save at the same point in every driving must give the same file
    let mut v = Vec::new();
    out.final_sna = match e.save_snapshot(SnapshotRecorder::Sna(VecRec(&mut v))) {
        Ok(()) => fnv1(&v),
        Err(_) => 1,
    };
}


/// Loads `file` as SNA (kind 0) or SCR (kind 1) through `deliv` into a fresh emulator; returns the outcome class
/// and a hash of what the machine looks like afterwards (partial loads included).
pub fn load_only(m128: bool, kind: u8, file: &[u8], deliv: &Deliv) -> Result<(String, u64), String> {
    let mut c = Cfg::new(m128);
    c.rom = true;
    let r = catch_unwind(AssertUnwindSafe(|| -> Result<(String, u64), String> {
        let mut e: Emu = Emulator::new(settings(&c), DCtx).map_err(|_| "Emulator::new failed".to_string())?;
        e.set_debug_interface(DDbg::default());
        let out = match kind {
            0 => e.load_snapshot(Snapshot::Sna(deliv.make(file)?)),
            3 => e.load_snapshot(Snapshot::Szx(deliv.make(file)?)),
            2 => {
                // every 16K page of the set comes through its own asset of the delivery under test
                struct Pages<A>(Vec<A>);
                impl<A: rustzx_core::host::LoadableAsset> rustzx_core::host::RomSet for Pages<A> {
                    type Asset = A;
                    fn format(&self) -> rustzx_core::host::RomFormat {
                        rustzx_core::host::RomFormat::Binary16KPages
                    }
                    fn next_asset(&mut self) -> Option<A> {
                        if self.0.is_empty() { None } else { Some(self.0.remove(0)) }
                    }
                }
                let mut pages = vec![];
                for ch in file.chunks(16384) {
                    pages.push(deliv.make(ch)?);
                }
                e.load_rom(Pages(pages))
            }
            _ => e.load_screen(rustzx_core::host::Screen::Scr(deliv.make(file)?)),
        };
        let outcome = match out {
            Ok(()) => "ok".to_string(),
            Err(err) => format!("err:{:?}", err),
        };
        let o = observe(&mut e, m128, 0, (0, 0));
        let mut h = FNV0;
        for v in [o.regs, o.ram, o.banks, o.screen, o.misc] {
            fnv(&mut h, &v.to_le_bytes());
        }
        Ok((outcome, h))
    }));
    match r {
        Ok(x) => x,
        Err(_) => Ok(("panic".into(), 0)),
    }
}
