//! C16 environment: a host whose tape asset is `rustzx_utils::io::DynamicAsset` (so that every asset
//! implementation can deliver the tape), a step-counting debug interface, scripted assets, hashing.
use crate::host::{Ext, Fb, Sw};
use rustzx_core::{
    error::IoError,
    host::{
        BufferCursor, DataRecorder, DebugInterface, Host, HostContext, LoadableAsset, SeekFrom,
        SeekableAsset,
    },
    Emulator,
};
use rustzx_utils::io::{DynamicAsset, DynamicAssetImpl, FileAsset, GzipAsset};
use std::collections::HashSet;

pub struct DCtx;
impl HostContext<DHost> for DCtx {
    fn frame_buffer_context(&self) {}
}

/// Breakpoints as in `host::Dbg`, plus a count of `check_pc_breakpoint` calls (= `cpu.emulate` calls).
#[derive(Default)]
pub struct DDbg {
    pub break_all: bool,
    pub bps: HashSet<u16>,
    pub steps: u64,
    pub hits: u64,
    /// watchdog: a call that executes more than `budget` steps is stopped (0 = off)
    pub budget: u64,
    pub call_steps: u64,
    pub exhausted: bool,
}

impl DebugInterface for DDbg {
    fn check_pc_breakpoint(&mut self, addr: u16) -> bool {
        self.steps += 1;
        if self.budget > 0 {
            self.call_steps += 1;
            if self.call_steps > self.budget {
                self.exhausted = true;
                return true;
            }
        }
        if self.break_all || self.bps.contains(&addr) {
            self.hits += 1;
            return true;
        }
        false
    }
}

pub struct DHost;
impl Host for DHost {
    type Context = DCtx;
    type TapeAsset = DynamicAsset;
    type FrameBuffer = Fb;
    type EmulationStopwatch = Sw;
    type IoExtender = Ext;
    type DebugInterface = DDbg;
}
pub type Emu = Emulator<DHost>;

/// In-memory asset whose `read` delivers at most `caps[i]` bytes on its i-th call.
/// `cyclic`: the script repeats for ever; otherwise an exhausted script means "no cap".
pub struct SAsset {
    pub data: Vec<u8>,
    pub pos: usize,
    pub caps: Vec<usize>,
    pub cyclic: bool,
    pub eof_zero: bool,
    pub reads: usize,
}

impl SAsset {
    pub fn new(data: Vec<u8>, caps: Vec<usize>, cyclic: bool, eof_zero: bool) -> SAsset {
        SAsset { data, pos: 0, caps, cyclic, eof_zero, reads: 0 }
    }
}

impl LoadableAsset for SAsset {
    fn read(&mut self, buf: &mut [u8]) -> Result<usize, IoError> {
        let i = self.reads;
        self.reads += 1;
        let cap = if self.caps.is_empty() {
            None
        } else if self.cyclic {
            Some(self.caps[i % self.caps.len()])
        } else {
            self.caps.get(i).copied()
        };
        if self.pos >= self.data.len() {
            return if self.eof_zero { Ok(0) } else { Err(IoError::UnexpectedEof) };
        }
        let mut k = buf.len().min(self.data.len() - self.pos);
        if let Some(c) = cap {
            k = k.min(c);
        }
        buf[..k].copy_from_slice(&self.data[self.pos..self.pos + k]);
        self.pos += k;
        Ok(k)
    }
}

impl SeekableAsset for SAsset {
    fn seek(&mut self, pos: SeekFrom) -> Result<usize, IoError> {
        let np = match pos {
            SeekFrom::Start(p) => p as isize,
            SeekFrom::End(p) => self.data.len() as isize + p,
            SeekFrom::Current(p) => self.pos as isize + p,
        };
        if np < 0 {
            return Err(IoError::SeekBeforeStart);
        }
        self.pos = np as usize;
        Ok(self.pos)
    }
}
impl DynamicAssetImpl for SAsset {}
impl DynamicAssetImpl for crate::host::VAsset {}

fn crc32(data: &[u8]) -> u32 {
    let mut c = 0xFFFF_FFFFu32;
    for &b in data {
        c ^= b as u32;
        for _ in 0..8 {
            c = if c & 1 != 0 { (c >> 1) ^ 0xEDB8_8320 } else { c >> 1 };
        }
    }
    !c
}

/// gzip container with stored (uncompressed) deflate blocks of `block` bytes
pub fn gzip_stored(data: &[u8], block: usize) -> Vec<u8> {
    let mut out = vec![0x1f, 0x8b, 8, 0, 0, 0, 0, 0, 0, 3];
    let block = block.clamp(1, 65535);
    if data.is_empty() {
        out.extend_from_slice(&[1, 0, 0, 0xFF, 0xFF]);
    }
    let n = (data.len() + block - 1) / block;
    for (i, ch) in data.chunks(block).enumerate() {
        out.push(if i + 1 == n { 1 } else { 0 });
        out.extend_from_slice(&(ch.len() as u16).to_le_bytes());
        out.extend_from_slice(&(!(ch.len() as u16)).to_le_bytes());
        out.extend_from_slice(ch);
    }
    out.extend_from_slice(&crc32(data).to_le_bytes());
    out.extend_from_slice(&(data.len() as u32).to_le_bytes());
    out
}

/// How a file reaches the emulator.
#[derive(Clone, Debug, PartialEq)]
pub enum Deliv {
    /// `BufferCursor<Vec<u8>>`
    Whole,
    /// `host::VAsset` (whole reads, `Err` at EOF)
    VWhole,
    /// short reads of 1..=k bytes (script derived from `seed`), `z`: `Ok(0)` at EOF
    Short { k: usize, z: bool, seed: u64 },
    /// `rustzx_utils::io::GzipAsset` over a stored-block gzip stream
    Gzip,
    /// `rustzx_utils::io::FileAsset` over a real temporary file
    File,
}

impl Deliv {
    pub fn text(&self) -> String {
        match self {
            Deliv::Whole => "whole".into(),
            Deliv::VWhole => "vwhole".into(),
            Deliv::Short { k, z, seed } => format!("short:{}:{}:{}", k, if *z { "z" } else { "e" }, seed),
            Deliv::Gzip => "gzip".into(),
            Deliv::File => "file".into(),
        }
    }
    pub fn class(&self) -> &'static str {
        match self {
            Deliv::Whole => "whole",
            Deliv::VWhole => "vasset",
            Deliv::Short { k: 1, z: false, .. } => "short1",
            Deliv::Short { k: 1, z: true, .. } => "short1-eofzero",
            Deliv::Short { z: false, .. } => "short",
            Deliv::Short { z: true, .. } => "short-eofzero",
            Deliv::Gzip => "gzip",
            Deliv::File => "file",
        }
    }
    pub fn parse(s: &str) -> Option<Deliv> {
        let t: Vec<&str> = s.split(':').collect();
        match t.as_slice() {
            ["whole"] => Some(Deliv::Whole),
            ["vwhole"] => Some(Deliv::VWhole),
            ["gzip"] => Some(Deliv::Gzip),
            ["file"] => Some(Deliv::File),
            ["short", k, z, seed] => Some(Deliv::Short {
                k: k.parse().ok()?,
                z: *z == "z",
                seed: seed.parse().ok()?,
            }),
            _ => None,
        }
    }
    pub fn make(&self, data: &[u8]) -> Result<DynamicAsset, String> {
        Ok(match self {
            Deliv::Whole => DynamicAsset::from(BufferCursor::new(data.to_vec())),
            Deliv::VWhole => DynamicAsset::from(crate::host::VAsset::new(data.to_vec())),
            Deliv::Short { k, z, seed } => {
                let mut r = crate::util::Rng::new(*seed);
                let caps: Vec<usize> = (0..61).map(|_| r.range(1, (*k).max(1) as u64) as usize).collect();
                DynamicAsset::from(SAsset::new(data.to_vec(), caps, true, *z))
            }
            Deliv::Gzip => {
                let gz = gzip_stored(data, 1000);
                DynamicAsset::from(GzipAsset::new(&gz[..]).map_err(|e| format!("gzip: {}", e))?)
            }
            Deliv::File => DynamicAsset::from(FileAsset::from(temp_file(data)?)),
        })
    }
}

/// Writes `data` to a fresh file under /tmp/determ, reopens it for reading and unlinks it.
pub fn temp_file(data: &[u8]) -> Result<std::fs::File, String> {
    use std::io::Write;
    use std::sync::atomic::{AtomicU64, Ordering};
    static N: AtomicU64 = AtomicU64::new(0);
    let dir = std::path::Path::new("/tmp/determ");
    std::fs::create_dir_all(dir).map_err(|e| e.to_string())?;
    let path = dir.join(format!("c16-{}-{}.bin", std::process::id(), N.fetch_add(1, Ordering::SeqCst)));
    {
        let mut f = std::fs::File::create(&path).map_err(|e| e.to_string())?;
        f.write_all(data).map_err(|e| e.to_string())?;
    }
    let f = std::fs::File::open(&path).map_err(|e| e.to_string())?;
    let _ = std::fs::remove_file(&path);
    Ok(f)
}

pub struct VecRec<'a>(pub &'a mut Vec<u8>);
impl<'a> DataRecorder for VecRec<'a> {
    fn write(&mut self, buf: &[u8]) -> Result<usize, IoError> {
        self.0.extend_from_slice(buf);
        Ok(buf.len())
    }
}

pub fn fnv(h: &mut u64, bytes: &[u8]) {
    for &b in bytes {
        *h ^= b as u64;
        *h = h.wrapping_mul(0x100_0000_01b3);
    }
}
pub const FNV0: u64 = 0xcbf2_9ce4_8422_2325;
pub fn fnv1(bytes: &[u8]) -> u64 {
    let mut h = FNV0;
    fnv(&mut h, bytes);
    h
}
