//! C16 scenarios: hand-assembled Z80 programs, SNA/TAP images, host event scripts.
use rustzx_core::zx::keys::ZXKey;
use std::collections::HashMap;

/// tiny two-pass assembler for the hand-written programs
pub struct Asm {
    pub org: u16,
    pub code: Vec<u8>,
    labels: HashMap<String, u16>,
    fix16: Vec<(usize, String)>,
}

impl Asm {
    pub fn new(org: u16) -> Asm {
        Asm { org, code: vec![], labels: HashMap::new(), fix16: vec![] }
    }
    pub fn here(&self) -> u16 {
        self.org + self.code.len() as u16
    }
    pub fn label(&mut self, n: &str) {
        self.labels.insert(n.to_string(), self.here());
    }
    pub fn db(&mut self, b: &[u8]) {
        self.code.extend_from_slice(b);
    }
    /// opcode bytes followed by the 16-bit address of a label
    pub fn op16(&mut self, ops: &[u8], n: &str) {
        self.db(ops);
        self.fix16.push((self.code.len(), n.to_string()));
        self.db(&[0, 0]);
    }
    pub fn addr(&self, n: &str) -> u16 {
        self.labels[n]
    }
    pub fn finish(mut self) -> (Vec<u8>, HashMap<String, u16>) {
        for (pos, n) in self.fix16.clone() {
            let a = self.labels[&n].to_le_bytes();
            self.code[pos] = a[0];
            self.code[pos + 1] = a[1];
        }
        (self.code, self.labels)
    }
}

/// Diagnostic program (48K and 128K): IM2 interrupts, HALT, keyboard IN, contended screen writes,
/// border/beeper OUT, 7FFD paging + writes into the paged bank, AY select/write/read-back,
/// floating-bus read. Code at 0x8000, vector table 0xBE00.., handler jump at 0xBDBD, stack 0xBD00.
pub fn diag_program() -> (Vec<u8>, HashMap<String, u16>) {
    let mut a = Asm::new(0x8000);
    a.db(&[0xF3, 0x31, 0x00, 0xBD, 0x3E, 0xBE, 0xED, 0x47, 0xED, 0x5E]);
    a.db(&[0x21, 0x00, 0xBE, 0x11, 0x01, 0xBE, 0x01, 0x00, 0x01, 0x36, 0xBD, 0xED, 0xB0]);
    a.db(&[0x3E, 0xC3, 0x32, 0xBD, 0xBD]);
    a.op16(&[0x21], "isr");
    a.db(&[0x22, 0xBE, 0xBD, 0x01, 0xFE, 0xFE, 0xFB]);
    a.label("loop");
    a.db(&[0xED, 0x78]); // IN A,(C)
    a.op16(&[0x2A], "ptr"); // LD HL,(ptr)
    a.db(&[0xAE, 0x85, 0x77, 0x23, 0x7C, 0xFE, 0x5B, 0x20, 0x02, 0x26, 0x40]);
    a.op16(&[0x22], "ptr");
    a.op16(&[0x3A], "cnt");
    a.db(&[0x85, 0xE6, 0x1F, 0xD3, 0xFE, 0xCB, 0x00]); // ADD A,L; AND 1F; OUT (FE),A; RLC B
    a.label("page");
    a.db(&[0xC5]); // PUSH BC
    a.op16(&[0x3A], "cnt");
    a.db(&[0xE6, 0x07, 0x57]);
    a.op16(&[0x3A], "cnt");
    a.db(&[0xE6, 0x08, 0xB2, 0xF6, 0x10, 0x01, 0xFD, 0x7F, 0xED, 0x79]); // OUT (7FFD),A
    a.db(&[0x7D, 0x32, 0x00, 0xC0, 0x3A, 0x01, 0xC0, 0x3C, 0x32, 0x01, 0xC0]);
    a.label("ay");
    a.op16(&[0x3A], "cnt");
    a.db(&[0xE6, 0x0F, 0x01, 0xFD, 0xFF, 0xED, 0x79, 0x06, 0xBF, 0xED, 0x69, 0x06, 0xFF, 0xED, 0x78]);
    a.op16(&[0x2A], "acc");
    a.db(&[0x85, 0x6F, 0x24]);
    a.op16(&[0x22], "acc");
    a.db(&[0xC1]); // POP BC
    a.db(&[0xDB, 0xFF]); // IN A,(FF)
    a.op16(&[0x32], "fb");
    a.op16(&[0x3A], "cnt");
    a.db(&[0xE6, 0x07]);
    a.op16(&[0xC2], "loop"); // JP NZ,loop
    a.label("halt");
    a.db(&[0x76]);
    a.op16(&[0xC3], "loop");
    a.label("isr");
    a.db(&[0xF5, 0xE5]);
    a.op16(&[0x21], "cnt");
    a.db(&[0x34, 0xE1, 0xF1, 0xFB, 0xED, 0x4D]);
    a.label("ptr");
    a.db(&[0x00, 0x40]);
    a.label("cnt");
    a.db(&[0x00]);
    a.label("acc");
    a.db(&[0x00, 0x00]);
    a.label("fb");
    a.db(&[0x00]);
    a.finish()
}

/// Draws behind the beam: once per frame (IM 1, HALT), after a delay that lets the beam pass the top of the
/// picture, a bitmap byte and an attribute byte of the first character row are changed; after a second
/// delay a byte of the middle third. Breakpoints right after the writes.
pub fn beam_program() -> (Vec<u8>, HashMap<String, u16>) {
    let mut a = Asm::new(0x8000);
    a.db(&[0x31, 0x00, 0xBD, 0xFD, 0x21, 0x3A, 0x5C, 0xED, 0x56, 0xFB]);
    a.label("loop");
    a.db(&[0x76]);
    a.db(&[0x01, 0xE8, 0x03]); // LD BC,1000: 26 T per pass
    a.label("d1");
    a.db(&[0x0B, 0x78, 0xB1, 0x20, 0xFB]);
    a.db(&[0x21, 0x00, 0x40, 0x34, 0x21, 0x00, 0x58, 0x34]);
    a.label("bp1");
    a.db(&[0x00]);
    // the other 128K screen from here on (bit 3 of 0x7FFD toggled while the beam is inside the picture, ROM 1 kept);
    // on the 48K the port belongs to nobody
    a.op16(&[0x3A], "tog"); // LD A,(tog)
    a.db(&[0xEE, 0x08]); // XOR 8
    a.op16(&[0x32], "tog"); // LD (tog),A
    a.db(&[0xF6, 0x10, 0x01, 0xFD, 0x7F, 0xED, 0x79]); // OR 10h ; LD BC,7FFDh ; OUT (C),A
    a.db(&[0x01, 0x20, 0x03]); // LD BC,800
    a.label("d2");
    a.db(&[0x0B, 0x78, 0xB1, 0x20, 0xFB]);
    a.db(&[0x21, 0x10, 0x48, 0x34]);
    a.label("bp2");
    a.db(&[0x00]);
    a.op16(&[0xC3], "loop");
    a.label("tog");
    a.db(&[0x00]);
    a.finish()
}

/// Calls the ROM's LD-BYTES (0x0556) for one or two blocks, stores the resulting AF, then EI/HALT loop.
pub fn tape_program(len1: u16, len2: Option<u16>) -> (Vec<u8>, HashMap<String, u16>) {
    let mut a = Asm::new(0x8000);
    a.db(&[0x31, 0x00, 0xBD, 0xFD, 0x21, 0x3A, 0x5C, 0xED, 0x56]);
    a.db(&[0xDD, 0x21, 0x00, 0x90, 0x11]);
    a.db(&len1.to_le_bytes());
    a.db(&[0x3E, 0xFF, 0x37]);
    a.label("call1");
    a.db(&[0xCD, 0x56, 0x05]);
    a.label("ret1");
    a.db(&[0xF5, 0xE1, 0x22, 0x00, 0x8F]);
    if let Some(l2) = len2 {
        a.db(&[0xDD, 0x21, 0x00, 0xA0, 0x11]);
        a.db(&l2.to_le_bytes());
        a.db(&[0x3E, 0xFF, 0x37, 0xCD, 0x56, 0x05]);
        a.label("ret2");
        a.db(&[0xF5, 0xE1, 0x22, 0x02, 0x8F]);
    }
    a.label("done");
    a.db(&[0xFB, 0x76, 0x18, 0xFC]);
    a.finish()
}

/// 48K SNA: 27-byte header + RAM 0x4000..0xFFFF, PC on the stack.
pub fn sna48(code: &[u8], org: u16, pc: u16, sp: u16, iy: u16, fill_seed: u64) -> Vec<u8> {
    let mut ram = vec![0u8; 49152];
    let mut r = crate::util::Rng::new(fill_seed);
    // deterministic non-trivial screen + some data
    for b in ram[..6912].iter_mut() {
        *b = r.u8();
    }
    let o = org as usize - 0x4000;
    ram[o..o + code.len()].copy_from_slice(code);
    let sp2 = sp.wrapping_sub(2);
    let s = sp2 as usize - 0x4000;
    ram[s] = pc as u8;
    ram[s + 1] = (pc >> 8) as u8;
    let mut f = sna_header(sp2, iy);
    f.extend_from_slice(&ram);
    f
}

fn sna_header(sp: u16, iy: u16) -> Vec<u8> {
    let mut h = vec![0u8; 27];
    h[0] = 0x3F; // I
    h[1..9].copy_from_slice(&[0x11, 0x22, 0x33, 0x44, 0x55, 0x66, 0x77, 0x88]); // HL' DE' BC' AF'
    h[9..15].copy_from_slice(&[0x01, 0x02, 0x03, 0x04, 0x05, 0x06]); // HL DE BC
    h[15..17].copy_from_slice(&iy.to_le_bytes());
    h[17..19].copy_from_slice(&0x1234u16.to_le_bytes()); // IX
    h[19] = 0; // IFF2 off
    h[20] = 0x21; // R
    h[21..23].copy_from_slice(&[0x00, 0xA5]); // AF
    h[23..25].copy_from_slice(&sp.to_le_bytes());
    h[25] = 1; // IM 1
    h[26] = 5; // border
    h
}

/// 128K SNA: header, banks 5, 2, n(=0), PC, 7FFD (0x10), TR-DOS 0, banks 1,3,4,6,7.
pub fn sna128(code: &[u8], org: u16, pc: u16, sp: u16, iy: u16, fill_seed: u64) -> Vec<u8> {
    let mut r = crate::util::Rng::new(fill_seed);
    let mut banks: Vec<Vec<u8>> = (0..8).map(|_| vec![0u8; 16384]).collect();
    for b in banks[5][..6912].iter_mut() {
        *b = r.u8();
    }
    for b in banks[7][..6912].iter_mut() {
        *b = r.u8();
    }
    for (i, bank) in banks.iter_mut().enumerate() {
        bank[0x100] = i as u8 + 0x50;
    }
    assert!((0x8000..0xC000).contains(&org));
    let o = org as usize - 0x8000;
    banks[2][o..o + code.len()].copy_from_slice(code);
    let mut f = sna_header(sp, iy);
    f.extend_from_slice(&banks[5]);
    f.extend_from_slice(&banks[2]);
    f.extend_from_slice(&banks[0]);
    f.extend_from_slice(&pc.to_le_bytes());
    f.push(0x10);
    f.push(0);
    for i in [1usize, 3, 4, 6, 7] {
        f.extend_from_slice(&banks[i]);
    }
    f
}

pub fn tap_block(flag: u8, data: &[u8]) -> Vec<u8> {
    let mut b = vec![flag];
    b.extend_from_slice(data);
    let x = b.iter().fold(0u8, |a, v| a ^ v);
    b.push(x);
    let mut out = (b.len() as u16).to_le_bytes().to_vec();
    out.extend_from_slice(&b);
    out
}

pub const KEYS: [ZXKey; 8] = [
    ZXKey::P, ZXKey::N1, ZXKey::Enter, ZXKey::Space, ZXKey::A, ZXKey::SymShift, ZXKey::Shift, ZXKey::N0,
];

#[derive(Clone, Copy, Debug)]
pub enum HostEv {
    Key(usize, bool),
    Play,
}

#[derive(Clone)]
pub struct Scenario {
    pub name: &'static str,
    pub m128: bool,
    /// emulate this many frames (quick, thorough)
    pub frames: (usize, usize),
    pub sna: Option<Vec<u8>>,
    pub tap: Option<Vec<u8>>,
    pub fastload: bool,
    /// host inputs applied at frame boundaries (frame number = completed frames before the input)
    pub events: Vec<(usize, HostEv)>,
    /// useful breakpoint addresses
    pub bp_addrs: Vec<u16>,
    /// how many drivings to spend on it in the quick tier
    pub weight: usize,
}

pub fn scenarios() -> Vec<Scenario> {
    let mut v = vec![];
    let keys = |at: usize| -> Vec<(usize, HostEv)> {
        vec![
            (at, HostEv::Key(0, true)),
            (at + 3, HostEv::Key(0, false)),
            (at + 5, HostEv::Key(1, true)),
            (at + 5, HostEv::Key(6, true)),
            (at + 9, HostEv::Key(1, false)),
            (at + 9, HostEv::Key(6, false)),
            (at + 11, HostEv::Key(2, true)),
            (at + 14, HostEv::Key(2, false)),
        ]
    };
    v.push(Scenario {
        name: "boot48",
        m128: false,
        frames: (112, 400),
        sna: None,
        tap: None,
        fastload: false,
        events: keys(94),
        bp_addrs: vec![0x0038, 0x02BF, 0x11DA, 0x0010, 0x15E6],
        weight: 18,
    });
    v.push(Scenario {
        name: "boot128",
        m128: true,
        frames: (60, 400),
        sna: None,
        tap: None,
        fastload: false,
        events: keys(40),
        bp_addrs: vec![0x0038, 0x0066, 0x00C7, 0x2653],
        weight: 18,
    });
    let (code, lab) = diag_program();
    let bps = vec![lab["loop"], lab["isr"], lab["halt"], lab["page"], lab["ay"], 0xBDBD];
    let dkeys = vec![
        (2, HostEv::Key(4, true)),
        (5, HostEv::Key(3, true)),
        (7, HostEv::Key(4, false)),
        (12, HostEv::Key(7, true)),
        (13, HostEv::Key(3, false)),
        (20, HostEv::Key(7, false)),
    ];
    v.push(Scenario {
        name: "diag48",
        m128: false,
        frames: (26, 200),
        sna: Some(sna48(&code, 0x8000, 0x8000, 0xBD00, 0x5C3A, 7)),
        tap: None,
        fastload: false,
        events: dkeys.clone(),
        bp_addrs: bps.clone(),
        weight: 52,
    });
    v.push(Scenario {
        name: "diag128",
        m128: true,
        frames: (26, 200),
        sna: Some(sna128(&code, 0x8000, 0x8000, 0xBD00, 0x5C3A, 9)),
        tap: None,
        fastload: false,
        events: dkeys,
        bp_addrs: bps,
        weight: 52,
    });
    let (bcode, bl) = beam_program();
    for m128 in [false, true] {
        v.push(Scenario {
            name: if m128 { "beam128" } else { "beam48" },
            m128,
            frames: (10, 60),
            sna: Some(if m128 { sna128(&bcode, 0x8000, 0x8000, 0xBD00, 0x5C3A, 21) } else { sna48(&bcode, 0x8000, 0x8000, 0xBD00, 0x5C3A, 21) }),
            tap: None,
            fastload: false,
            events: vec![(4, HostEv::Key(4, true)), (6, HostEv::Key(4, false))],
            bp_addrs: vec![bl["bp1"], bl["bp2"], bl["d2"], bl["loop"]],
            weight: 40,
        });
    }
    // tape: fast load of two blocks (the second longer than the 128-byte tape buffer)
    let mut r = crate::util::Rng::new(4242);
    let d1 = r.bytes(40);
    let d2 = r.bytes(300);
    let (tcode, tl) = tape_program(40, Some(300));
    let mut tap = tap_block(0xFF, &d1);
    tap.extend_from_slice(&tap_block(0xFF, &d2));
    v.push(Scenario {
        name: "tape-fast",
        m128: false,
        frames: (8, 30),
        sna: Some(sna48(&tcode, 0x8000, 0x8000, 0xBD00, 0x5C3A, 11)),
        tap: Some(tap.clone()),
        fastload: true,
        events: vec![(3, HostEv::Key(3, true)), (5, HostEv::Key(3, false))],
        bp_addrs: vec![0x0556, 0x056B, tl["ret1"], tl["done"], 0x0038],
        weight: 52,
    });
    // tape whose second block is cut off inside its first buffer-load: every driving and delivery must fail alike
    let cut = tap_block(0xFF, &d1).len() + 2 + 57;
    v.push(Scenario {
        name: "tape-trunc",
        m128: false,
        frames: (5, 12),
        sna: Some(sna48(&tcode, 0x8000, 0x8000, 0xBD00, 0x5C3A, 11)),
        tap: Some(tap[..cut].to_vec()),
        fastload: true,
        events: vec![],
        bp_addrs: vec![0x0556, 0x056B, tl["ret1"]],
        weight: 26,
    });
    // tape: real-time load of the first block through the ROM's edge loop
    let (scode, sl) = tape_program(40, None);
    v.push(Scenario {
        name: "tape-slow",
        m128: false,
        frames: (124, 420),
        sna: Some(sna48(&scode, 0x8000, 0x8000, 0xBD00, 0x5C3A, 13)),
        tap: Some(tap),
        fastload: false,
        events: vec![(1, HostEv::Play), (60, HostEv::Key(4, true)), (62, HostEv::Key(4, false))],
        bp_addrs: vec![0x05E3, 0x05CA, sl["ret1"], sl["done"]],
        weight: 26,
    });
    v
}
