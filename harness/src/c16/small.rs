//! C16 model correspondences: (1) the loop logic of `emulate_frames` against the Lean loop model on a
//! timing-exact toy machine, (2) `read_exact`/`seek` of every asset implementation against the model.
use super::env::*;
use crate::host::{settings, Cfg, SW_SCRIPT};
use crate::util::*;
use rustzx_core::{
    error::IoError,
    host::{BufferCursor, LoadableAsset, SeekFrom, SeekableAsset},
    EmulationMode, EmulationStopReason, Emulator,
};
use rustzx_utils::io::{DynamicAsset, FileAsset, GzipAsset};
use std::collections::HashMap;
use std::panic::{catch_unwind, AssertUnwindSafe};
use std::time::Duration;

/// fixed-length instructions (no flags-dependent timing, no writes near the code)
const MENU: [(&[u8], &[usize]); 14] = [
    (&[0x00], &[4]),                   // NOP
    (&[0x3E, 0x5A], &[7]),             // LD A,n
    (&[0x01, 0x34, 0x12], &[10]),      // LD BC,nn
    (&[0x23], &[6]),                   // INC HL
    (&[0x09], &[11]),                  // ADD HL,BC
    (&[0x32, 0x00, 0x90], &[13]),      // LD (9000),A
    (&[0xDD, 0x7E, 0x05], &[19]),      // LD A,(IX+5)
    (&[0xDD, 0xCB, 0x07, 0x06], &[23]), // RLC (IX+7)
    (&[0xE3], &[19]),                  // EX (SP),HL
    (&[0x2A, 0x10, 0x90], &[16]),      // LD HL,(9010)
    (&[0xDD, 0x00], &[8]),             // DD NOP
    (&[0xED, 0x00], &[8]),             // undefined ED
    (&[0xDD, 0xFD, 0x00], &[8, 4]),    // prefix chain: two `emulate` steps
    (&[0xF3], &[4]),                   // DI
];

/// guard readings appended to every stopwatch script (model and real code alike): 7200 s
const GUARD_NS: u64 = 7_200_000_000_000;

#[derive(Clone, Debug)]
pub struct ToyCall {
    pub max: bool,
    pub n: usize,
    pub limit_ns: u64,
    pub sw_ns: Vec<u64>,
    pub bps: Vec<usize>,
    pub bpall: bool,
}

#[derive(Clone, Debug)]
pub struct ToyCase {
    pub m128: bool,
    pub prog: Vec<usize>,
    pub clocks0: usize,
    pub calls: Vec<ToyCall>,
}

impl ToyCase {
    pub fn text(&self) -> String {
        let calls: Vec<String> = self
            .calls
            .iter()
            .map(|c| {
                format!(
                    "{}:{}:{}:{}:{}:{}",
                    if c.max { "max" } else { "fc" },
                    c.n,
                    c.limit_ns,
                    if c.sw_ns.is_empty() { "-".into() } else { c.sw_ns.iter().map(|x| x.to_string()).collect::<Vec<_>>().join(",") },
                    if c.bps.is_empty() { "-".into() } else { c.bps.iter().map(|x| x.to_string()).collect::<Vec<_>>().join(",") },
                    c.bpall as u8
                )
            })
            .collect();
        format!(
            "toy m128={} prog={} clocks0={} calls={}",
            self.m128 as u8,
            self.prog.iter().map(|x| x.to_string()).collect::<Vec<_>>().join(","),
            self.clocks0,
            calls.join(";")
        )
    }
    pub fn parse(s: &str) -> Option<ToyCase> {
        let mut t = ToyCase { m128: false, prog: vec![], clocks0: 0, calls: vec![] };
        let list = |v: &str| -> Option<Vec<u64>> {
            if v == "-" { Some(vec![]) } else { v.split(',').map(|x| x.parse().ok()).collect() }
        };
        for tok in s.split_whitespace().skip(1) {
            let (k, v) = tok.split_once('=')?;
            match k {
                "m128" => t.m128 = v == "1",
                "prog" => t.prog = list(v)?.into_iter().map(|x| x as usize).collect(),
                "clocks0" => t.clocks0 = v.parse().ok()?,
                "calls" => {
                    for c in v.split(';') {
                        let f: Vec<&str> = c.split(':').collect();
                        if f.len() != 6 {
                            return None;
                        }
                        t.calls.push(ToyCall {
                            max: f[0] == "max",
                            n: f[1].parse().ok()?,
                            limit_ns: f[2].parse().ok()?,
                            sw_ns: list(f[3])?,
                            bps: list(f[4])?.into_iter().map(|x| x as usize).collect(),
                            bpall: f[5] == "1",
                        });
                    }
                }
                _ => return None,
            }
        }
        if t.prog.is_empty() || t.prog.iter().any(|&i| i >= MENU.len()) {
            return None;
        }
        Some(t)
    }
}

pub struct ToyOutcome {
    pub kind: Option<Kind>,
    pub what: String,
    pub implementation: String,
    pub expected: String,
    pub classes: Vec<String>,
}

/// Runs one toy case on the real emulator and on the model; returns the first disagreement.
pub fn toy_run(tc: &ToyCase, model: &mut Model) -> ToyOutcome {
    let mut res = ToyOutcome { kind: None, what: String::new(), implementation: String::new(), expected: String::new(), classes: vec![] };
    // program image, step table, pc -> index of the next step
    let mut code: Vec<u8> = vec![];
    let mut table: Vec<usize> = vec![];
    let mut pc_of_step: Vec<u16> = vec![];
    for &i in &tc.prog {
        let (bytes, lens) = MENU[i];
        let at = 0x8000 + code.len() as u16;
        if lens.len() == 2 {
            pc_of_step.push(at);
            pc_of_step.push(at + 2);
        } else {
            pc_of_step.push(at);
        }
        table.extend_from_slice(lens);
        code.extend_from_slice(bytes);
    }
    pc_of_step.push(0x8000 + code.len() as u16);
    table.push(10);
    code.extend_from_slice(&[0xC3, 0x00, 0x80]);
    let idx_of: HashMap<u16, usize> = pc_of_step.iter().enumerate().map(|(i, p)| (*p, i)).collect();
    let l = if tc.m128 { 70908 } else { 69888 };

    let mut lines = vec![
        format!("toy {:x} {}", l, table.iter().map(|t| format!("{:x}", t)).collect::<Vec<_>>().join(" ")),
        format!("state 0 {:x}", tc.clocks0),
    ];
    for c in &tc.calls {
        lines.push(format!("bps {}", c.bps.iter().map(|b| format!("{:x}", b)).collect::<Vec<_>>().join(" ")).trim_end().to_string());
        lines.push(format!("bpall {}", c.bpall as u8));
        lines.push(format!(
            "call {} {:x} {:x} {:x} {}",
            if c.max { "max" } else { "fc" },
            c.n,
            c.limit_ns,
            2_000_000,
            c.sw_ns.iter().copied().chain(std::iter::repeat(GUARD_NS).take(64)).map(|x| format!("{:x}", x)).collect::<Vec<_>>().join(" ")
        ));
    }
    let answers = model.ask_many(&lines);

    let real = catch_unwind(AssertUnwindSafe(|| {
        let mut cfg = Cfg::new(tc.m128);
        cfg.rom = false;
        let mut e: Emu = Emulator::new(settings(&cfg), DCtx).ok().unwrap();
        e.set_debug_interface(DDbg::default());
        for (i, b) in code.iter().enumerate() {
            e.verif_write_mem(0x8000 + i as u16, *b, 0);
        }
        {
            let c = e.verif_cpu();
            c.regs.set_pc(0x8000);
            c.regs.set_sp(0x9800);
            c.regs.set_ix(0x9080);
            c.regs.set_hl(0x9100);
        }
        e.verif_set_frame_clocks(tc.clocks0);
        let mut obs: Vec<String> = vec![];
        let mut total_frames = 0usize;
        for c in &tc.calls {
            {
                let d = e.debug_interface().unwrap();
                d.break_all = c.bpall;
                d.budget = 200_000;
                d.call_steps = 0;
                d.bps = c.bps.iter().filter_map(|i| pc_of_step.get(*i).copied()).collect();
            }
            e.set_speed(if c.max { EmulationMode::Max } else { EmulationMode::FrameCount(c.n) });
            let before = e.debug_interface().unwrap().steps;
            let mut script: Vec<Duration> = c.sw_ns.iter().map(|n| Duration::from_nanos(*n)).collect();
            let base = script.len();
            for _ in 0..64 {
                script.push(Duration::from_nanos(GUARD_NS));
            }
            SW_SCRIPT.with(|s| {
                let mut s = s.borrow_mut();
                s.clear();
                s.extend(script);
            });
            let r = e.emulate_frames(Duration::from_nanos(c.limit_ns));
            let left = SW_SCRIPT.with(|s| s.borrow().len());
            SW_SCRIPT.with(|s| s.borrow_mut().clear());
            let measures = base + 64 - left;
            let steps = e.debug_interface().unwrap().steps - before;
            let pc = e.verif_cpu().regs.get_pc();
            let idx = idx_of.get(&pc).copied().unwrap_or(0xFFFF);
            if e.debug_interface().unwrap().exhausted {
                obs.push(format!("hang: no return within 200000 steps (mode {} n {})", if c.max { "max" } else { "fc" }, c.n));
                break;
            }
            let (reason, dur) = match r {
                Ok(i) => (
                    match i.stop_reason {
                        EmulationStopReason::Completed => "completed",
                        EmulationStopReason::Timeout => "timeout",
                        EmulationStopReason::Breakpoint => "breakpoint",
                    },
                    i.duration.as_nanos() as u64,
                ),
                Err(_) => ("error", 0),
            };
            let passed = e.verif_frames_count();
            total_frames += if c.max { measures.saturating_sub(1) + if reason == "breakpoint" { passed } else { 0 } } else { passed };
            let sw_left = left;
            obs.push(format!(
                "{} {:06x} {:04x} {:05x} {:04x} {:04x} {:012x} {:04x} {:04x}",
                reason, steps, idx, e.verif_frame_clocks(), passed, measures, dur, sw_left, total_frames
            ));
        }
        obs
    }));
    let obs = match real {
        Ok(o) => o,
        Err(_) => {
            res.kind = Some(Kind::ModelMismatch);
            res.what = "panic inside emulate_frames on the toy program".into();
            return res;
        }
    };
    // model answers: 2 setup lines, then per call bps, bpall, call
    for (ci, c) in tc.calls.iter().enumerate() {
        let m = &answers[2 + 3 * ci + 2];
        let f: Vec<&str> = m.split_whitespace().collect();
        if f.len() < 10 {
            res.kind = Some(Kind::ModelMismatch);
            res.what = format!("driver answered '{}'", m);
            return res;
        }
        let model_obs = f[..9].join(" ");
        let verdict = f[9..].join(" ");
        res.classes.push(format!(
            "toy/{}/{}{}{}",
            if c.max { "max" } else if c.n == 0 { "fc0" } else if c.n == 1 { "fc1" } else { "fcN" },
            f[0],
            if c.bpall { "/bpall" } else if !c.bps.is_empty() { "/bp" } else { "" },
            if verdict == "ok" { "/boundary" } else { "" }
        ));
        if verdict != "ok" && verdict != "mid" {
            res.kind = Some(Kind::ModelMismatch);
            res.what = format!("the model itself contradicts slicing_irrelevant (call {}): {}", ci, verdict);
            res.expected = verdict;
            return res;
        }
        if ci >= obs.len() {
            break;
        }
        if obs[ci].starts_with("hang") {
            res.kind = Some(Kind::SpecViolated);
            res.what = format!("call {} of the toy driving does not return although the model (and the time/frame bound) says it must", ci);
            res.implementation = obs[ci].clone();
            res.expected = model_obs;
            return res;
        }
        if obs[ci] != model_obs {
            // adjudicate with the spec where it decides: state at a frame boundary = runToFrame K
            let of: Vec<&str> = obs[ci].split_whitespace().collect();
            let at_boundary = (of[0] == "timeout" && c.max) || (of[0] == "completed" && !c.max && c.n >= 1);
            let mut kind = Kind::ModelMismatch;
            let mut exp = model_obs.clone();
            if at_boundary {
                let want = model.ask(&format!("want {}", of[8]));
                let have = format!("{} {}", of[2], of[3]);
                if want != have {
                    kind = Kind::SpecViolated;
                    exp = format!("runToFrame {} = (idx clocks) {}", of[8], want);
                }
            }
            res.kind = Some(kind);
            res.what = format!("call {} of the toy driving: emulate_frames and the loop model disagree (reason steps idx clocks passed measures duration swLeft K)", ci);
            res.implementation = obs[ci].clone();
            res.expected = exp;
            return res;
        }
    }
    res
}

pub fn toy_gen(r: &mut Rng) -> ToyCase {
    let m128 = r.chance(1, 3);
    let l = if m128 { 70908 } else { 69888 };
    let n = r.range(2, 9) as usize;
    let prog: Vec<usize> = (0..n).map(|_| r.below(MENU.len() as u64) as usize).collect();
    let steps: usize = prog.iter().map(|&i| MENU[i].1.len()).sum::<usize>() + 1;
    // start close to the end of the frame half of the time (boundary effects), never backwards
    let clocks0 = if r.bool() { l - 1 - r.below(60) as usize } else { r.below(l as u64) as usize };
    let ncalls = r.range(2, 7) as usize;
    let mut calls = vec![];
    for _ in 0..ncalls {
        let max = r.chance(2, 5);
        let n = if r.chance(1, 5) { 0 } else { r.range(1, 3) as usize };
        let limit_ns = r.range(0, 1_000_000);
        let mut sw = vec![];
        if max {
            let frames = r.range(1, 3);
            for _ in 1..frames {
                sw.push(if r.chance(1, 3) { limit_ns } else { r.below(limit_ns + 1) });
            }
            sw.push(limit_ns + 1 + r.below(1000));
            sw.push(r.below(1 << 30));
        } else if r.chance(3, 4) {
            sw.push(r.below(1 << 30));
        }
        let bps: Vec<usize> = if r.chance(1, 3) { (0..r.range(1, 2)).map(|_| r.below(steps as u64) as usize).collect() } else { vec![] };
        let bpall = r.chance(1, 8);
        calls.push(ToyCall { max, n, limit_ns, sw_ns: sw, bps, bpall });
    }
    ToyCase { m128, prog, clocks0, calls }
}

// ---------------------------------------------------------------------------------------------
// read_exact / seek

#[derive(Clone, Debug)]
pub struct RxCase {
    /// s = scripted asset, d = the same behind DynamicAsset, b = BufferCursor, g = GzipAsset, f = FileAsset, v = VAsset
    pub kind: char,
    pub data: Vec<u8>,
    pub pos: usize,
    pub n: usize,
    pub caps: Vec<usize>,
    pub eof_zero: bool,
}

impl RxCase {
    pub fn text(&self) -> String {
        format!(
            "rx kind={} data={} pos={} n={} caps={} z={}",
            self.kind,
            if self.data.is_empty() { "-".into() } else { hex(&self.data) },
            self.pos,
            self.n,
            if self.caps.is_empty() { "-".into() } else { self.caps.iter().map(|c| c.to_string()).collect::<Vec<_>>().join(",") },
            self.eof_zero as u8
        )
    }
    pub fn parse(s: &str) -> Option<RxCase> {
        let mut c = RxCase { kind: 's', data: vec![], pos: 0, n: 0, caps: vec![], eof_zero: false };
        for tok in s.split_whitespace().skip(1) {
            let (k, v) = tok.split_once('=')?;
            match k {
                "kind" => c.kind = v.chars().next()?,
                "data" => c.data = if v == "-" { vec![] } else { unhex(v) },
                "pos" => c.pos = v.parse().ok()?,
                "n" => c.n = v.parse().ok()?,
                "caps" => c.caps = if v == "-" { vec![] } else { v.split(',').map(|x| x.parse().ok()).collect::<Option<Vec<usize>>>()? },
                "z" => c.eof_zero = v == "1",
                _ => return None,
            }
        }
        Some(c)
    }
}

fn err_name(e: &IoError) -> &'static str {
    match e {
        IoError::UnexpectedEof => "eof",
        IoError::SeekBeforeStart => "sbs",
        IoError::HostAssetImplFailed => "host",
        IoError::WriteZero => "wz",
    }
}

/// (outcome, delivered bytes, position afterwards)
fn rx_real(c: &RxCase) -> Result<(String, Vec<u8>, usize), String> {
    fn go<A: LoadableAsset + SeekableAsset>(mut a: A, c: &RxCase) -> Result<(String, Vec<u8>, usize), String> {
        a.seek(SeekFrom::Start(c.pos)).map_err(|e| format!("seek failed: {:?}", e))?;
        // two sentinels tell written bytes from untouched ones
        let mut b1 = vec![0x00u8; c.n];
        let r1 = a.read_exact(&mut b1);
        let p1 = a.seek(SeekFrom::Current(0)).map_err(|e| format!("{:?}", e))?;
        let out = match &r1 {
            Ok(()) => "ok".to_string(),
            Err(e) => err_name(e).to_string(),
        };
        let delivered = p1.saturating_sub(c.pos).min(c.n);
        Ok((out, b1[..delivered].to_vec(), p1))
    }
    match c.kind {
        's' => go(SAsset::new(c.data.clone(), c.caps.clone(), false, c.eof_zero), c),
        'd' => go(DynamicAsset::from(SAsset::new(c.data.clone(), c.caps.clone(), false, c.eof_zero)), c),
        'b' => go(BufferCursor::new(c.data.clone()), c),
        'v' => go(crate::host::VAsset::new(c.data.clone()), c),
        'g' => {
            let gz = gzip_stored(&c.data, 7);
            go(GzipAsset::new(&gz[..]).map_err(|e| e.to_string())?, c)
        }
        'f' => go(FileAsset::from(temp_file(&c.data)?), c),
        _ => Err("unknown asset kind".into()),
    }
}

pub struct RxOutcome {
    pub kind: Option<Kind>,
    pub what: String,
    pub implementation: String,
    pub expected: String,
    pub class: String,
}

pub fn rx_run(c: &RxCase, model: &mut Model) -> RxOutcome {
    let mut o = RxOutcome { kind: None, what: String::new(), implementation: String::new(), expected: String::new(), class: String::new() };
    // what the model is told: scripted assets as they are; the library assets deliver whole, files say Ok(0) at EOF
    let (caps, z) = match c.kind {
        's' | 'd' => (c.caps.clone(), c.eof_zero),
        'f' => (vec![], true),
        _ => (vec![], false),
    };
    let line = format!(
        "rx {} {:x} {:x} {} {}",
        z as u8,
        c.pos,
        c.n,
        if c.data.is_empty() { "-".into() } else { hex(&c.data) },
        caps.iter().map(|x| format!("{:x}", x)).collect::<Vec<_>>().join(" ")
    );
    let ans = model.ask(line.trim_end());
    let f: Vec<&str> = ans.split_whitespace().collect();
    if f.len() != 8 || f[4] != "spec" {
        o.kind = Some(Kind::ModelMismatch);
        o.what = format!("driver answered '{}'", ans);
        return o;
    }
    let real = match catch_unwind(AssertUnwindSafe(|| rx_real(c))) {
        Ok(Ok(r)) => r,
        Ok(Err(s)) => {
            o.kind = Some(Kind::ModelMismatch);
            o.what = format!("asset could not be built: {}", s);
            return o;
        }
        Err(_) => {
            o.kind = Some(Kind::SpecViolated);
            o.what = "read_exact panicked".into();
            o.implementation = "panic".into();
            o.expected = format!("{} {} {}", f[5], f[6], f[7]);
            return o;
        }
    };
    let imp = format!("{} {} {:04x}", real.0, if real.1.is_empty() { "-".into() } else { hex(&real.1) }, real.2);
    let model_s = format!("{} {} {}", f[0], f[1], f[2]);
    let spec_s = format!("{} {} {}", f[5], f[6], f[7]);
    let productive = caps.iter().all(|&x| x >= 1);
    let short = c.pos + c.n > c.data.len();
    o.class = format!(
        "rx/{}/{}/{}{}",
        c.kind,
        if !productive { "zero-cap" } else if caps.is_empty() { "whole" } else if caps.iter().all(|&x| x == 1) { "bytewise" } else { "short" },
        if short { if z { "eof-zero" } else { "eof-err" } } else { "enough" },
        if c.n == 0 { "/n0" } else { "" }
    );
    if productive && imp != spec_s {
        o.kind = Some(Kind::SpecViolated);
        o.what = "read_exact result differs from 'the next n bytes or UnexpectedEof' (outcome buffer position)".into();
        o.implementation = imp;
        o.expected = spec_s;
    } else if imp != model_s {
        o.kind = Some(Kind::ModelMismatch);
        o.what = "read_exact differs from the model on a non-productive chunk script".into();
        o.implementation = imp;
        o.expected = model_s;
    }
    o
}

pub fn rx_gen(r: &mut Rng) -> RxCase {
    let len = if r.chance(1, 10) { 0 } else { r.range(1, 48) as usize };
    let data = r.bytes(len);
    let pos = if r.chance(1, 8) { len + r.below(3) as usize } else { r.below(len as u64 + 1) as usize };
    let n = if r.chance(1, 12) { 0 } else if r.chance(1, 4) { len.saturating_sub(pos) } else { r.below(len as u64 + 6) as usize };
    let kind = *r.pick(&['s', 's', 's', 'd', 'b', 'g', 'f', 'v']);
    let ncaps = r.below(10) as usize;
    let bytewise = r.chance(1, 5);
    let zero = r.chance(1, 12);
    let caps: Vec<usize> = (0..ncaps)
        .map(|_| if bytewise { 1 } else if zero && r.chance(1, 3) { 0 } else { r.range(1, 6) as usize })
        .collect();
    RxCase { kind, data, pos, n, caps, eof_zero: r.bool() }
}

#[derive(Clone, Debug)]
pub struct SeekCase {
    pub kind: char,
    pub pos: usize,
    pub len: usize,
    pub which: usize,
    pub off: i64,
}

impl SeekCase {
    pub fn text(&self) -> String {
        format!("seek kind={} pos={} len={} which={} off={}", self.kind, self.pos, self.len, self.which, self.off)
    }
    pub fn parse(s: &str) -> Option<SeekCase> {
        let mut c = SeekCase { kind: 'b', pos: 0, len: 0, which: 0, off: 0 };
        for tok in s.split_whitespace().skip(1) {
            let (k, v) = tok.split_once('=')?;
            match k {
                "kind" => c.kind = v.chars().next()?,
                "pos" => c.pos = v.parse().ok()?,
                "len" => c.len = v.parse().ok()?,
                "which" => c.which = v.parse().ok()?,
                "off" => c.off = v.parse().ok()?,
                _ => return None,
            }
        }
        if c.which > 2 || (c.which == 0 && c.off < 0) {
            return None;
        }
        Some(c)
    }
}

pub fn seek_gen(r: &mut Rng) -> SeekCase {
    let len = r.below(40) as usize;
    let pos = r.below(len as u64 + 4) as usize;
    let kind = *r.pick(&['s', 'b', 'g', 'f', 'd']);
    let which = r.below(3) as usize;
    let off: i64 = match which {
        0 => r.below(len as u64 + 5) as i64,
        _ => r.below(2 * len as u64 + 8) as i64 - (len as i64 + 4),
    };
    SeekCase { kind, pos, len, which, off }
}

/// seek arithmetic of every asset implementation against the model; returns (class, disagreement)
pub fn seek_run(c: &SeekCase, model: &mut Model) -> (String, Option<(Kind, String, String, String)>) {
    let (kind, pos, len, which, off) = (c.kind, c.pos, c.len, c.which, c.off);
    let sf = match which {
        0 => SeekFrom::Start(off as usize),
        1 => SeekFrom::End(off as isize),
        _ => SeekFrom::Current(off as isize),
    };
    let line = format!(
        "seek {} {}{:x} {:x} {:x}",
        ["s", "e", "c"][which],
        if off < 0 { "-" } else { "" },
        off.unsigned_abs(),
        pos,
        len
    );
    let ans = model.ask(&line);
    let data = vec![0x33u8; len];
    fn go<A: SeekableAsset>(mut a: A, pos: usize, sf: SeekFrom) -> String {
        if a.seek(SeekFrom::Start(pos)).is_err() {
            return "setup-failed".into();
        }
        match a.seek(sf) {
            Ok(p) => format!("ok {:04x}", p),
            Err(e) => format!("err {}", err_name(&e)),
        }
    }
    let imp = match kind {
        's' => go(SAsset::new(data, vec![], false, false), pos, sf),
        'd' => go(DynamicAsset::from(BufferCursor::new(data)), pos, sf),
        'b' => go(BufferCursor::new(data), pos, sf),
        'g' => match GzipAsset::new(&gzip_stored(&data, 9)[..]) {
            Ok(a) => go(a, pos, sf),
            Err(_) => "setup-failed".into(),
        },
        _ => match temp_file(&data) {
            Ok(f) => go(FileAsset::from(f), pos, sf),
            Err(_) => "setup-failed".into(),
        },
    };
    let neg = ans.starts_with("err");
    let class = format!("seek/{}/{}/{}", kind, ["start", "end", "current"][which], if neg { "before-start" } else { "ok" });
    // a file reports a seek before the start as a host failure; no loader ever seeks there (Start(p), End(0) only)
    if kind == 'f' && neg && imp.starts_with("err") {
        return (class, None);
    }
    if imp != ans {
        return (
            class,
            Some((if neg { Kind::ModelMismatch } else { Kind::SpecViolated }, format!("C16/seek/{}", kind), imp, ans)),
        );
    }
    (class, None)
}
