//! C17 — input ports reflect exactly the controls held, for every event history.
//! Real code: Emulator::send_* + the ULA/Kempston/mouse branches of read_io (through hook H1's
//! `verif_read_io`, and through `IN A,(C)` executed by the emulated CPU for a sub-sample).
use crate::host::*;
use crate::util::*;
use rustzx_core::zx::{
    joy::{
        kempston::KempstonKey,
        sinclair::{SinclairJoyNum, SinclairKey},
    },
    keys::{CompoundKey, ZXKey},
    mouse::kempston::{KempstonMouseButton, KempstonMouseWheelDirection},
};

const KEYS: [ZXKey; 40] = [
    ZXKey::Shift,
    ZXKey::Z,
    ZXKey::X,
    ZXKey::C,
    ZXKey::V,
    ZXKey::A,
    ZXKey::S,
    ZXKey::D,
    ZXKey::F,
    ZXKey::G,
    ZXKey::Q,
    ZXKey::W,
    ZXKey::E,
    ZXKey::R,
    ZXKey::T,
    ZXKey::N1,
    ZXKey::N2,
    ZXKey::N3,
    ZXKey::N4,
    ZXKey::N5,
    ZXKey::N0,
    ZXKey::N9,
    ZXKey::N8,
    ZXKey::N7,
    ZXKey::N6,
    ZXKey::P,
    ZXKey::O,
    ZXKey::I,
    ZXKey::U,
    ZXKey::Y,
    ZXKey::Enter,
    ZXKey::L,
    ZXKey::K,
    ZXKey::J,
    ZXKey::H,
    ZXKey::Space,
    ZXKey::SymShift,
    ZXKey::M,
    ZXKey::N,
    ZXKey::B,
];
const KEY_NAMES: [&str; 40] = [
    "shift", "z", "x", "c", "v", "a", "s", "d", "f", "g", "q", "w", "e", "r", "t", "1", "2", "3",
    "4", "5", "0", "9", "8", "7", "6", "p", "o", "i", "u", "y", "enter", "l", "k", "j", "h",
    "space", "symshift", "m", "n", "b",
];
const COMPOUND: [CompoundKey; 7] = [
    CompoundKey::ArrowLeft,
    CompoundKey::ArrowRight,
    CompoundKey::ArrowUp,
    CompoundKey::ArrowDown,
    CompoundKey::CapsLock,
    CompoundKey::Delete,
    CompoundKey::Break,
];
const COMPOUND_NAMES: [&str; 7] = [
    "arrowLeft",
    "arrowRight",
    "arrowUp",
    "arrowDown",
    "capsLock",
    "delete",
    "break",
];
const SKEYS: [SinclairKey; 5] = [
    SinclairKey::Left,
    SinclairKey::Right,
    SinclairKey::Up,
    SinclairKey::Down,
    SinclairKey::Fire,
];
const SKEY_NAMES: [&str; 5] = ["left", "right", "up", "down", "fire"];
const JOYS: [SinclairJoyNum; 2] = [SinclairJoyNum::Fist, SinclairJoyNum::Second];
const JOY_NAMES: [&str; 2] = ["first", "second"];
const KEMP: [KempstonKey; 8] = [
    KempstonKey::Right,
    KempstonKey::Left,
    KempstonKey::Down,
    KempstonKey::Up,
    KempstonKey::Fire,
    KempstonKey::Ext1,
    KempstonKey::Ext2,
    KempstonKey::Ext3,
];
const KEMP_NAMES: [&str; 8] = [
    "right", "left", "down", "up", "fire", "ext1", "ext2", "ext3",
];
const MBTN: [KempstonMouseButton; 4] = [
    KempstonMouseButton::Left,
    KempstonMouseButton::Right,
    KempstonMouseButton::Middle,
    KempstonMouseButton::Additional,
];
const MBTN_NAMES: [&str; 4] = ["left", "right", "middle", "additional"];

#[derive(Clone, Copy, PartialEq, Eq, Debug)]
pub enum Ev {
    Key(usize, bool),
    Comp(usize, bool),
    Sinc(usize, usize, bool),
    Kemp(usize, bool),
    Mbtn(usize, bool),
    Wheel(bool),
    Move(u8, u8),
    /// the host loads a snapshot (an SZX with nothing but an SPCR chunk): held keys, buttons and counters are the
    /// host's, a snapshot says nothing about them
    Snap,
}

impl Ev {
    fn line(&self) -> String {
        let b = |p: bool| if p { 1 } else { 0 };
        match *self {
            Ev::Key(i, p) => format!("ev key {:x} {}", i, b(p)),
            Ev::Comp(i, p) => format!("ev comp {:x} {}", i, b(p)),
            Ev::Sinc(j, i, p) => format!("ev sinc {:x} {:x} {}", j, i, b(p)),
            Ev::Kemp(i, p) => format!("ev kemp {:x} {}", i, b(p)),
            Ev::Mbtn(i, p) => format!("ev mbtn {:x} {}", i, b(p)),
            Ev::Wheel(u) => format!("ev wheel {}", b(u)),
            Ev::Move(dx, dy) => format!("ev move {:02x} {:02x}", dx, dy),
            // for the model a snapshot load is no input event at all: a mouse motion of (0,0)
            Ev::Snap => "ev move 00 00".to_string(),
        }
    }
    fn text(&self) -> String {
        match *self {
            Ev::Snap => "ev snap".to_string(),
            _ => self.line(),
        }
    }
    fn parse(s: &str) -> Option<Ev> {
        let t: Vec<&str> = s.split_whitespace().collect();
        let n = |x: &str| usize::from_str_radix(x, 16).ok();
        let p = |x: &str| Some(x == "1");
        match t.as_slice() {
            ["ev", "key", i, q] => Some(Ev::Key(n(i)?, p(q)?)),
            ["ev", "comp", i, q] => Some(Ev::Comp(n(i)?, p(q)?)),
            ["ev", "sinc", j, i, q] => Some(Ev::Sinc(n(j)?, n(i)?, p(q)?)),
            ["ev", "kemp", i, q] => Some(Ev::Kemp(n(i)?, p(q)?)),
            ["ev", "mbtn", i, q] => Some(Ev::Mbtn(n(i)?, p(q)?)),
            ["ev", "wheel", u] => Some(Ev::Wheel(p(u)?)),
            ["ev", "move", dx, dy] => Some(Ev::Move(n(dx)? as u8, n(dy)? as u8)),
            ["ev", "snap"] => Some(Ev::Snap),
            _ => None,
        }
    }
    /// the control (not the direction of the event): used for the finding key and the classes
    fn control(&self) -> String {
        match *self {
            Ev::Key(i, _) => format!("key.{}", KEY_NAMES[i]),
            Ev::Comp(i, _) => format!("comp.{}", COMPOUND_NAMES[i]),
            Ev::Sinc(j, i, _) => format!("sinc.{}.{}", JOY_NAMES[j], SKEY_NAMES[i]),
            Ev::Kemp(i, _) => format!("kemp.{}", KEMP_NAMES[i]),
            Ev::Mbtn(i, _) => format!("mbtn.{}", MBTN_NAMES[i]),
            Ev::Wheel(_) => "wheel".to_string(),
            Ev::Move(_, _) => "move".to_string(),
            Ev::Snap => "snapshot-load".to_string(),
        }
    }
    fn source(&self) -> &'static str {
        match self {
            Ev::Key(..) => "key",
            Ev::Comp(..) => "compound",
            Ev::Sinc(..) => "sinclair",
            Ev::Kemp(..) => "kempston",
            Ev::Mbtn(..) => "mouse-button",
            Ev::Wheel(..) => "wheel",
            Ev::Move(..) => "move",
            Ev::Snap => "snapshot-load",
        }
    }
    fn apply(&self, e: &mut Emu) {
        match *self {
            Ev::Key(i, p) => e.send_key(KEYS[i], p),
            Ev::Comp(i, p) => e.send_compound_key(COMPOUND[i], p),
            Ev::Sinc(j, i, p) => e.send_sinclair_key(JOYS[j], SKEYS[i], p),
            Ev::Kemp(i, p) => e.send_kempston_key(KEMP[i], p),
            Ev::Mbtn(i, p) => e.send_mouse_button(MBTN[i], p),
            Ev::Wheel(u) => e.send_mouse_wheel(if u {
                KempstonMouseWheelDirection::Up
            } else {
                KempstonMouseWheelDirection::Down
            }),
            Ev::Move(dx, dy) => e.send_mouse_pos_diff(dx as i8, dy as i8),
            Ev::Snap => {
                let m128 = e.verif_paging().1;
                let mut f = b"ZXST".to_vec();
                f.extend_from_slice(&[1, 4, if m128 { 2 } else { 1 }, 0]);
                f.extend_from_slice(b"SPCR");
                f.extend_from_slice(&8u32.to_le_bytes());
                f.extend_from_slice(&[0, 0, 0, 0, 0, 0, 0, 0]);
                let _ = e.load_snapshot(rustzx_core::host::Snapshot::Szx(VAsset::new(f)));
            }
        }
    }
}

/// Two emulators receive every event: one with the mouse (keyboard + mouse ports are read there) and
/// one with the Kempston joystick only — with both devices enabled no port address selects the
/// joystick alone (every A5=0,A0=1 address is decoded to a mouse register first).
struct Pair {
    main: Emu,
    joy: Emu,
    /// a third machine built with the joystick switched off in the settings and given one afterwards by an SZX
    /// snapshot (KEYB chunk naming the Kempston interface): from then on it is a machine with a joystick
    joy_szx: Emu,
}

fn new_emu(m128: bool) -> Pair {
    let mut c = Cfg::new(m128);
    c.mouse = true;
    c.kempston = true;
    let main = emu(&c);
    c.mouse = false;
    let joy = emu(&c);
    c.kempston = false;
    let mut joy_szx = emu(&c);
    let mut f = b"ZXST".to_vec();
    f.extend_from_slice(&[1, 4, if m128 { 2 } else { 1 }, 0]);
    f.extend_from_slice(b"KEYB");
    f.extend_from_slice(&5u32.to_le_bytes());
    f.extend_from_slice(&[0, 0, 0, 0, 1]);
    let _ = joy_szx.load_snapshot(rustzx_core::host::Snapshot::Szx(VAsset::new(f)));
    Pair { main, joy, joy_szx }
}

/// What the real code shows after a history: ULA read for the given selectors + device ports.
struct Obs {
    ula: Vec<(u8, u8)>,
    kemp: u8,
    kemp_szx: u8,
    mb: u8,
    mx: u8,
    my: u8,
}

fn observe(p: &mut Pair, sels: &[u8]) -> Obs {
    let kemp = p.joy.verif_read_io(0x001F);
    let kemp_szx = p.joy_szx.verif_read_io(0x001F);
    let e = &mut p.main;
    let ula = sels
        .iter()
        .map(|&s| (s, e.verif_read_io(((s as u16) << 8) | 0xFE)))
        .collect();
    Obs {
        ula,
        kemp,
        kemp_szx,
        mb: e.verif_read_io(0xFADF),
        mx: e.verif_read_io(0xFBDF),
        my: e.verif_read_io(0xFFDF),
    }
}

/// Reads the keyboard through `IN A,(C)` executed by the emulated CPU (the path a program uses).
fn observe_via_cpu(e: &mut Emu, sel: u8) -> u8 {
    // LD BC,sel*256+FE ; IN A,(C) ; LD (0x9000),A ; JR $
    let prog = [0x01, 0xFE, sel, 0xED, 0x78, 0x32, 0x00, 0x90, 0x18, 0xFE];
    for (i, b) in prog.iter().enumerate() {
        e.verif_write_mem(0x8000 + i as u16, *b, 0);
    }
    let cpu = e.verif_cpu();
    cpu.regs.set_pc(0x8000);
    cpu.regs.set_sp(0xFF00);
    cpu.regs.set_iff1(false);
    cpu.halted = false;
    let _ = e.emulate_frames(std::time::Duration::from_secs(1));
    e.peek(0x9000)
}

struct Disagreement {
    kind: Kind,
    what: String,
    implementation: String,
    expected: String,
}

/// Replays `hist` on a fresh emulator pair and a fresh model; returns the first disagreement.
/// `sels_each` are read after every event, `sels_final` after the last one. All model requests of
/// one history go through the pipe in one batch.
fn run_history(
    model: &mut Model,
    m128: bool,
    hist: &[Ev],
    sels_each: &[u8],
    sels_final: &[u8],
    mut rep: Option<&mut Report>,
) -> Option<Disagreement> {
    let mut e = new_emu(m128);
    let mut lines = vec!["reset 1 1".to_string()];
    let mut obs = vec![];
    for (i, ev) in hist.iter().enumerate() {
        ev.apply(&mut e.main);
        ev.apply(&mut e.joy);
        ev.apply(&mut e.joy_szx);
        lines.push(ev.line());
        let last = i + 1 == hist.len();
        let o = observe(&mut e, if last { sels_final } else { sels_each });
        for (s, _) in &o.ula {
            // the empty tape holds EAR low
            lines.push(format!("read {:02x} 0", s));
        }
        lines.push("ports".into());
        obs.push(o);
    }
    let answers = model.ask_many(&lines);
    let mut k = 1;
    for o in &obs {
        assert_eq!(answers[k], "ok", "driver rejected {}", lines[k]);
        k += 1;
        let n = o.ula.len() + 1;
        if let Some(d) = compare(&answers[k..k + n], o, rep.as_deref_mut()) {
            return Some(d);
        }
        k += n;
    }
    None
}

fn compare(answers: &[String], obs: &Obs, mut rep: Option<&mut Report>) -> Option<Disagreement> {
    for ((sel, got), ans) in obs.ula.iter().zip(answers.iter()) {
        let mut it = ans.split(' ');
        let m = u8::from_str_radix(it.next().unwrap(), 16).unwrap();
        let s = u8::from_str_radix(it.next().unwrap(), 16).unwrap();
        if let Some(r) = rep.as_deref_mut() {
            r.eval();
            if *got & 0x1F != 0x1F {
                r.class(format!("ula sel={:02x} val={:02x}", sel, got));
            }
        }
        if *got != s {
            return Some(Disagreement {
                kind: Kind::SpecViolated,
                what: format!("keyboard read with selector {:02x}", sel),
                implementation: format!("{:02x}", got),
                expected: format!("{:02x}", s),
            });
        }
        if *got != m {
            return Some(Disagreement {
                kind: Kind::ModelMismatch,
                what: format!("keyboard read with selector {:02x}", sel),
                implementation: format!("{:02x}", got),
                expected: format!("{:02x}", m),
            });
        }
    }
    let ans = &answers[obs.ula.len()];
    let t: Vec<&str> = ans.split(' ').collect();
    // kemp M S mb M S mx M S my M S
    let fields = [
        ("kempston port", obs.kemp, 1),
        ("kempston port of a machine whose joystick was attached by an SZX snapshot", obs.kemp_szx, 1),
        ("mouse buttons port", obs.mb, 4),
        ("mouse x port", obs.mx, 7),
        ("mouse y port", obs.my, 10),
    ];
    for (name, got, i) in fields {
        let m = u8::from_str_radix(t[i], 16).unwrap();
        let s = u8::from_str_radix(t[i + 1], 16).unwrap();
        if let Some(r) = rep.as_deref_mut() {
            r.eval();
            r.class(format!("{} val={:02x}", name, got));
        }
        if got != s {
            return Some(Disagreement {
                kind: Kind::SpecViolated,
                what: name.to_string(),
                implementation: format!("{:02x}", got),
                expected: format!("{:02x}", s),
            });
        }
        if got != m {
            return Some(Disagreement {
                kind: Kind::ModelMismatch,
                what: name.to_string(),
                implementation: format!("{:02x}", got),
                expected: format!("{:02x}", m),
            });
        }
    }
    None
}

const ALL_SELS: [u8; 256] = {
    let mut a = [0u8; 256];
    let mut i = 0;
    while i < 256 {
        a[i] = i as u8;
        i += 1;
    }
    a
};

/// ddmin-style: drop chunks of events (halves, quarters, ... single events) while the same kind
/// of disagreement remains. Only the final state is read while shrinking.
fn shrink(model: &mut Model, m128: bool, hist: &[Ev], kind: Kind) -> Vec<Ev> {
    let fails = |model: &mut Model, h: &[Ev]| {
        matches!(run_history(model, m128, h, &[], &ALL_SELS, None), Some(ref d) if d.kind == kind)
    };
    // cut the history after the first event at which the disagreement shows
    let mut cur = hist.to_vec();
    for n in 1..=hist.len() {
        if fails(model, &hist[..n]) {
            cur = hist[..n].to_vec();
            break;
        }
    }
    let mut chunk = (cur.len() / 2).max(1);
    loop {
        let mut i = 0;
        let mut changed = false;
        while i < cur.len() {
            let end = (i + chunk).min(cur.len());
            let mut cand = cur[..i].to_vec();
            cand.extend_from_slice(&cur[end..]);
            if !cand.is_empty() && fails(model, &cand) {
                cur = cand;
                changed = true;
            } else {
                i = end;
            }
        }
        if chunk == 1 && !changed {
            return cur;
        }
        if !changed || chunk > 1 {
            chunk = (chunk / 2).max(1);
        }
    }
}

fn case_text(m128: bool, hist: &[Ev]) -> String {
    let mut s = format!("m128={}", if m128 { 1 } else { 0 });
    for e in hist {
        s.push_str(" ; ");
        s.push_str(&e.text());
    }
    s
}

fn parse_case(s: &str) -> (bool, Vec<Ev>) {
    let mut parts = s.split(';').map(|x| x.trim());
    let m128 = parts.next().unwrap_or("") == "m128=1";
    (m128, parts.filter_map(Ev::parse).collect())
}

fn controls_of(hist: &[Ev]) -> Vec<String> {
    let mut controls: Vec<String> = hist.iter().map(|e| e.control()).collect();
    controls.sort();
    controls.dedup();
    controls
}

struct Seen {
    /// controls taking part in violations already recorded in this run
    controls: std::collections::BTreeSet<String>,
}

fn report_failure(model: &mut Model, rep: &mut Report, seen: &mut Seen, m128: bool, hist: &[Ev], d: Disagreement) {
    // A history that only fails because of an already recorded failure is not shrunk again: drop the
    // controls of the recorded failures; if it then passes, count it as a repeat.
    let mut hist = hist.to_vec();
    let mut d = d;
    if !seen.controls.is_empty() {
        let filtered: Vec<Ev> = hist.iter().copied().filter(|e| !seen.controls.contains(&e.control())).collect();
        match run_history(model, m128, &filtered, &[], &ALL_SELS, None) {
            None => {
                rep.count("repeat_violations", "attributed to an already recorded failure");
                return;
            }
            Some(d2) => {
                hist = filtered;
                d = d2;
            }
        }
    }
    let small = shrink(model, m128, &hist, d.kind);
    let d2 = run_history(model, m128, &small, &[], &ALL_SELS, None).unwrap_or(d);
    let controls = controls_of(&small);
    for c in &controls {
        seen.controls.insert(c.clone());
    }
    let key = format!("C17/controls={}", controls.join("+"));
    rep.violation(Violation {
        kind: d2.kind,
        key,
        what: format!(
            "after [{}]: {} reads {} but {} says {}",
            small.iter().map(|e| e.line()).collect::<Vec<_>>().join("; "),
            d2.what,
            d2.implementation,
            if d2.kind == Kind::SpecViolated { "the held-set spec" } else { "the Lean model" },
            d2.expected
        ),
        correspondence: "corr.C17.input-history (Model.Input.step/readUla vs Emulator::send_*/read_io)".into(),
        case: J::obj(vec![("text", J::s(case_text(m128, &small)))]),
        implementation: d2.implementation.clone(),
        expected: d2.expected.clone(),
    });
}

/// One selector read again and again, nothing else in between: read, event, read, event, … — a key event
/// between two reads of the same half-rows shows in the second read.
fn same_selector(model: &mut Model, rep: &mut Report, m128: bool, hist: &[Ev], sel: u8) {
    let fails = |model: &mut Model, h: &[Ev]| run_history(model, m128, h, &[sel], &[sel], None);
    if let Some(d) = run_history(model, m128, hist, &[sel], &[sel], Some(rep)) {
        // a history that also fails when every selector is read after every event is the business of the
        // ordinary history layer (which knows the recorded findings); here only what re-reading alone shows
        if run_history(model, m128, hist, &ALL_SELS, &ALL_SELS, None).is_some() {
            rep.count("repeat_violations", "re-read history that fails under ordinary reading too");
            return;
        }
        // shrink: shortest failing prefix, then drop single events
        let mut cur: Vec<Ev> = hist.to_vec();
        for n in 1..=hist.len() {
            if matches!(fails(model, &hist[..n]), Some(ref x) if x.kind == d.kind) {
                cur = hist[..n].to_vec();
                break;
            }
        }
        let mut i = 0;
        while i < cur.len() && cur.len() > 1 {
            let mut cand = cur.clone();
            cand.remove(i);
            if matches!(fails(model, &cand), Some(ref x) if x.kind == d.kind) {
                cur = cand;
            } else {
                i += 1;
            }
        }
        let d2 = fails(model, &cur).unwrap_or(d);
        let key = format!("C17/reread/controls={}", controls_of(&cur).join("+"));
        if rep.has_key(&key) {
            rep.count("repeat_violations", key);
            return;
        }
        rep.violation(Violation {
            kind: d2.kind,
            key,
            what: format!(
                "selector {:02x} read after every event and nothing else, after [{}]: {} reads {} but {} says {}",
                sel,
                cur.iter().map(|e| e.line()).collect::<Vec<_>>().join("; "),
                d2.what,
                d2.implementation,
                if d2.kind == Kind::SpecViolated { "the held-set spec" } else { "the Lean model" },
                d2.expected
            ),
            correspondence: "corr.C17.input-history (Model.Input.step/readUla vs Emulator::send_*/read_io)".into(),
            case: J::obj(vec![("text", J::s(format!("samesel={:02x} {}", sel, case_text(m128, &cur))))]),
            implementation: d2.implementation.clone(),
            expected: d2.expected.clone(),
        });
    }
}

fn random_event(rng: &mut Rng, focus: &[Ev]) -> Ev {
    // bias towards a small working set so that overlaps between sources actually occur
    if !focus.is_empty() && rng.chance(3, 5) {
        let e = *rng.pick(focus);
        let p = rng.bool();
        return match e {
            Ev::Key(i, _) => Ev::Key(i, p),
            Ev::Comp(i, _) => Ev::Comp(i, p),
            Ev::Sinc(j, i, _) => Ev::Sinc(j, i, p),
            Ev::Kemp(i, _) => Ev::Kemp(i, p),
            Ev::Mbtn(i, _) => Ev::Mbtn(i, p),
            other => other,
        };
    }
    match rng.below(20) {
        0..=5 => Ev::Key(rng.below(40) as usize, rng.bool()),
        6..=9 => Ev::Comp(rng.below(7) as usize, rng.bool()),
        10..=13 => Ev::Sinc(rng.below(2) as usize, rng.below(5) as usize, rng.bool()),
        14..=15 => Ev::Kemp(rng.below(8) as usize, rng.bool()),
        16 => Ev::Mbtn(rng.below(4) as usize, rng.bool()),
        17 if rng.chance(1, 2) => Ev::Snap,
        17 => Ev::Wheel(rng.bool()),
        _ => {
            let pick = |r: &mut Rng| match r.below(6) {
                0 => 0x7F,
                1 => 0x80,
                2 => 0xFF,
                3 => 0x01,
                _ => r.u8(),
            };
            Ev::Move(pick(rng), pick(rng))
        }
    }
}

pub fn run(o: &Opts) -> Report {
    let mut rep = Report::new("C17");
    rep.rule = "every single control (40 keys, 7 compound, 2x5 Sinclair, 8 Kempston, 4 mouse buttons) pressed \
and released alone, read with all 256 half-row selectors (exhaustive part), then seeded random event histories \
(<=60 events, biased to a small working set so that several sources hold the same matrix position; now and then the host loads a snapshot in between) with reads \
after every event; non-trivial/distinct = distinct (port, selector, value) observations in which at least one \
key bit reads 0, plus distinct joystick/mouse port values"
        .into();
    let mut model = Model::spawn(&o.model, "C17");
    let mut seen = Seen { controls: Default::default() };

    if let Some(text) = &o.replay {
        if let Some(rest) = text.strip_prefix("samesel=") {
            // "samesel=<hex> m128=.. ; events": the same selector is read after every event and nothing else
            if let Some((sel, case)) = rest.split_once(' ') {
                let sel = u8::from_str_radix(sel, 16).unwrap_or(0);
                let (m128, hist) = parse_case(case.trim());
                rep.sample(J::s(text.clone()));
                same_selector(&mut model, &mut rep, m128, &hist, sel);
            }
            return rep;
        }
        let (m128, hist) = parse_case(text);
        rep.sample(J::s(case_text(m128, &hist)));
        if let Some(d) = run_history(&mut model, m128, &hist, &ALL_SELS, &ALL_SELS, Some(&mut rep)) {
            report_failure(&mut model, &mut rep, &mut seen, m128, &hist, d);
        }
        return rep;
    }

    // 1. exhaustive single-control part
    let mut singles: Vec<Ev> = vec![];
    for i in 0..40 {
        singles.push(Ev::Key(i, true));
    }
    for i in 0..7 {
        singles.push(Ev::Comp(i, true));
    }
    for j in 0..2 {
        for i in 0..5 {
            singles.push(Ev::Sinc(j, i, true));
        }
    }
    for i in 0..8 {
        singles.push(Ev::Kemp(i, true));
    }
    for i in 0..4 {
        singles.push(Ev::Mbtn(i, true));
    }
    for (n, ev) in singles.iter().enumerate() {
        let release = match *ev {
            Ev::Key(i, _) => Ev::Key(i, false),
            Ev::Comp(i, _) => Ev::Comp(i, false),
            Ev::Sinc(j, i, _) => Ev::Sinc(j, i, false),
            Ev::Kemp(i, _) => Ev::Kemp(i, false),
            Ev::Mbtn(i, _) => Ev::Mbtn(i, false),
            e => e,
        };
        let hist = [*ev, release];
        let m128 = n % 2 == 1;
        rep.count("single_controls", ev.source());
        if let Some(d) = run_history(&mut model, m128, &hist, &ALL_SELS, &ALL_SELS, Some(&mut rep)) {
            report_failure(&mut model, &mut rep, &mut seen, m128, &hist, d);
        }
    }
    rep.sample(J::s(case_text(false, &[singles[0], Ev::Key(0, false)])));

    // 2. the same through IN A,(C) executed by the emulated CPU
    {
        let mut rng = Rng::new(o.seed ^ 0x17);
        for _ in 0..o.n(40, 2000) {
            let m128 = rng.bool();
            let mut e = new_emu(m128);
            let mut lines = vec!["reset 1 1".to_string()];
            let n = rng.range(1, 6);
            let mut hist = vec![];
            for _ in 0..n {
                let ev = random_event(&mut rng, &[]);
                ev.apply(&mut e.main);
                ev.apply(&mut e.joy);
                lines.push(ev.line());
                hist.push(ev);
            }
            let sel = if rng.bool() { 0 } else { rng.u8() };
            let got = observe_via_cpu(&mut e.main, sel);
            let mut obs = observe(&mut e, &[]);
            obs.ula = vec![(sel, got)];
            lines.push(format!("read {:02x} 0", sel));
            lines.push("ports".into());
            let answers = model.ask_many(&lines);
            rep.count("paths", "IN A,(C) in the emulated CPU");
            if let Some(d) = compare(&answers[answers.len() - 2..], &obs, Some(&mut rep)) {
                report_failure(&mut model, &mut rep, &mut seen, m128, &hist, d);
            }
        }
    }

    // 2b. the same selector read after every event, nothing else in between
    {
        let mut rng = Rng::new(o.seed ^ 0x5E1);
        for h in 0..o.n(300, 20_000) {
            let mut r = rng.fork();
            let m128 = r.bool();
            let len = r.range(1, 12) as usize;
            let focus: Vec<Ev> = (0..r.range(1, 3)).map(|_| random_event(&mut r, &[])).collect();
            let hist: Vec<Ev> = (0..len).map(|_| random_event(&mut r, &focus)).collect();
            let sel = match h % 4 {
                0 => 0x00,
                1 => !(1u8 << r.below(8)),
                2 => 0xFE,
                _ => r.u8(),
            };
            rep.count("history_length", "same-selector re-read");
            same_selector(&mut model, &mut rep, m128, &hist, sel);
        }
    }

    // 2c. long one-sided mouse drags: the counters are 8 bits and wrap, however far the mouse has travelled
    for (dx, dy, n) in [(127u8, 0u8, 300usize), (0x9C, 0xA6, 400), (0x80, 0x7F, 520), (1, 0xFF, 700)] {
        for m128 in [false, true] {
            let hist: Vec<Ev> = (0..n).map(|_| Ev::Move(dx, dy)).collect();
            rep.count("history_length", "long mouse drag");
            if let Some(d) = run_history(&mut model, m128, &hist, &[], &[0x00], Some(&mut rep)) {
                rep.count("disagreeing_histories", format!("{:?}", d.kind));
                // the shortest failing prefix is the replay (the general shrinker would re-run 40 selectors per try)
                let mut lo = 1usize;
                let mut hi = n;
                while lo < hi {
                    let mid = (lo + hi) / 2;
                    if run_history(&mut model, m128, &hist[..mid], &[], &[0x00], None).is_some() {
                        hi = mid;
                    } else {
                        lo = mid + 1;
                    }
                }
                let small = &hist[..lo];
                let d2 = run_history(&mut model, m128, small, &[], &[0x00], None).unwrap_or(d);
                rep.violation(Violation {
                    kind: d2.kind,
                    key: "C17/mouse/long-drag".into(),
                    what: format!(
                        "after {} mouse movements of ({}, {}): {} reads {} but {} says {}",
                        lo, dx as i8, dy as i8, d2.what, d2.implementation,
                        if d2.kind == Kind::SpecViolated { "the held-set spec" } else { "the Lean model" }, d2.expected
                    ),
                    correspondence: "corr.C17.input-history (Model.Input.step/readUla vs Emulator::send_*/read_io)".into(),
                    case: J::obj(vec![("text", J::s(case_text(m128, small)))]),
                    implementation: d2.implementation.clone(),
                    expected: d2.expected.clone(),
                });
            }
        }
    }

    // 3. random histories
    let mut rng = Rng::new(o.seed);
    let histories = o.n(1500, 150_000);
    for h in 0..histories {
        let mut r = rng.fork();
        let m128 = r.bool();
        let len = r.range(1, 60) as usize;
        let nfocus = r.range(0, 6) as usize;
        let focus: Vec<Ev> = (0..nfocus).map(|_| random_event(&mut r, &[])).collect();
        let hist: Vec<Ev> = (0..len).map(|_| random_event(&mut r, &focus)).collect();
        let sels_each: Vec<u8> = (0..6)
            .map(|i| match i {
                0 => 0x00,
                1 => !(1u8 << r.below(8)),
                _ => r.u8(),
            })
            .collect();
        for e in &hist {
            rep.count("events", e.source());
        }
        rep.count("history_length", format!("{:02}-{:02}", (len / 10) * 10, (len / 10) * 10 + 9));
        if h < 2 {
            rep.sample(J::s(case_text(m128, &hist)));
        }
        let mut sels_final: Vec<u8> = (0..8).map(|i| !(1u8 << i)).collect();
        sels_final.push(0);
        for _ in 0..23 {
            sels_final.push(r.u8());
        }
        if let Some(d) = run_history(&mut model, m128, &hist, &sels_each, &sels_final, Some(&mut rep)) {
            rep.count("disagreeing_histories", format!("{:?}", d.kind));
            report_failure(&mut model, &mut rep, &mut seen, m128, &hist, d);
        }
    }
    rep.extra.push(("histories".into(), J::I(histories as i64)));
    rep.extra.push(("model_requests".into(), J::I(model.requests as i64)));
    rep
}
