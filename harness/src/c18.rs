//! C18 — the AY chip turns any register history into the sound its registers define.
//! Real code: `aym::AymPrecise` through (a) the hook `verif_raw_tick` (one real `update_mixer` per call:
//! integer generator state + pre-filter left/right) and (b) the public `write_register/next_sample`;
//! the `ZXAyChip` register file through ports 0xFFFD/0xBFFD of a real `Emulator`.
//! Every probe is a one-line text case (`Probe::text`), which is also the replay format.
use crate::host::*;
use crate::util::*;
use aym::{AyMode, AymBackend, AymPrecise, SoundChip, VerifRawTick};
use std::panic::{catch_unwind, AssertUnwindSafe};

const CLOCK: usize = 1_773_400;

fn mode_of(i: usize) -> AyMode {
    match i {
        0 => AyMode::Mono,
        1 => AyMode::ABC,
        2 => AyMode::ACB,
        3 => AyMode::BAC,
        4 => AyMode::BCA,
        5 => AyMode::CAB,
        _ => AyMode::CBA,
    }
}
const MODE_NAMES: [&str; 7] = ["Mono", "ABC", "ACB", "BAC", "BCA", "CAB", "CBA"];

fn mk(ym: bool, mode: usize, rate: usize) -> AymPrecise {
    <AymPrecise as AymBackend>::new(if ym { SoundChip::YM } else { SoundChip::AY }, mode_of(mode), CLOCK, rate)
}

#[derive(Clone, Debug, PartialEq)]
enum Op {
    W(u8, u8),
    T(u32),
}

#[derive(Clone, Debug, PartialEq)]
enum Probe {
    /// differential against the model on a write/tick interleaving
    Raw { ym: bool, mode: usize, ops: Vec<Op> },
    /// tone divider: intervals between toggles
    Tone { ch: usize, fine: u8, coarse: u8 },
    /// noise divider and LFSR sequence
    Noise { r6: u8 },
    /// noise period rewritten (alternating between two values every `gap` ticks) while the divider runs
    NoiseSweep { p1: u8, p2: u8, gap: u32 },
    /// envelope level per step
    Env { r13: u8, ep: u16 },
    /// envelope period rewritten while the envelope runs
    EnvRetime { shape: u8, ep0: u16, run: u32, ep1: u16 },
    /// mixer gate / amplitude index for one R7 mask and three volume registers
    Gate { ym: bool, mode: usize, r7: u8, vols: [u8; 3] },
    /// DAC monotonicity through the pre-filter level
    Dac { ym: bool },
    /// stereo placement of one channel in one mode
    Pan { mode: usize, ch: usize },
    /// public API: zero-crossing frequency
    SigFreq { ym: bool, rate: usize, tp: u16, ch: usize },
    /// public API: envelope contour
    SigEnv { ym: bool, rate: usize, shape: u8 },
    /// public API: left/right energy
    SigPan { rate: usize, mode: usize, ch: usize },
    /// public API: finite and bounded under random writes
    SigFuzz { rate: usize, seed: u64, dc: bool, ym: bool },
    /// FIR table of the ℚ-model vs the source text
    Fir,
    /// ports 0xFFFD / 0xBFFD on an Emulator: s<val> select, w<val> write, r read
    Port { m128: bool, alias: bool, ops: Vec<(char, u8)> },
}

fn ops_text(ops: &[Op]) -> String {
    if ops.is_empty() {
        return "-".into();
    }
    ops.iter()
        .map(|o| match o {
            Op::W(a, v) => format!("w{:02x}{:02x}", a, v),
            Op::T(n) => format!("t{}", n),
        })
        .collect::<Vec<_>>()
        .join(",")
}

fn parse_ops(s: &str) -> Vec<Op> {
    s.split(',')
        .filter_map(|t| {
            if let Some(r) = t.strip_prefix('w') {
                Some(Op::W(u8::from_str_radix(r.get(0..2)?, 16).ok()?, u8::from_str_radix(r.get(2..4)?, 16).ok()?))
            } else if let Some(r) = t.strip_prefix('t') {
                Some(Op::T(r.parse().ok()?))
            } else {
                None
            }
        })
        .collect()
}

impl Probe {
    fn text(&self) -> String {
        match self {
            Probe::Raw { ym, mode, ops } => format!("raw ym={} mode={} ops={}", *ym as u8, mode, ops_text(ops)),
            Probe::Tone { ch, fine, coarse } => format!("tone ch={} fine={} coarse={}", ch, fine, coarse),
            Probe::Noise { r6 } => format!("noise r6={}", r6),
            Probe::NoiseSweep { p1, p2, gap } => format!("noisesweep p1={} p2={} gap={}", p1, p2, gap),
            Probe::Env { r13, ep } => format!("env r13={} ep={}", r13, ep),
            Probe::EnvRetime { shape, ep0, run, ep1 } => format!("envretime shape={} ep0={} run={} ep1={}", shape, ep0, run, ep1),
            Probe::Gate { ym, mode, r7, vols } => {
                format!("gate ym={} mode={} r7={} v0={} v1={} v2={}", *ym as u8, mode, r7, vols[0], vols[1], vols[2])
            }
            Probe::Dac { ym } => format!("dac ym={}", *ym as u8),
            Probe::Pan { mode, ch } => format!("pan mode={} ch={}", mode, ch),
            Probe::SigFreq { ym, rate, tp, ch } => format!("sigfreq ym={} rate={} tp={} ch={}", *ym as u8, rate, tp, ch),
            Probe::SigEnv { ym, rate, shape } => format!("sigenv ym={} rate={} shape={}", *ym as u8, rate, shape),
            Probe::SigPan { rate, mode, ch } => format!("sigpan rate={} mode={} ch={}", rate, mode, ch),
            Probe::SigFuzz { rate, seed, dc, ym } => {
                format!("sigfuzz rate={} seed={} dc={} ym={}", rate, seed, *dc as u8, *ym as u8)
            }
            Probe::Fir => "fir".to_string(),
            Probe::Port { m128, alias, ops } => format!(
                "port m128={} alias={} ops={}",
                *m128 as u8,
                *alias as u8,
                ops.iter().map(|(c, v)| format!("{}{:02x}", c, v)).collect::<Vec<_>>().join(",")
            ),
        }
    }

    fn parse(s: &str) -> Option<Probe> {
        let mut it = s.split_whitespace();
        let kind = it.next()?;
        let mut kv = std::collections::BTreeMap::new();
        for t in it {
            let (k, v) = t.split_once('=')?;
            kv.insert(k.to_string(), v.to_string());
        }
        let n = |k: &str| -> Option<u64> { kv.get(k)?.parse().ok() };
        let b = |k: &str| -> Option<bool> { Some(kv.get(k)? == "1") };
        Some(match kind {
            "raw" => Probe::Raw { ym: b("ym")?, mode: n("mode")? as usize, ops: parse_ops(kv.get("ops")?) },
            "tone" => Probe::Tone { ch: n("ch")? as usize, fine: n("fine")? as u8, coarse: n("coarse")? as u8 },
            "noise" => Probe::Noise { r6: n("r6")? as u8 },
            "noisesweep" => Probe::NoiseSweep { p1: n("p1")? as u8, p2: n("p2")? as u8, gap: n("gap")? as u32 },
            "env" => Probe::Env { r13: n("r13")? as u8, ep: n("ep")? as u16 },
            "envretime" => Probe::EnvRetime { shape: n("shape")? as u8, ep0: n("ep0")? as u16, run: n("run")? as u32, ep1: n("ep1")? as u16 },
            "gate" => Probe::Gate {
                ym: b("ym")?,
                mode: n("mode")? as usize,
                r7: n("r7")? as u8,
                vols: [n("v0")? as u8, n("v1")? as u8, n("v2")? as u8],
            },
            "dac" => Probe::Dac { ym: b("ym")? },
            "pan" => Probe::Pan { mode: n("mode")? as usize, ch: n("ch")? as usize },
            "sigfreq" => Probe::SigFreq { ym: b("ym")?, rate: n("rate")? as usize, tp: n("tp")? as u16, ch: n("ch")? as usize },
            "sigenv" => Probe::SigEnv { ym: b("ym")?, rate: n("rate")? as usize, shape: n("shape")? as u8 },
            "sigpan" => Probe::SigPan { rate: n("rate")? as usize, mode: n("mode")? as usize, ch: n("ch")? as usize },
            "sigfuzz" => Probe::SigFuzz { rate: n("rate")? as usize, seed: n("seed")?, dc: b("dc")?, ym: b("ym")? },
            "fir" => Probe::Fir,
            "port" => Probe::Port {
                m128: b("m128")?,
                alias: b("alias")?,
                ops: kv
                    .get("ops")?
                    .split(',')
                    .filter_map(|t| {
                        let c = t.chars().next()?;
                        Some((c, u8::from_str_radix(t.get(1..3).unwrap_or("00"), 16).ok()?))
                    })
                    .collect(),
            },
            _ => return None,
        })
    }
}

struct Disagreement {
    kind: Kind,
    key: String,
    what: String,
    implementation: String,
    expected: String,
    /// for Raw: index of the op at which it showed
    at: Option<usize>,
}

fn dis(kind: Kind, key: impl Into<String>, what: impl Into<String>, imp: impl Into<String>, exp: impl Into<String>) -> Disagreement {
    Disagreement { kind, key: key.into(), what: what.into(), implementation: imp.into(), expected: exp.into(), at: None }
}

/// The model's DAC table (decimal literals, parsed exactly like the Rust source literals) and pan positions.
struct Tables {
    dac: Vec<f64>,
    pan_left: [f64; 3],
    pan_right: [f64; 3],
}

fn new_model(model: &mut Model, ym: bool, mode: usize) -> Tables {
    let a = model.ask(&format!("new {} {:x}", ym as u8, mode));
    let t: Vec<&str> = a.split(' ').collect();
    assert_eq!(t[0], "ok", "driver: {}", a);
    let dac: Vec<f64> = t[1].split(',').map(|x| x.parse::<f64>().unwrap()).collect();
    let mut pl = [0.0; 3];
    let mut pr = [0.0; 3];
    for i in 0..3 {
        let pan = t[2 + i].parse::<f64>().unwrap() / 2.0;
        pl[i] = (1.0 - pan).sqrt();
        pr[i] = pan.sqrt();
    }
    Tables { dac, pan_left: pl, pan_right: pr }
}

fn expected_lr(t: &Tables, outs: [usize; 3]) -> (f64, f64) {
    let mut l = 0.0;
    let mut r = 0.0;
    for i in 0..3 {
        let d = t.dac.get(outs[i]).copied().unwrap_or(f64::NAN);
        l += d * t.pan_left[i];
        r += d * t.pan_right[i];
    }
    (l, r)
}

fn tick_line(v: &VerifRawTick) -> String {
    format!(
        "{}{}{} {:x} {:x} {:x} {:x} {:x} {:x} {:x} {}",
        v.tone[0] & 1,
        v.tone[1] & 1,
        v.tone[2] & 1,
        v.tone_counter[0],
        v.tone_counter[1],
        v.tone_counter[2],
        v.noise,
        v.noise_counter,
        v.envelope,
        v.envelope_counter,
        v.envelope_segment & 1
    )
}

fn ticks_real(ay: &mut AymPrecise, n: usize) -> Result<Vec<VerifRawTick>, String> {
    catch_unwind(AssertUnwindSafe(|| (0..n).map(|_| ay.verif_raw_tick()).collect::<Vec<_>>()))
        .map_err(|_| "panic in update_mixer".to_string())
}

// ------------------------------------------------------------------------------------------- raw

fn component_of(real: &str, model: &str) -> &'static str {
    let r: Vec<&str> = real.split(' ').collect();
    let m: Vec<&str> = model.split(' ').collect();
    if r[0] != m[0] || r[1..4] != m[1..4] {
        "tone"
    } else if r[4] != m[4] || r[5] != m[5] {
        "noise"
    } else {
        "envelope"
    }
}

fn probe_raw(model: &mut Model, ym: bool, mode: usize, ops: &[Op], mut rep: Option<&mut Report>) -> Option<Disagreement> {
    let tabs = new_model(model, ym, mode);
    let mut ay = mk(ym, mode, 44100);
    let mut lines = vec![];
    let mut real: Vec<(usize, Option<VerifRawTick>)> = vec![];
    let mut shape = 0u8;
    // the register file as the program wrote it, per op index (for the spec's adjudication)
    let mut regs = [0u8; 14];
    let mut regs_at: Vec<[u8; 14]> = vec![];
    for (i, op) in ops.iter().enumerate() {
        if let Op::W(a, v) = op {
            if (*a as usize) < 14 {
                regs[*a as usize] = *v;
            }
        }
        regs_at.push(regs);
        match op {
            Op::W(a, v) => {
                if catch_unwind(AssertUnwindSafe(|| ay.write_register(*a, *v))).is_err() {
                    let mut d = dis(Kind::SpecViolated, "C18/panic", "write_register panicked", format!("w{:02x}{:02x}", a, v), "no panic");
                    d.at = Some(i);
                    return Some(d);
                }
                if *a == 13 {
                    shape = v & 0x0F;
                }
                lines.push(format!("w {:x} {:x}", a, v));
                real.push((i, None));
            }
            Op::T(n) => {
                match ticks_real(&mut ay, *n as usize) {
                    Ok(vs) => {
                        for v in vs {
                            lines.push("t".to_string());
                            real.push((i, Some(v)));
                        }
                    }
                    Err(e) => {
                        let mut d = dis(Kind::SpecViolated, "C18/panic", "update_mixer panicked (assert out < 32 or arithmetic overflow)", e, "no panic");
                        d.at = Some(i);
                        return Some(d);
                    }
                }
            }
        }
    }
    let ans = model.ask_many(&lines);
    for ((i, r), a) in real.iter().zip(ans.iter()) {
        let Some(v) = r else { continue };
        // <outA> <outB> <outC> <state…>
        let mut it = a.splitn(4, ' ');
        let outs = [
            usize::from_str_radix(it.next().unwrap(), 16).unwrap(),
            usize::from_str_radix(it.next().unwrap(), 16).unwrap(),
            usize::from_str_radix(it.next().unwrap(), 16).unwrap(),
        ];
        let mstate = it.next().unwrap();
        let rstate = tick_line(v);
        if let Some(rp) = rep.as_deref_mut() {
            rp.eval();
            rp.class(format!(
                "raw {} {} shape={} seg={} gates={}{}{}",
                if ym { "YM" } else { "AY" },
                MODE_NAMES[mode],
                shape,
                v.envelope_segment & 1,
                (outs[0] > 0) as u8,
                (outs[1] > 0) as u8,
                (outs[2] > 0) as u8
            ));
        }
        if rstate != mstate {
            let comp = component_of(&rstate, mstate);
            let mut d = dis(
                Kind::ModelMismatch,
                format!("C18/raw.{}", comp),
                format!("generator state after op #{} differs from the Lean model ({})", i, comp),
                rstate,
                mstate.to_string(),
            );
            d.at = Some(*i);
            return Some(d);
        }
        let (el, er) = expected_lr(&tabs, outs);
        if v.left.to_bits() != el.to_bits() || v.right.to_bits() != er.to_bits() {
            // the spec decides: what do the registers the program wrote define for the generator state the
            // real chip itself reports (tone bits, noise bit, envelope level)?
            let rg = regs_at[*i];
            let mut souts = [0usize; 3];
            for ch in 0..3 {
                let a = model.ask(&format!(
                    "spec idx {:x} {:x} {:x} {} {} {:x}",
                    rg[7],
                    rg[8 + ch],
                    ch,
                    v.tone[ch] & 1,
                    v.noise & 1,
                    v.envelope
                ));
                souts[ch] = usize::from_str_radix(a.trim(), 16).unwrap_or(usize::MAX);
            }
            let (sl, sr) = expected_lr(&tabs, souts);
            if v.left.to_bits() != sl.to_bits() || v.right.to_bits() != sr.to_bits() {
                let mut d = dis(
                    Kind::SpecViolated,
                    "C18/mixer.history",
                    format!(
                        "after op #{} the output is not what the registers define: R7={:02x} R8..R10={:02x},{:02x},{:02x}, tone bits {}{}{}, noise bit {}, envelope level {} define DAC indices {:?} (gate x (envelope level if bit 4 else volume))",
                        i, rg[7], rg[8], rg[9], rg[10], v.tone[0] & 1, v.tone[1] & 1, v.tone[2] & 1, v.noise & 1, v.envelope, souts
                    ),
                    format!("{:e} {:e}", v.left, v.right),
                    format!("{:e} {:e}", sl, sr),
                );
                d.at = Some(*i);
                return Some(d);
            }
            let mut d = dis(
                Kind::ModelMismatch,
                "C18/raw.mix",
                format!("pre-filter left/right after op #{} differ from dac[out]*pan of the model (outs {:?})", i, outs),
                format!("{:e} {:e}", v.left, v.right),
                format!("{:e} {:e}", el, er),
            );
            d.at = Some(*i);
            return Some(d);
        }
    }
    None
}

fn gen_raw(r: &mut Rng) -> Probe {
    let ym = r.bool();
    let mode = r.below(7) as usize;
    let nops = r.range(10, 60);
    let mut ops = vec![];
    for _ in 0..nops {
        if r.chance(3, 5) {
            let a = match r.below(24) {
                0..=13 => r.below(14) as u8,
                14..=16 => 13,
                17..=18 => 7,
                19 => 6,
                20 => 11,
                21 => 14 + r.below(2) as u8,
                _ => r.u8(),
            };
            let v = match a {
                0 | 2 | 4 => match r.below(4) {
                    0 => r.u8(),
                    _ => r.below(12) as u8,
                },
                1 | 3 | 5 => match r.below(5) {
                    0 => r.u8(),
                    1 => 0xF0,
                    _ => 0,
                },
                6 => match r.below(3) {
                    0 => r.u8(),
                    _ => r.below(5) as u8,
                },
                11 => match r.below(4) {
                    0 => r.u8(),
                    _ => r.below(6) as u8,
                },
                12 => match r.below(5) {
                    0 => r.u8(),
                    _ => 0,
                },
                _ => r.u8(),
            };
            ops.push(Op::W(a, v));
        } else {
            ops.push(Op::T(match r.below(6) {
                0 => r.range(1, 3) as u32,
                5 => r.range(60, 300) as u32,
                _ => r.range(1, 40) as u32,
            }));
        }
    }
    ops.push(Op::T(r.range(1, 70) as u32));
    Probe::Raw { ym, mode, ops }
}

// ------------------------------------------------------------------------------------ spec probes

fn probe_tone(model: &mut Model, ch: usize, fine: u8, coarse: u8, rep: Option<&mut Report>) -> Option<Disagreement> {
    let tp = fine as usize + 256 * (coarse as usize & 0x0F);
    let want = usize::from_str_radix(&model.ask(&format!("spec tone {:x}", tp)), 16).unwrap();
    let mut ay = mk(false, 0, 44100);
    // run a while with another period first so that the counter is somewhere
    ay.write_register((2 * ch) as u8, 37);
    let _ = ticks_real(&mut ay, 23);
    ay.write_register((2 * ch) as u8, fine);
    ay.write_register((2 * ch + 1) as u8, coarse);
    let n = 6 * want + 8;
    let vs = match ticks_real(&mut ay, n) {
        Ok(v) => v,
        Err(e) => return Some(dis(Kind::SpecViolated, "C18/panic", "update_mixer panicked", e, "no panic")),
    };
    let mut toggles = vec![];
    let mut prev = None;
    for (t, v) in vs.iter().enumerate() {
        let cur = v.tone[ch] & 1;
        if let Some(p) = prev {
            if p != cur {
                toggles.push(t);
            }
        }
        prev = Some(cur);
    }
    let intervals: Vec<usize> = toggles.windows(2).map(|w| w[1] - w[0]).collect();
    if let Some(r) = rep {
        r.eval();
        r.class(format!("tone ch={} tp-class={}", ch, match tp {
            0 => "0",
            1 => "1",
            2..=15 => "2-15",
            16..=255 => "16-255",
            256..=4094 => "256-4094",
            _ => "4095",
        }));
    }
    let ok = intervals.len() >= 4 && intervals.iter().all(|d| *d == want) && toggles[0] <= want;
    if !ok {
        return Some(dis(
            Kind::SpecViolated,
            "C18/tone.period",
            format!("channel {} with TP={} (R{}={:#x}, R{}={:#x}): ticks between output toggles", ch, tp, 2 * ch, fine, 2 * ch + 1, coarse),
            format!("first toggle after {:?}, intervals {:?}", toggles.first(), &intervals[..intervals.len().min(8)]),
            format!("every {} ticks", want),
        ));
    }
    None
}

fn probe_noise(model: &mut Model, r6: u8, rep: Option<&mut Report>) -> Option<Disagreement> {
    let want = usize::from_str_radix(&model.ask(&format!("spec noise {:x}", r6)), 16).unwrap();
    let mut ay = mk(false, 0, 44100);
    ay.write_register(6, r6);
    let steps = 40;
    let vs = match ticks_real(&mut ay, want * steps + 4) {
        Ok(v) => v,
        Err(e) => return Some(dis(Kind::SpecViolated, "C18/panic", "update_mixer panicked", e, "no panic")),
    };
    let mut changes = vec![];
    for t in 1..vs.len() {
        if vs[t].noise != vs[t - 1].noise {
            changes.push(t);
        }
    }
    let intervals: Vec<usize> = changes.windows(2).map(|w| w[1] - w[0]).collect();
    if let Some(r) = rep {
        r.eval();
        r.class(format!("noise np={}", r6 & 0x1F));
    }
    if intervals.len() < steps - 3 || intervals.iter().any(|d| *d != want) {
        return Some(dis(
            Kind::SpecViolated,
            "C18/noise.clock",
            format!("R6={:#x} (NP={}): ticks between LFSR steps", r6, r6 & 0x1F),
            format!("{:?}", &intervals[..intervals.len().min(8)]),
            format!("every {} ticks", want),
        ));
    }
    // the sequence of values is the 17-bit LFSR with taps 0 and 3
    let lines: Vec<String> = changes.iter().map(|t| format!("spec lfsr {:x}", vs[t - 1].noise)).collect();
    let ans = model.ask_many(&lines);
    for (t, a) in changes.iter().zip(ans.iter()) {
        let want = usize::from_str_radix(a, 16).unwrap();
        if vs[*t].noise != want {
            return Some(dis(
                Kind::SpecViolated,
                "C18/noise.lfsr",
                format!("LFSR successor of {:#x}", vs[t - 1].noise),
                format!("{:#x}", vs[*t].noise),
                format!("{:#x}", want),
            ));
        }
    }
    None
}

/// The noise generator is clocked at f/(16*NP) whatever the program does to R6 meanwhile: with the period
/// alternating between two values the LFSR keeps stepping at a rate between the two rates.
fn probe_noise_sweep(model: &mut Model, p1: u8, p2: u8, gap: u32, rep: Option<&mut Report>) -> Option<Disagreement> {
    let w1 = usize::from_str_radix(&model.ask(&format!("spec noise {:x}", p1)), 16).unwrap();
    let w2 = usize::from_str_radix(&model.ask(&format!("spec noise {:x}", p2)), 16).unwrap();
    let (lo, hi) = (w1.min(w2), w1.max(w2));
    let mut ay = mk(false, 0, 44100);
    ay.write_register(6, p1);
    let total = hi * 60;
    let mut steps = 0usize;
    let mut last: Option<usize> = None;
    let mut t = 0usize;
    let mut k = 0usize;
    while t < total {
        ay.write_register(6, if k % 2 == 0 { p2 } else { p1 });
        k += 1;
        let vs = match ticks_real(&mut ay, gap as usize) {
            Ok(v) => v,
            Err(e) => return Some(dis(Kind::SpecViolated, "C18/panic", "update_mixer panicked", e, "no panic")),
        };
        for v in vs {
            if let Some(l) = last {
                if l != v.noise {
                    steps += 1;
                }
            }
            last = Some(v.noise);
            t += 1;
        }
    }
    if let Some(r) = rep {
        r.eval();
        r.class(format!("noise sweep np={}/{} gap-class={}", p1 & 0x1F, p2 & 0x1F, if (gap as usize) < lo { "shorter than both periods" } else if (gap as usize) < hi { "between" } else { "longer" }));
    }
    let (min_steps, max_steps) = ((t / hi).saturating_sub(2), t / lo + 2);
    if steps < min_steps || steps > max_steps {
        return Some(dis(
            Kind::SpecViolated,
            "C18/noise.clock.retuned",
            format!("R6 alternating between {:#x} and {:#x} every {} ticks for {} ticks: LFSR steps", p1, p2, gap, t),
            format!("{}", steps),
            format!("{}..{} (one step every {}..{} ticks)", min_steps, max_steps, lo, hi),
        ));
    }
    None
}

fn probe_env(model: &mut Model, r13: u8, ep: u16, rep: Option<&mut Report>) -> Option<Disagreement> {
    let shape = r13 & 0x0F;
    let eff = if ep == 0 { 1 } else { ep as usize };
    let steps = if eff > 1000 { 3 } else { 140 };
    let mut ay = mk(false, 0, 44100);
    ay.write_register(11, ep as u8);
    ay.write_register(12, (ep >> 8) as u8);
    let _ = ticks_real(&mut ay, 5);
    ay.write_register(13, r13);
    let vs = match ticks_real(&mut ay, eff * steps - 1) {
        Ok(v) => v,
        Err(e) => return Some(dis(Kind::SpecViolated, "C18/panic", "update_mixer panicked", e, "no panic")),
    };
    // after tick n (1-based, counted from the R13 write) n / eff envelope steps have been applied
    let mut levels: Vec<Option<usize>> = vec![None; steps];
    let mut steady = true;
    for (i, v) in vs.iter().enumerate() {
        let k = (i + 1) / eff;
        if k >= steps {
            break;
        }
        match levels[k] {
            None => levels[k] = Some(v.envelope),
            Some(x) if x != v.envelope => steady = false,
            _ => {}
        }
    }
    // step 0 is not observable through the hook when eff = 1 (the first tick already steps)
    let offset = if levels[0].is_none() { 1 } else { 0 };
    let shown: Vec<usize> = levels[offset..].iter().map(|x| x.unwrap_or(usize::MAX)).collect();
    if let Some(r) = rep {
        r.eval();
        r.class(format!("env shape={} ep-class={}", shape, match eff {
            1 => "1",
            2..=9 => "2-9",
            10..=999 => "10-999",
            _ => ">=1000",
        }));
    }
    // ask the spec: the sequence must be accepted (with the step-0 value restored from the spec when unobservable)
    let mut seq = shown.clone();
    if offset == 1 {
        let first = model.ask(&format!("spec env {:x} 1", shape));
        seq.insert(0, usize::from_str_radix(&first, 16).unwrap());
    }
    let text = seq.iter().map(|x| format!("{:x}", x)).collect::<Vec<_>>().join(",");
    let ok = model.ask(&format!("spec envok {:x} {}", shape, text)) == "1";
    if !ok || !steady {
        let want = model.ask(&format!("spec env {:x} {:x}", shape, seq.len().min(70)));
        return Some(dis(
            Kind::SpecViolated,
            format!("C18/envelope.shape={}", shape),
            format!("R13={:#x} (shape {}), EP={}: level per envelope step{}", r13, shape, ep, if steady { "" } else { " (level changed inside a step)" }),
            seq.iter().take(70).map(|x| format!("{:x}", x)).collect::<Vec<_>>().join(","),
            want,
        ));
    }
    None
}

/// The envelope period rewritten while the envelope runs (R13 not touched): from its next step on the
/// envelope steps every EP' ticks, and that next step comes no later than the old period allowed.
fn probe_env_retime(model: &mut Model, shape: u8, ep0: u16, run: u32, ep1: u16, rep: Option<&mut Report>) -> Option<Disagreement> {
    let p0 = usize::from_str_radix(&model.ask(&format!("spec envp {:x}", ep0)), 16).unwrap();
    let p1 = usize::from_str_radix(&model.ask(&format!("spec envp {:x}", ep1)), 16).unwrap();
    let mut ay = mk(false, 0, 44100);
    ay.write_register(11, ep0 as u8);
    ay.write_register(12, (ep0 >> 8) as u8);
    ay.write_register(13, shape);
    if ticks_real(&mut ay, run as usize).is_err() {
        return Some(dis(Kind::SpecViolated, "C18/panic", "update_mixer panicked", "panic", "no panic"));
    }
    ay.write_register(11, ep1 as u8);
    ay.write_register(12, (ep1 >> 8) as u8);
    let n = p0.max(p1) + p1 * 6 + 4;
    let vs = match ticks_real(&mut ay, n) {
        Ok(v) => v,
        Err(e) => return Some(dis(Kind::SpecViolated, "C18/panic", "update_mixer panicked", e, "no panic")),
    };
    if let Some(r) = rep {
        r.eval();
        r.class(format!("env-retime shape={} {}", shape & 15, if p1 < p0 { "shorter" } else { "longer" }));
    }
    // steps of a running ramp change the level or (at a turn) the segment
    let changes: Vec<usize> = (1..vs.len())
        .filter(|t| vs[*t].envelope != vs[*t - 1].envelope || vs[*t].envelope_segment != vs[*t - 1].envelope_segment)
        .collect();
    let first = changes.first().copied().unwrap_or(usize::MAX);
    let intervals: Vec<usize> = changes.windows(2).map(|w| w[1] - w[0]).collect();
    if first > p0.max(p1) + 1 || intervals.len() < 3 || intervals.iter().any(|d| *d != p1) {
        return Some(dis(
            Kind::SpecViolated,
            "C18/envelope.retime",
            format!("shape {} running with EP={}, after {} ticks EP rewritten to {} (R13 untouched): ticks to the next step, then between steps", shape & 15, ep0, run, ep1),
            format!("first after {} ticks, then {:?}", first, &intervals[..intervals.len().min(6)]),
            format!("first within {} ticks, then every {} ticks", p0.max(p1), p1),
        ));
    }
    None
}

fn probe_gate(model: &mut Model, ym: bool, mode: usize, r7: u8, vols: [u8; 3], rep: Option<&mut Report>) -> Option<Disagreement> {
    let tabs = new_model(model, ym, mode);
    let mut ay = mk(ym, mode, 44100);
    if (r7 as usize + vols[1] as usize) % 2 == 1 {
        // as the emulator's chip is configured: the DC filter works on the finished samples, never on what a
        // channel contributes to the mix
        ay.enable_dc_filter();
    }
    for (a, v) in [(0u8, 2u8), (2, 3), (4, 5), (6, 1), (11, 2), (13, 14), (7, r7), (8, vols[0]), (9, vols[1]), (10, vols[2])] {
        ay.write_register(a, v);
    }
    let vs = match ticks_real(&mut ay, 24) {
        Ok(v) => v,
        Err(e) => return Some(dis(Kind::SpecViolated, "C18/panic", "update_mixer panicked", e, "no panic")),
    };
    let mut lines = vec![];
    for v in &vs {
        for ch in 0..3 {
            lines.push(format!("spec idx {:x} {:x} {:x} {} {} {:x}", r7, vols[ch], ch, v.tone[ch] & 1, v.noise & 1, v.envelope));
        }
    }
    let ans = model.ask_many(&lines);
    let mut rep = rep;
    for (t, v) in vs.iter().enumerate() {
        let outs = [
            usize::from_str_radix(&ans[3 * t], 16).unwrap(),
            usize::from_str_radix(&ans[3 * t + 1], 16).unwrap(),
            usize::from_str_radix(&ans[3 * t + 2], 16).unwrap(),
        ];
        let (el, er) = expected_lr(&tabs, outs);
        if let Some(r) = rep.as_deref_mut() {
            r.eval();
        }
        // tolerance-free: the same f64 operations in the same order
        if v.left.to_bits() != el.to_bits() || v.right.to_bits() != er.to_bits() {
            // single-channel isolation tells whether the gate/amplitude index is at fault
            return Some(dis(
                Kind::SpecViolated,
                "C18/mixer.gate",
                format!(
                    "{} {} R7={:#04x} R8..R10={:02x?} tick {}: tone={:?} noise bit={} level={} ⇒ DAC indices {:?}",
                    if ym { "YM" } else { "AY" },
                    MODE_NAMES[mode],
                    r7,
                    vols,
                    t,
                    v.tone,
                    v.noise & 1,
                    v.envelope,
                    outs
                ),
                format!("left={:e} right={:e}", v.left, v.right),
                format!("left={:e} right={:e}", el, er),
            ));
        }
    }
    if let Some(r) = rep {
        r.class(format!("gate {} r7={:02x} env={}{}{}", if ym { "YM" } else { "AY" }, r7, (vols[0] >> 4) & 1, (vols[1] >> 4) & 1, (vols[2] >> 4) & 1));
    }
    None
}

/// pre-filter level of channel A alone with the gate forced open
fn level_of(ym: bool, mode: usize, ch: usize, volreg: u8, shape_ticks: Option<(u8, usize)>) -> Option<(f64, f64)> {
    let mut ay = mk(ym, mode, 44100);
    ay.write_register(7, 0x3F);
    ay.write_register(8 + ch as u8, volreg);
    if let Some((shape, _)) = shape_ticks {
        ay.write_register(11, 1);
        ay.write_register(13, shape);
    }
    let n = shape_ticks.map(|x| x.1).unwrap_or(1).max(1);
    let vs = ticks_real(&mut ay, n).ok()?;
    let v = vs.last()?;
    Some((v.left, v.right))
}

fn probe_dac(_model: &mut Model, ym: bool, rep: Option<&mut Report>) -> Option<Disagreement> {
    // volume 0..15 strictly increasing; envelope level 0..31 (shape 13 = attack, one step per tick) non-decreasing
    let mut vols = vec![];
    for v in 0..16u8 {
        vols.push(level_of(ym, 0, 0, v, None)?.0);
    }
    let mut env = vec![];
    for k in 0..32usize {
        // after k ticks with EP=1 the level is k (tick n gives level n); k = 0: use tick 1 of shape 9 … simpler: level k after k ticks, k>=1
        let ticks = if k == 0 { 33 } else { k };
        let shape = if k == 0 { 4 } else { 13 }; // shape 4: after the first ramp the level is 0
        env.push(level_of(ym, 0, 0, 0x10, Some((shape, ticks)))?.0);
    }
    if let Some(r) = rep {
        r.eval();
        r.class(format!("dac {}", if ym { "YM" } else { "AY" }));
    }
    let strict = vols.windows(2).all(|w| w[0] < w[1]);
    let mono = env.windows(2).all(|w| w[0] <= w[1]);
    let bounded = vols.iter().chain(env.iter()).all(|x| x.is_finite() && *x >= 0.0 && *x <= 1.0);
    if !(strict && mono && bounded) {
        return Some(dis(
            Kind::SpecViolated,
            "C18/dac.monotonic",
            format!("{} chip: pre-filter level of one channel per 4-bit volume / per envelope level", if ym { "YM" } else { "AY" }),
            format!("volumes {:?} envelope {:?}", vols, env),
            "strictly increasing with the volume, non-decreasing along the envelope levels, within [0,1]",
        ));
    }
    None
}

fn probe_pan(model: &mut Model, mode: usize, ch: usize, rep: Option<&mut Report>) -> Option<Disagreement> {
    let want = model.ask(&format!("spec place {:x} {:x}", mode, ch));
    let (l, r) = level_of(false, mode, ch, 0x0F, None)?;
    let got = if l > 0.0 && r == 0.0 {
        "2 0"
    } else if r > 0.0 && l == 0.0 {
        "0 2"
    } else if l > 0.0 && (l - r).abs() <= 1e-12 {
        "1 1"
    } else {
        "?"
    };
    if let Some(rp) = rep {
        rp.eval();
        rp.class(format!("pan {} ch={}", MODE_NAMES[mode], ch));
    }
    if got != want {
        return Some(dis(
            Kind::SpecViolated,
            format!("C18/pan.mode={}.ch={}", MODE_NAMES[mode], ch),
            format!("mode {} channel {}: squared (left,right) gains in halves", MODE_NAMES[mode], ["A", "B", "C"][ch]),
            format!("{} (left={:e} right={:e})", got, l, r),
            want,
        ));
    }
    None
}

// ------------------------------------------------------------------------------- signal-level probes

/// |sample| bound over ℚ: 2·(Σ gains ≤ 3·√½)·(FIR ℓ1 norm 1.7743) < 8; the DC filter at most doubles it.
const BOUND: f64 = 8.0;

fn low_rate(rate: usize) -> bool {
    // step = clock / (rate * 64) >= 1: `process` consumes at most one chip tick per oversampled point
    CLOCK >= rate * 64
}

fn signal_key(rate: usize, specific: &str) -> String {
    if low_rate(rate) {
        "C18/signal.low-rate".to_string()
    } else {
        format!("C18/signal.{}", specific)
    }
}

/// the sample stream (left) of one tone channel alone
fn tone_stream(ym: bool, rate: usize, tp: u16, ch: usize, n: usize) -> Option<Vec<f64>> {
    let mut ay = mk(ym, 0, rate);
    ay.write_register((2 * ch) as u8, tp as u8);
    ay.write_register((2 * ch + 1) as u8, (tp >> 8) as u8);
    ay.write_register(7, 0x3F & !(1 << ch));
    ay.write_register(8 + ch as u8, 0x0F);
    catch_unwind(AssertUnwindSafe(|| (0..n).map(|_| ay.next_sample().left).collect::<Vec<f64>>())).ok()
}

fn probe_sigfreq(_model: &mut Model, ym: bool, rate: usize, tp: u16, ch: usize, rep: Option<&mut Report>) -> Option<Disagreement> {
    if tp & 0xFFF == 0 {
        // TP = 0 acts as 1. A 110.8 kHz square wave is half the chip's own tick rate and is not representable
        // after the interpolator, so the frequency cannot be measured; the two streams must be identical instead.
        let a = tone_stream(ym, rate, 0, ch, 4000)?;
        let b = tone_stream(ym, rate, 1, ch, 4000)?;
        if let Some(r) = rep {
            r.eval();
            r.class(format!("sigfreq rate={} tp=0~1", rate));
        }
        if a.iter().map(|x| x.to_bits()).ne(b.iter().map(|x| x.to_bits())) {
            return Some(dis(
                Kind::SpecViolated,
                signal_key(rate, "tone-zero-as-one"),
                format!("{} Hz channel {}: sample streams for TP=0 and TP=1", rate, ch),
                "streams differ",
                "bit-identical streams (a period of 0 acts as 1)",
            ));
        }
        return None;
    }
    let mut ay = mk(ym, 0, rate);
    let tp_eff = if tp & 0xFFF == 0 { 1.0 } else { (tp & 0xFFF) as f64 };
    let f = CLOCK as f64 / (16.0 * tp_eff);
    ay.write_register((2 * ch) as u8, tp as u8);
    ay.write_register((2 * ch + 1) as u8, (tp >> 8) as u8);
    ay.write_register(7, 0x3F & !(1 << ch));
    ay.write_register(8 + ch as u8, 0x0F);
    let n = (rate / 4).max(2000);
    let res = catch_unwind(AssertUnwindSafe(|| (0..n).map(|_| ay.next_sample().left).collect::<Vec<f64>>()));
    let v = match res {
        Ok(v) => v,
        Err(_) => return Some(dis(Kind::SpecViolated, "C18/panic", "next_sample panicked", "panic", "no panic")),
    };
    let skip = 64.min(n / 4);
    let w = &v[skip..];
    let finite = w.iter().all(|x| x.is_finite());
    let maxabs = w.iter().fold(0.0f64, |a, x| a.max(x.abs()));
    let mean = w.iter().sum::<f64>() / w.len() as f64;
    let amp = w.iter().fold(0.0f64, |a, x| a.max((x - mean).abs()));
    let h = 0.2 * amp;
    let mut state = 0i8;
    let mut flips = 0usize;
    for x in w {
        let y = x - mean;
        if y > h && state != 1 {
            if state != 0 {
                flips += 1;
            }
            state = 1;
        } else if y < -h && state != -1 {
            if state != 0 {
                flips += 1;
            }
            state = -1;
        }
    }
    let dur = w.len() as f64 / rate as f64;
    let measured = flips as f64 / 2.0 / dur;
    if let Some(r) = rep {
        r.eval();
        r.class(format!("sigfreq rate={} tp={}", rate, tp));
        r.count("signal_rates", format!("{}", rate));
    }
    let tol = (2.0 / dur).max(0.01 * f);
    if !finite || maxabs > BOUND || (measured - f).abs() > tol || amp < 1e-3 {
        return Some(dis(
            Kind::SpecViolated,
            signal_key(rate, "tone-frequency"),
            format!("{} at {} Hz, channel {} TP={}: square wave through next_sample ({} samples)", if ym { "YM" } else { "AY" }, rate, ch, tp, n),
            format!("measured {:.1} Hz, max |sample| {:e}, finite={}", measured, maxabs, finite),
            format!("f_clk/(16*TP) = {:.1} Hz (±{:.1}), |sample| <= {}", f, tol, BOUND),
        ));
    }
    None
}

fn probe_sigenv(model: &mut Model, ym: bool, rate: usize, shape: u8, rep: Option<&mut Report>) -> Option<Disagreement> {
    let tabs = new_model(model, ym, 0);
    let tick_rate = CLOCK as f64 / 8.0;
    let per_step = 96.0; // output samples per envelope step
    let ep = ((per_step * tick_rate / rate as f64).ceil() as usize).clamp(1, 65535);
    let spp = ep as f64 * rate as f64 / tick_rate; // samples per step
    let steps = 70usize;
    let mut ay = mk(ym, 0, rate);
    ay.write_register(7, 0x3F);
    ay.write_register(8, 0x10);
    ay.write_register(11, ep as u8);
    ay.write_register(12, (ep >> 8) as u8);
    ay.write_register(13, shape);
    let n = (spp * steps as f64) as usize + 64;
    let res = catch_unwind(AssertUnwindSafe(|| (0..n).map(|_| ay.next_sample().left).collect::<Vec<f64>>()));
    let v = match res {
        Ok(v) => v,
        Err(_) => return Some(dis(Kind::SpecViolated, "C18/panic", "next_sample panicked", "panic", "no panic")),
    };
    let want_levels: Vec<usize> = model
        .ask(&format!("spec env {:x} {:x}", shape, steps))
        .split(',')
        .map(|x| usize::from_str_radix(x, 16).unwrap())
        .collect();
    let delay = 14.0;
    let mut got = vec![];
    let mut want = vec![];
    let mut bad = None;
    for k in 0..steps {
        let a = (k as f64 * spp + delay + 0.35 * spp) as usize;
        let b = (k as f64 * spp + delay + 0.9 * spp) as usize;
        let m = v[a..b].iter().sum::<f64>() / (b - a) as f64;
        let w = tabs.dac[want_levels[k]] * tabs.pan_left[0];
        got.push(m);
        want.push(w);
        if !(m.is_finite() && (m - w).abs() <= 0.004 + 0.02 * w) && bad.is_none() {
            bad = Some(k);
        }
    }
    if let Some(r) = rep {
        r.eval();
        r.class(format!("sigenv {} rate={} shape={}", if ym { "YM" } else { "AY" }, rate, shape));
        r.count("signal_rates", format!("{}", rate));
    }
    if let Some(k) = bad {
        let lo = k.saturating_sub(2);
        return Some(dis(
            Kind::SpecViolated,
            signal_key(rate, &format!("envelope-contour.shape={}", shape & 15)),
            format!("{} at {} Hz, shape {} EP={}: mean output level per envelope step (first deviation at step {})", if ym { "YM" } else { "AY" }, rate, shape, ep, k),
            format!("steps {}..: {:?}", lo, got[lo..(k + 3).min(steps)].iter().map(|x| format!("{:.4}", x)).collect::<Vec<_>>()),
            format!("steps {}..: {:?}", lo, want[lo..(k + 3).min(steps)].iter().map(|x| format!("{:.4}", x)).collect::<Vec<_>>()),
        ));
    }
    None
}

fn probe_sigpan(model: &mut Model, rate: usize, mode: usize, ch: usize, rep: Option<&mut Report>) -> Option<Disagreement> {
    let want = model.ask(&format!("spec place {:x} {:x}", mode, ch));
    let mut ay = mk(false, mode, rate);
    ay.write_register((2 * ch) as u8, 120);
    ay.write_register(7, 0x3F & !(1 << ch));
    ay.write_register(8 + ch as u8, 0x0F);
    let n = 3000;
    let res = catch_unwind(AssertUnwindSafe(|| {
        (0..n)
            .map(|_| {
                let s = ay.next_sample();
                (s.left, s.right)
            })
            .collect::<Vec<_>>()
    }));
    let v = match res {
        Ok(v) => v,
        Err(_) => return Some(dis(Kind::SpecViolated, "C18/panic", "next_sample panicked", "panic", "no panic")),
    };
    let el: f64 = v.iter().map(|x| x.0 * x.0).sum();
    let er: f64 = v.iter().map(|x| x.1 * x.1).sum();
    let got = if !(el.is_finite() && er.is_finite()) {
        "?"
    } else if el > 1e-3 && er <= 1e-12 * el {
        "2 0"
    } else if er > 1e-3 && el <= 1e-12 * er {
        "0 2"
    } else if el > 1e-3 && (el - er).abs() <= 1e-9 * el {
        "1 1"
    } else {
        "?"
    };
    if let Some(r) = rep {
        r.eval();
        r.class(format!("sigpan {} ch={}", MODE_NAMES[mode], ch));
    }
    if got != want {
        return Some(dis(
            Kind::SpecViolated,
            signal_key(rate, &format!("stereo.mode={}.ch={}", MODE_NAMES[mode], ch)),
            format!("mode {} channel {} alone at {} Hz: left/right energy", MODE_NAMES[mode], ["A", "B", "C"][ch], rate),
            format!("{} (E_left={:e}, E_right={:e})", got, el, er),
            want,
        ));
    }
    None
}

fn probe_sigfuzz(_model: &mut Model, rate: usize, seed: u64, dc: bool, ym: bool, rep: Option<&mut Report>) -> Option<Disagreement> {
    let mut r = Rng::new(seed);
    let mode = r.below(7) as usize;
    let mut ay = mk(ym, mode, rate);
    if dc {
        ay.enable_dc_filter();
    }
    let bound = if dc { 2.0 * BOUND } else { BOUND };
    let mut worst = 0.0f64;
    let mut finite = true;
    let mut history = vec![];
    let mut total = 0usize;
    let res = catch_unwind(AssertUnwindSafe(|| {
        for _ in 0..30 {
            for _ in 0..r.range(1, 6) {
                let a = if r.chance(1, 12) { r.u8() } else { r.below(14) as u8 };
                let v = r.u8();
                ay.write_register(a, v);
                history.push((a, v));
            }
            let n = r.range(40, 400) as usize;
            for _ in 0..n {
                let s = ay.next_sample();
                finite &= s.left.is_finite() && s.right.is_finite();
                worst = worst.max(s.left.abs()).max(s.right.abs());
            }
            total += n;
            if !finite || worst > bound {
                break;
            }
        }
    }));
    if let Some(rp) = rep {
        rp.eval();
        rp.class(format!("sigfuzz rate={} dc={} {}", rate, dc as u8, if ym { "YM" } else { "AY" }));
        rp.count("signal_rates", format!("{}", rate));
    }
    if res.is_err() {
        return Some(dis(Kind::SpecViolated, "C18/panic", format!("panic under random writes at {} Hz (seed {})", rate, seed), "panic", "no panic"));
    }
    if !finite || worst > bound {
        return Some(dis(
            Kind::SpecViolated,
            signal_key(rate, "bounded"),
            format!("{} Hz, {} random register writes interleaved with {} samples (mode {}, dc filter {})", rate, history.len(), total, MODE_NAMES[mode], dc),
            format!("max |sample| = {:e}, all finite = {}", worst, finite),
            format!("finite and |sample| <= {}", bound),
        ));
    }
    None
}

// ---------------------------------------------------------------------------------------- ports

fn probe_port(model: &mut Model, m128: bool, alias: bool, ops: &[(char, u8)], mut rep: Option<&mut Report>) -> Option<Disagreement> {
    let mut c = Cfg::new(m128);
    c.ay = true;
    c.sound = true;
    let mut e = emu(&c);
    let mut r = Rng::new(ops.len() as u64 * 77 + 5);
    let mut lines = vec!["chip reset".to_string()];
    let mut reads = vec![];
    for (k, (op, v)) in ops.iter().enumerate() {
        // aliases: any address with A15=1, A1=0 (A14 selects register/data port); keep A0=1 so that the ULA is not addressed
        let hi_sel = if alias { 0xC000 | (r.u16() & 0x3FFC) | 0x0001 } else { 0xFFFD };
        let hi_dat = if alias { 0x8000 | (r.u16() & 0x3FFC) | 0x0001 } else { 0xBFFD };
        let res = catch_unwind(AssertUnwindSafe(|| match op {
            's' => {
                e.verif_write_io(hi_sel, *v);
                None
            }
            'w' => {
                e.verif_write_io(hi_dat, *v);
                None
            }
            _ => Some(e.verif_read_io(hi_sel)),
        }));
        match res {
            Err(_) => return Some(dis(Kind::SpecViolated, "C18/panic", format!("port op #{} panicked", k), "panic", "no panic")),
            Ok(None) => lines.push(format!("chip {} {:x}", if *op == 's' { "sel" } else { "w" }, v)),
            Ok(Some(got)) => {
                lines.push(format!("chip r {:x}", got));
                reads.push((k, got, lines.len() - 1));
            }
        }
    }
    // register numbers wrap modulo 16: the same history with every register number reduced modulo 16
    // must make the same sound (not only the same read-back)
    if ops.iter().any(|(op, v)| *op == 's' && *v > 15) {
        let mut twin = emu(&c);
        let res = catch_unwind(AssertUnwindSafe(|| {
            for (op, v) in ops.iter() {
                match op {
                    's' => twin.verif_write_io(0xFFFD, *v & 0x0F),
                    'w' => twin.verif_write_io(0xBFFD, *v),
                    // the same port cycle, so that both machines stay at the same clock
                    _ => {
                        let _ = twin.verif_read_io(0xFFFD);
                    }
                }
            }
            let mut first = None;
            for f in 0..2 {
                let _ = e.emulate_frames(std::time::Duration::from_secs(1));
                let _ = twin.emulate_frames(std::time::Duration::from_secs(1));
                let mut k = 0usize;
                loop {
                    match (e.next_audio_sample(), twin.next_audio_sample()) {
                        (Some(a), Some(b)) => {
                            if (a.left.to_bits(), a.right.to_bits()) != (b.left.to_bits(), b.right.to_bits()) && first.is_none() {
                                first = Some((f, k, a.left as f64, b.left as f64));
                            }
                        }
                        (None, None) => break,
                        _ => {
                            if first.is_none() {
                                first = Some((f, k, f64::NAN, f64::NAN));
                            }
                            break;
                        }
                    }
                    k += 1;
                }
            }
            first
        }));
        if let Some(rp) = rep.as_deref_mut() {
            rp.eval();
        }
        match res {
            Err(_) => return Some(dis(Kind::SpecViolated, "C18/panic", "frames after the port history panicked", "panic", "no panic")),
            Ok(Some((f, k, a, b))) => {
                return Some(dis(
                    Kind::SpecViolated,
                    "C18/port.alias-sound",
                    format!(
                        "{}K: the port history and the same history with register numbers reduced modulo 16 sound different (frame {}, sample {})",
                        if m128 { 128 } else { 48 },
                        f,
                        k
                    ),
                    format!("{:e}", a),
                    format!("{:e} (register numbers wrap modulo 16)", b),
                ))
            }
            Ok(None) => {}
        }
    }
    // the generator behind the ports (hook H5): what the port history programmed must be what the chip
    // definition says for the registers as written — noise clock and tone toggles, measured on raw ticks
    {
        let mut sel = 0usize;
        let mut written: [Option<u8>; 16] = [None; 16];
        for (op, v) in ops.iter() {
            match op {
                's' => sel = (*v & 0x0F) as usize,
                'w' => written[sel] = Some(*v),
                _ => {}
            }
        }
        let np_ticks = written[6].map(|r6| usize::from_str_radix(&model.ask(&format!("spec noise {:x}", r6)), 16).unwrap());
        let tps: Vec<Option<usize>> = (0..3)
            .map(|ch| match (written[2 * ch], written[2 * ch + 1]) {
                (Some(f), Some(c)) => Some(usize::from_str_radix(&model.ask(&format!("spec tone {:x}", f as usize + 256 * (c as usize & 0x0F))), 16).unwrap()),
                _ => None,
            })
            .collect();
        let need = np_ticks.map(|n| n * 6 + 4).unwrap_or(0).max(tps.iter().flatten().filter(|t| **t <= 64).map(|t| t * 6 + 4).max().unwrap_or(0));
        if need > 0 {
            let vs = match catch_unwind(AssertUnwindSafe(|| (0..need).map(|_| e.verif_ay_raw_tick()).collect::<Vec<_>>())) {
                Ok(v) => v,
                Err(_) => return Some(dis(Kind::SpecViolated, "C18/panic", "update_mixer behind the ports panicked", "panic", "no panic")),
            };
            if let Some(rp) = rep.as_deref_mut() {
                rp.eval();
            }
            if let Some(want) = np_ticks {
                let changes: Vec<usize> = (1..vs.len()).filter(|t| vs[*t].noise != vs[*t - 1].noise).collect();
                let intervals: Vec<usize> = changes.windows(2).map(|w| w[1] - w[0]).collect();
                if intervals.len() < 3 || intervals.iter().any(|d| *d != want) {
                    return Some(dis(
                        Kind::SpecViolated,
                        "C18/port.noise-clock",
                        format!("{}K: after the port history R6 holds {:#04x} (NP={}) but the generator behind the ports steps its LFSR at another rate", if m128 { 128 } else { 48 }, written[6].unwrap(), written[6].unwrap() & 0x1F),
                        format!("{:?}", &intervals[..intervals.len().min(6)]),
                        format!("every {} ticks", want),
                    ));
                }
            }
            for ch in 0..3 {
                if let Some(want) = tps[ch] {
                    if want > 64 {
                        continue;
                    }
                    let changes: Vec<usize> = (1..vs.len()).filter(|t| vs[*t].tone[ch] != vs[*t - 1].tone[ch]).collect();
                    let intervals: Vec<usize> = changes.windows(2).map(|w| w[1] - w[0]).collect();
                    if intervals.len() < 3 || intervals.iter().any(|d| *d != want) {
                        return Some(dis(
                            Kind::SpecViolated,
                            "C18/port.tone-clock",
                            format!("{}K: after the port history channel {} has TP registers {:#04x}/{:#04x} but the generator behind the ports toggles at another rate", if m128 { 128 } else { 48 }, ch, written[2 * ch].unwrap(), written[2 * ch + 1].unwrap()),
                            format!("{:?}", &intervals[..intervals.len().min(6)]),
                            format!("every {} ticks", want),
                        ));
                    }
                }
            }
        }
    }
    let ans = model.ask_many(&lines);
    // a read the spec accepts but the model does not (e.g. unimplemented bits read as 0) does not end the search: a
    // later read of the same history may contradict the spec
    let mut pending: Option<Disagreement> = None;
    for (k, got, li) in reads {
        let t: Vec<&str> = ans[li].split(' ').collect();
        if let Some(rp) = rep.as_deref_mut() {
            rp.eval();
        }
        if t[2] != "1" {
            return Some(dis(
                Kind::SpecViolated,
                "C18/readback",
                format!("{}K, op #{}: IN 0xFFFD", if m128 { 128 } else { 48 }, k),
                format!("{:02x}", got),
                format!("{} (the value last written to the selected register, register numbers modulo 16)", t[1]),
            ));
        }
        if format!("{:02x}", got) != t[0] && pending.is_none() {
            pending = Some(dis(Kind::ModelMismatch, "C18/readback.model", format!("op #{}: differs from the Lean model", k), format!("{:02x}", got), t[0]));
        }
    }
    if pending.is_some() {
        return pending;
    }
    if let Some(rp) = rep {
        rp.class(format!("port {}K alias={} len-class={}", if m128 { 128 } else { 48 }, alias as u8, ops.len() / 64));
    }
    None
}

// ------------------------------------------------------------------------------------- dispatch

fn run_probe(model: &mut Model, p: &Probe, rep: Option<&mut Report>) -> Option<Disagreement> {
    match p {
        Probe::Raw { ym, mode, ops } => probe_raw(model, *ym, *mode, ops, rep),
        Probe::Tone { ch, fine, coarse } => probe_tone(model, *ch, *fine, *coarse, rep),
        Probe::Noise { r6 } => probe_noise(model, *r6, rep),
        Probe::NoiseSweep { p1, p2, gap } => probe_noise_sweep(model, *p1, *p2, *gap, rep),
        Probe::Env { r13, ep } => probe_env(model, *r13, *ep, rep),
        Probe::Gate { ym, mode, r7, vols } => probe_gate(model, *ym, *mode, *r7, *vols, rep),
        Probe::EnvRetime { shape, ep0, run, ep1 } => probe_env_retime(model, *shape, *ep0, *run, *ep1, rep),
        Probe::Dac { ym } => probe_dac(model, *ym, rep),
        Probe::Pan { mode, ch } => probe_pan(model, *mode, *ch, rep),
        Probe::SigFreq { ym, rate, tp, ch } => probe_sigfreq(model, *ym, *rate, *tp, *ch, rep),
        Probe::SigEnv { ym, rate, shape } => probe_sigenv(model, *ym, *rate, *shape, rep),
        Probe::SigPan { rate, mode, ch } => probe_sigpan(model, *rate, *mode, *ch, rep),
        Probe::SigFuzz { rate, seed, dc, ym } => probe_sigfuzz(model, *rate, *seed, *dc, *ym, rep),
        Probe::Fir => probe_fir(model, rep),
        Probe::Port { m128, alias, ops } => probe_port(model, *m128, *alias, ops, rep),
    }
}

/// Shrinking: raw sessions and port histories lose operations (each candidate is re-run on the real code);
/// the parameter probes are already minimal.
fn shrink(model: &mut Model, p: &Probe, key: &str) -> Probe {
    let fails = |model: &mut Model, q: &Probe| matches!(run_probe(model, q, None), Some(d) if d.key == key);
    match p {
        Probe::Raw { ym, mode, ops } => {
            let mut cur = ops.clone();
            if let Some(Disagreement { at: Some(i), .. }) = run_probe(model, p, None) {
                cur.truncate(i + 1);
            }
            let mk = |o: &Vec<Op>| Probe::Raw { ym: *ym, mode: *mode, ops: o.clone() };
            let mut budget = 600;
            let mut chunk = (cur.len() / 2).max(1);
            loop {
                let mut i = 0;
                let mut changed = false;
                while i < cur.len() && budget > 0 {
                    let end = (i + chunk).min(cur.len());
                    let mut cand = cur[..i].to_vec();
                    cand.extend_from_slice(&cur[end..]);
                    budget -= 1;
                    if !cand.is_empty() && fails(model, &mk(&cand)) {
                        cur = cand;
                        changed = true;
                    } else {
                        i = end;
                    }
                }
                if budget == 0 || (chunk == 1 && !changed) {
                    break;
                }
                if !changed || chunk > 1 {
                    chunk = (chunk / 2).max(1);
                }
            }
            // shorter tick bursts
            for i in 0..cur.len() {
                while let Op::T(n) = cur[i] {
                    if n <= 1 || budget == 0 {
                        break;
                    }
                    let mut cand = cur.clone();
                    cand[i] = Op::T(n / 2);
                    budget -= 1;
                    if fails(model, &mk(&cand)) {
                        cur = cand;
                        continue;
                    }
                    let mut cand = cur.clone();
                    cand[i] = Op::T(n - 1);
                    budget -= 1;
                    if fails(model, &mk(&cand)) {
                        cur = cand;
                    } else {
                        break;
                    }
                }
            }
            let mut best = mk(&cur);
            if *ym || *mode != 0 {
                let cand = Probe::Raw { ym: false, mode: 0, ops: cur.clone() };
                if fails(model, &cand) {
                    best = cand;
                }
            }
            best
        }
        Probe::Port { m128, alias, ops } => {
            let mut cur = ops.clone();
            let mk = |o: &Vec<(char, u8)>| Probe::Port { m128: *m128, alias: *alias, ops: o.clone() };
            let mut i = 0;
            let mut budget = 400;
            while i < cur.len() && budget > 0 {
                let mut cand = cur.clone();
                cand.remove(i);
                budget -= 1;
                if fails(model, &mk(&cand)) {
                    cur = cand;
                } else {
                    i += 1;
                }
            }
            mk(&cur)
        }
        _ => p.clone(),
    }
}

struct Run<'a> {
    model: Model,
    rep: &'a mut Report,
    pending: Vec<(Probe, Disagreement)>,
}

impl<'a> Run<'a> {
    fn go(&mut self, p: &Probe) {
        if let Some(d) = run_probe(&mut self.model, p, Some(self.rep)) {
            if d.kind == Kind::ModelMismatch {
                // keep looking for an input on which the real code contradicts the spec (the spec probes do that)
                self.rep.count("undecided_mismatches", d.key.clone());
                if !self.pending.iter().any(|(_, x)| x.key == d.key) {
                    self.pending.push((p.clone(), d));
                }
            } else {
                self.record(p, d);
            }
        }
    }
    fn record(&mut self, p: &Probe, d: Disagreement) {
        if self.rep.has_key(&d.key) {
            self.rep.count("repeat_violations", d.key.clone());
            return;
        }
        let small = shrink(&mut self.model, p, &d.key);
        let d2 = run_probe(&mut self.model, &small, None).filter(|x| x.key == d.key).unwrap_or(d);
        self.rep.violation(Violation {
            kind: d2.kind,
            key: d2.key.clone(),
            what: format!("[{}] {}: real code {} / expected {}", small.text(), d2.what, d2.implementation, d2.expected),
            correspondence: "corr.C18 (Model.Ay.tick/writeRegister vs AymPrecise::update_mixer/write_register via verif_raw_tick; Spec.Ay adjudicating)".into(),
            case: J::obj(vec![("text", J::s(small.text()))]),
            implementation: d2.implementation.clone(),
            expected: d2.expected.clone(),
        });
    }
    fn finish(&mut self) {
        let pend = std::mem::take(&mut self.pending);
        for (p, d) in pend {
            // a mismatch of one generator is explained only by a spec violation of the same generator
            let family: &[&str] = match d.key.as_str() {
                "C18/raw.tone" => &["C18/tone."],
                "C18/raw.noise" => &["C18/noise."],
                "C18/raw.envelope" => &["C18/envelope."],
                "C18/raw.mix" => &["C18/mixer.", "C18/pan.", "C18/dac."],
                "C18/readback.model" => &["C18/readback"],
                _ => &[],
            };
            let have_spec = self.rep.violations.iter().any(|v| v.kind == Kind::SpecViolated && family.iter().any(|f| v.key.starts_with(f)));
            if have_spec {
                self.rep.notes.push(format!("code/model mismatch {} attributed to the spec violation(s) reported", d.key));
            } else {
                self.record(&p, d);
            }
        }
    }
}

/// `(tap index, coefficient × 10^22)` of every term of `decimate`, read from the source text
fn fir_from_source() -> Option<Vec<(usize, i128)>> {
    let text = std::fs::read_to_string(".cache/repo/aym/src/backends/precise.rs").ok()?;
    let a = text.find("fn decimate")?;
    let b = a + text[a..].find("split_at_mut")?;
    let mut out = vec![];
    for line in text[a..b].lines() {
        let Some(star) = line.find(" * ") else { continue };
        let Some(xi) = line.find("x[") else { continue };
        if xi < star {
            continue;
        }
        let num = line[..star].trim().rsplit(|c: char| c.is_whitespace()).next()?.trim_start_matches('+');
        let idx: usize = line[xi + 2..].split(']').next()?.parse().ok()?;
        let (neg, digits) = match num.strip_prefix('-') {
            Some(r) => (true, r),
            None => (false, num),
        };
        let (ip, fp) = digits.split_once('.')?;
        if fp.len() > 22 || !ip.chars().all(|c| c.is_ascii_digit()) || !fp.chars().all(|c| c.is_ascii_digit()) {
            return None;
        }
        let mut v: i128 = ip.parse().ok()?;
        v = v * 10i128.pow(22) + format!("{:0<22}", fp).parse::<i128>().ok()?;
        out.push((idx, if neg { -v } else { v }));
    }
    if out.len() < 10 {
        return None;
    }
    Some(out)
}

/// Skipped (a note, never a violation) when the text cannot be parsed any more: the amplitude bound is observed by the
/// signal-level probes in any case.
fn probe_fir(model: &mut Model, rep: Option<&mut Report>) -> Option<Disagreement> {
    let Some(src) = fir_from_source() else {
        if let Some(r) = rep {
            r.notes.push("extractor_skipped: FIR coefficients not found in aym/src/backends/precise.rs".into());
        }
        return None;
    };
    let want = model.ask("spec fir");
    let model_tab: Vec<(usize, i128)> =
        want.split(',').filter_map(|t| t.split_once(':')).map(|(j, c)| (j.parse().unwrap(), c.parse().unwrap())).collect();
    if let Some(r) = rep {
        r.eval();
        r.class(format!("fir table {} taps", src.len()));
    }
    if src != model_tab {
        let diff = src.iter().zip(model_tab.iter()).find(|(a, b)| a != b);
        return Some(dis(
            Kind::ModelMismatch,
            "C18/fir.table",
            "FIR coefficients of `decimate` in the source differ from the table fir_bounded_Q was proved for",
            format!("{} terms, first difference {:?}", src.len(), diff.map(|x| x.0)),
            format!("{} terms, {:?}", model_tab.len(), diff.map(|x| x.1)),
        ));
    }
    None
}

pub fn run(o: &Opts) -> Report {
    let mut rep = Report::new("C18");
    rep.rule = "(1) raw-tick differential: random sessions (chip AY/YM x 7 stereo modes) of register writes (all 14 registers, \
masked bits set, ignored addresses 14..255, small periods so that every generator fires) interleaved with bursts of \
verif_raw_tick; after every tick the integer generator state and the bit pattern of pre-filter left/right (recomputed as \
dac[out]*pan from the model's DAC indices and tables) are compared with the Lean model. (2) spec probes on raw ticks, adjudicated \
by the Lean chip definition: toggle intervals for sampled TP x 3 channels (thorough: all 4096), LFSR step intervals and successor \
values for all 32 NP (+ masked bits), level-per-step sequences for all 16 shapes x 7 EP values (+ masked bits of R13), all 64 \
mixer masks x volume/envelope-bit combinations x AY/YM, DAC monotonicity, placement for 7 modes x 3 channels. (3) signal level on \
next_sample: zero-crossing frequency, envelope contour per shape, L/R energy per mode, finite/bounded under random writes at \
8000..384000 Hz. (4) ports 0xFFFD/0xBFFD on 48K/128K emulators: all 256 register numbers + random histories, canonical and aliased \
addresses. distinct = generator/mode/shape/segment/gate classes seen by (1), parameter classes of (2)-(4)"
        .into();
    let model = Model::spawn(&o.model, "C18");
    let mut run = Run { model, rep: &mut rep, pending: vec![] };

    if let Some(text) = &o.replay {
        run.rep.sample(J::s(text.clone()));
        match Probe::parse(text) {
            Some(p) => {
                if let Some(d) = run_probe(&mut run.model, &p, Some(run.rep)) {
                    run.record(&p, d);
                }
            }
            None => run.rep.notes.push("unparsable replay case".into()),
        }
        drop(run);
        return rep;
    }

    let mut rng = Rng::new(o.seed);
    // (1) raw-tick differential
    let sessions = o.n(1200, 40_000);
    for i in 0..sessions {
        let mut r = rng.fork();
        let p = gen_raw(&mut r);
        if let Probe::Raw { ops, .. } = &p {
            for op in ops {
                match op {
                    Op::W(a, _) => run.rep.count("raw_writes", if *a < 14 { format!("R{}", a) } else { "ignored address".to_string() }),
                    Op::T(n) => run.rep.count_n("raw_ticks", "ticks", *n as u64),
                }
            }
        }
        if i < 1 {
            run.rep.sample(J::s(p.text()));
        }
        run.go(&p);
    }
    // (2) spec probes
    let mut tps: Vec<u16> = vec![0, 1, 2, 3, 4, 5, 7, 8, 15, 16, 17, 255, 256, 257, 1000, 2048, 4094, 4095];
    if o.thorough() {
        tps = (0..4096).collect();
    } else {
        for _ in 0..6 {
            tps.push(rng.below(4096) as u16);
        }
    }
    for ch in 0..3 {
        for tp in &tps {
            run.go(&Probe::Tone { ch, fine: *tp as u8, coarse: (tp >> 8) as u8 });
        }
        // bits 4-7 of the coarse register are not implemented
        run.go(&Probe::Tone { ch, fine: 9, coarse: 0xF0 });
        run.go(&Probe::Tone { ch, fine: 0, coarse: 0xA0 });
    }
    for np in 0..32u8 {
        run.go(&Probe::Noise { r6: np });
    }
    for r6 in [0x20u8, 0xE3, 0xFF, 0x80] {
        run.go(&Probe::Noise { r6 });
    }
    for (p1, p2) in [(1u8, 2u8), (3, 31), (16, 17), (31, 30), (0, 5), (7, 9)] {
        for gap in [1u32, 3, 7, 20, 100] {
            run.go(&Probe::NoiseSweep { p1, p2, gap });
        }
    }
    for shape in 0..16u8 {
        for ep in [0u16, 1, 2, 3, 5, 64, 65535] {
            if ep == 65535 && !o.thorough() && shape % 4 != 2 {
                continue;
            }
            run.go(&Probe::Env { r13: shape, ep });
        }
        run.go(&Probe::Env { r13: 0xF0 | shape, ep: 2 });
    }
    run.rep.sample(J::s(Probe::Env { r13: 10, ep: 3 }.text()));
    for ym in [false, true] {
        for r7 in 0..64u8 {
            // Mono: all three gains are equal, so that a pan-table slip is reported by the pan probes only
            let mode = 0usize;
            for vols in [[0x0F, 0x08, 0x01], [0x1F, 0x10, 0x0C], [0x00, 0x1A, 0x17], [rng.u8(), rng.u8(), rng.u8()]] {
                run.go(&Probe::Gate { ym, mode, r7, vols });
            }
        }
        // bits 6/7 of R7 are the I/O port directions: no effect on sound
        run.go(&Probe::Gate { ym, mode: 0, r7: 0xC0 | 0x2A, vols: [0x0F, 0x1F, 0x05] });
        run.go(&Probe::Dac { ym });
    }
    for mode in 0..7 {
        for ch in 0..3 {
            run.go(&Probe::Pan { mode, ch });
        }
    }
    // (3) signal-level probes on the public API
    let rates = [8000usize, 11025, 22050, 27710, 44100, 48000, 96000, 192000, 384000];
    for (i, rate) in rates.iter().enumerate() {
        // tone periods whose frequency stays below a quarter of the output rate and of the chip's tick rate
        let min_tp = ((CLOCK as f64 / (16.0 * 0.25 * *rate as f64)).ceil() as u16).max(4);
        let mut list = vec![min_tp, min_tp * 3 + 1, 200, 1000];
        if *rate >= 384000 {
            list.push(0); // 0 acts as 1
        }
        for (k, tp) in list.iter().enumerate() {
            run.go(&Probe::SigFreq { ym: (i + k) % 2 == 1, rate: *rate, tp: *tp, ch: (i + k) % 3 });
        }
        for dc in [false, true] {
            for k in 0..o.n(2, 40) {
                run.go(&Probe::SigFuzz { rate: *rate, seed: o.seed * 1000 + k + i as u64 * 100, dc, ym: k % 2 == 1 });
            }
        }
    }
    for shape in 0..16u8 {
        for rate in [44100usize, 96000] {
            run.go(&Probe::SigEnv { ym: shape % 2 == 1, rate, shape });
        }
        if shape == 10 || shape == 13 {
            run.go(&Probe::SigEnv { ym: false, rate: 8000, shape });
            run.go(&Probe::SigEnv { ym: true, rate: 384000, shape });
        }
    }
    for mode in 0..7 {
        for ch in 0..3 {
            run.go(&Probe::SigPan { rate: 44100, mode, ch });
        }
    }
    run.rep.sample(J::s(Probe::SigFreq { ym: false, rate: 44100, tp: 200, ch: 0 }.text()));
    // envelope period rewritten in mid-run, R13 untouched (repeating shapes: every step is visible)
    for shape in [8u8, 10, 12, 14] {
        for (ep0, ticks, ep1) in [(2000u16, 700u32, 100u16), (300, 299, 7), (300, 150, 150), (50, 20, 400), (7, 3, 1), (1, 5, 9), (1000, 999, 999), (600, 300, 0)] {
            run.go(&Probe::EnvRetime { shape, ep0, run: ticks, ep1 });
        }
    }
    // (4) ports
    for m128 in [true, false] {
        for alias in [false, true] {
            // all 256 register numbers: select, write, read back; then read everything again
            let mut ops = vec![];
            for sel in 0..=255u8 {
                ops.push(('s', sel));
                ops.push(('w', sel.wrapping_mul(37) ^ 0x5A));
                ops.push(('r', 0));
            }
            for sel in 0..=255u8 {
                ops.push(('s', sel));
                ops.push(('r', 0));
            }
            run.go(&Probe::Port { m128, alias, ops });
            // the generator behind the ports: noise and tone periods programmed through the ports, as the first
            // write after reset and after other values, with plain and aliased register numbers
            for r6 in [0u8, 1, 2, 5, 31, 0x20, 0xE3, 0xFF] {
                for pre in [None, Some(5u8), Some(0u8)] {
                    for hi in [0u8, 0x10, 0xF0] {
                        let mut ops = vec![];
                        if let Some(p) = pre {
                            ops.push(('s', 6));
                            ops.push(('w', p));
                        }
                        ops.push(('s', 6 | hi));
                        ops.push(('w', r6));
                        ops.push(('r', 0));
                        run.go(&Probe::Port { m128, alias, ops });
                    }
                }
            }
            for (ch, tp) in [(0u8, 0u16), (0, 1), (1, 2), (2, 7), (1, 60), (2, 0x1003), (0, 0xF005)] {
                for hi in [0u8, 0x30] {
                    let ops = vec![
                        ('s', (2 * ch) | hi),
                        ('w', tp as u8),
                        ('s', (2 * ch + 1) | hi),
                        ('w', (tp >> 8) as u8),
                        ('s', 2 * ch),
                        ('w', tp as u8),
                    ];
                    run.go(&Probe::Port { m128, alias, ops });
                }
            }
            for _ in 0..o.n(6, 300) {
                let n = rng.range(5, 120);
                let ops: Vec<(char, u8)> = (0..n)
                    .map(|_| match rng.below(3) {
                        0 => ('s', if rng.bool() { rng.below(16) as u8 } else { rng.u8() }),
                        1 => ('w', rng.u8()),
                        _ => ('r', 0),
                    })
                    .collect();
                run.go(&Probe::Port { m128, alias, ops });
            }
        }
    }
    // (5) the FIR table of the ℚ-model against the text of the source under test
    run.go(&Probe::Fir);
    run.finish();
    let reqs = run.model.requests;
    drop(run);
    rep.extra.push(("raw_sessions".into(), J::I(sessions as i64)));
    rep.extra.push(("model_requests".into(), J::I(reqs as i64)));
    rep
}
