//! C19 — audio arrives at exactly the configured rate and tracks the speaker bit.
//! Real code: a real `Emulator` (sound on). Part A drives `wait_internal` and the ULA write through the
//! hooks `verif_wait` / `verif_write_io(0x00FE, v)` on generated schedules and pops samples with
//! `next_audio_sample` under three host policies (always / sometimes / never drain); everything popped
//! is compared with the Lean mixer model, and the spec adjudicates (per-frame count, queue bound,
//! speaker level per sample within one sample period, amplitude bound). Part B runs real Z80 programs
//! through `emulate_frames` (FrameCount(1)) and drains after every call. Part C: AY sounding.
use crate::host::*;
use crate::util::*;
use std::panic::{catch_unwind, AssertUnwindSafe};

const RATES: [usize; 10] = [8000, 11025, 12800, 22050, 44100, 48000, 51200, 96000, 204800, 384000];

#[derive(Clone, Debug, PartialEq)]
enum Ev {
    Wait(usize),
    Out(u8),
    Pop(usize),
    Drain,
    /// the host switches the AY chip's contribution on or off (Emulator::set_ay_enabled) — a silent chip adds
    /// nothing, so the beeper samples, the queue and the speaker level are what they were
    Ay(bool),
}

#[derive(Clone, Copy, Debug, PartialEq)]
enum Policy {
    Always,
    Sometimes,
    Never,
}

#[derive(Clone, Debug, PartialEq)]
struct Case {
    m128: bool,
    rate: usize,
    vol: u8,
    beeper: bool,
    ay: bool,
    policy: Policy,
    /// the ULA port the speaker is written through (an even port; the high byte may lie in contended RAM)
    port: u16,
    /// a tape is inserted and playing during the whole schedule (its EAR *input* is not the speaker)
    tape: bool,
    /// the schedule starts from a machine that has just loaded an SZX snapshot standing this many T-states into its
    /// frame (0 = no load): the samples of the rest of that frame sit where frame time puts them
    szx: usize,
    evs: Vec<Ev>,
}

impl Case {
    fn text(&self) -> String {
        format!(
            "sched m128={} rate={} vol={} beeper={} ay={} port={:04x} tape={} szx={} policy={} evs={}",
            self.m128 as u8,
            self.rate,
            self.vol,
            self.beeper as u8,
            self.ay as u8,
            self.port,
            self.tape as u8,
            self.szx,
            match self.policy {
                Policy::Always => "always",
                Policy::Sometimes => "sometimes",
                Policy::Never => "never",
            },
            if self.evs.is_empty() {
                "-".to_string()
            } else {
                self.evs
                    .iter()
                    .map(|e| match e {
                        Ev::Wait(n) => format!("w{}", n),
                        Ev::Out(v) => format!("o{:02x}", v),
                        Ev::Pop(n) => format!("p{}", n),
                        Ev::Drain => "d".to_string(),
                        Ev::Ay(b) => format!("a{}", *b as u8),
                    })
                    .collect::<Vec<_>>()
                    .join(",")
            }
        )
    }
    fn parse(s: &str) -> Option<Case> {
        let mut it = s.split_whitespace();
        if it.next()? != "sched" {
            return None;
        }
        let mut c = Case { m128: false, rate: 44100, vol: 100, beeper: true, ay: false, policy: Policy::Always, port: 0x00FE, tape: false, szx: 0, evs: vec![] };
        for kv in it {
            let (k, v) = kv.split_once('=')?;
            match k {
                "m128" => c.m128 = v == "1",
                "rate" => c.rate = v.parse().ok()?,
                "vol" => c.vol = v.parse().ok()?,
                "beeper" => c.beeper = v == "1",
                "ay" => c.ay = v == "1",
                "port" => c.port = u16::from_str_radix(v, 16).ok()?,
                "tape" => c.tape = v == "1",
                "szx" => c.szx = v.parse().ok()?,
                "policy" => {
                    c.policy = match v {
                        "always" => Policy::Always,
                        "sometimes" => Policy::Sometimes,
                        _ => Policy::Never,
                    }
                }
                "evs" => {
                    for t in v.split(',') {
                        if t == "-" || t.is_empty() {
                            continue;
                        }
                        let (h, r) = t.split_at(1);
                        c.evs.push(match h {
                            "w" => Ev::Wait(r.parse().ok()?),
                            "o" => Ev::Out(u8::from_str_radix(r, 16).ok()?),
                            "p" => Ev::Pop(r.parse().ok()?),
                            "a" => Ev::Ay(r == "1"),
                            _ => Ev::Drain,
                        });
                    }
                }
                _ => return None,
            }
        }
        Some(c)
    }
    fn frame_len(&self) -> usize {
        if self.m128 {
            70908
        } else {
            69888
        }
    }
    fn cfg(&self) -> Cfg {
        let mut c = Cfg::new(self.m128);
        c.sound = true;
        c.rate = self.rate;
        c.volume = self.vol;
        c.beeper = self.beeper;
        c.ay = self.ay;
        c
    }
}

struct Disagreement {
    kind: Kind,
    key: String,
    what: String,
    implementation: String,
    expected: String,
    at: Option<usize>,
}

fn dis(kind: Kind, key: &str, at: Option<usize>, what: String, imp: String, exp: String) -> Disagreement {
    Disagreement { kind, key: key.to_string(), what, implementation: imp, expected: exp, at }
}

/// the ULA delay at frame T-state `t` (the contention table of C04; used here only to know at which T-state of
/// a contended port cycle the speaker level changes)
fn ula_delay(m128: bool, t: usize) -> usize {
    let (t0, line) = if m128 { (14361usize, 228usize) } else { (14335, 224) };
    if t < t0 {
        return 0;
    }
    let d = t - t0;
    if d / line >= 192 || d % line >= 128 {
        return 0;
    }
    [6, 5, 4, 3, 2, 1, 0, 0][d % line % 8]
}

/// `sample_count_for_frame_fraction(frame_pos())` as the code computes it (the f64 part that the Lean
/// model takes as an input and whose assumed properties the driver checks on every value).
fn pos_f64(spf: usize, fc: usize, l: usize) -> usize {
    let val = fc as f64 / l as f64;
    let val = if val > 1.0 { 1.0 } else { val };
    if val >= 1.0 {
        spf
    } else {
        (spf as f64 * val) as usize
    }
}

/// the f32 the mixer produces for a beeper level (same operations as gen_sample)
fn level_value(code: usize, vol: u8) -> f32 {
    let mut s = 0.0f64;
    if code & 2 != 0 {
        s += 0.5;
    }
    if code & 1 != 0 {
        s += 0.5 / 5.0;
    }
    s *= vol as f64 / 200.0;
    s as f32
}

fn decode(left: f32, right: f32, vol: u8, beeper: bool) -> Option<usize> {
    for code in 0..4 {
        let v = if beeper { level_value(code, vol) } else { 0.0 };
        if left.to_bits() == v.to_bits() && right.to_bits() == v.to_bits() {
            return Some(code);
        }
    }
    None
}

fn rle(codes: &[usize]) -> String {
    if codes.is_empty() {
        return "-".into();
    }
    let mut toks = vec![];
    let mut cur = codes[0];
    let mut n = 0usize;
    for c in codes {
        if *c == cur {
            n += 1;
        } else {
            toks.push(format!("{}:{:x}", cur, n));
            cur = *c;
            n = 1;
        }
    }
    toks.push(format!("{}:{:x}", cur, n));
    toks.join(",")
}

/// total length of a run-length text, rendered as one run of level 0
fn collapse(text: &str) -> String {
    if text == "-" {
        return "-".into();
    }
    let n: usize = text.split(',').filter_map(|t| t.split_once(':')).map(|(_, n)| usize::from_str_radix(n, 16).unwrap_or(0)).sum();
    format!("0:{:x}", n)
}

fn level_code(v: u8) -> usize {
    (if v & 0x10 != 0 { 2 } else { 0 }) + (if v & 0x08 != 0 { 1 } else { 0 })
}

/// Runs one schedule on the real emulator and on the model.
fn check_case(model: &mut Model, c: &Case, mut rep: Option<&mut Report>) -> Option<Disagreement> {
    let l = c.frame_len();
    let spf = c.rate / 50;
    let mut e = emu(&c.cfg());
    if c.tape {
        // a header-sized block: its pilot tone toggles the EAR input every 2168 T for the whole schedule
        let mut blk = vec![0x00u8; 19];
        blk[18] = blk.iter().fold(0, |a, b| a ^ b);
        let mut tap = vec![19u8, 0];
        tap.extend_from_slice(&blk);
        let _ = e.load_tape(rustzx_core::host::Tape::Tap(VAsset::new(tap)));
        e.play_tape();
    }
    let a = model.ask(&format!("new {:x} {:x} {}", spf, l, c.beeper as u8));
    assert_eq!(a, "ok");
    let mut fc = 0usize; // mirror of frame_clocks
    let frames0 = e.verif_frames_count();
    let mut lines: Vec<String> = vec![];
    enum Chk {
        None,
        /// after the last wait of an event: cumulative frames and frame_clocks of the real machine
        Wait { ev: usize, frames: usize, fc: usize },
        Pop { ev: usize, codes: Vec<usize>, bad_value: Option<(f32, f32)>, spec: Option<String> },
    }
    let mut chks: Vec<Chk> = vec![];
    if c.szx > 0 {
        let mut f = b"ZXST".to_vec();
        f.extend_from_slice(&[1, 4, if c.m128 { 2 } else { 1 }, 0]);
        f.extend_from_slice(b"SPCR");
        f.extend_from_slice(&8u32.to_le_bytes());
        // chFe: the speaker/MIC bits the file describes (the loader performs that port write before the frame
        // position of Z80R is applied: on a fresh machine the level changes at T = 1)
        let che = [0x00u8, 0x10, 0x18, 0x08, 0x1F][(c.szx / 3) % 5];
        f.extend_from_slice(&[0, 0, 0, che, 0, 0, 0, 0]);
        f.extend_from_slice(b"Z80R");
        f.extend_from_slice(&37u32.to_le_bytes());
        let mut z = [0u8; 37];
        z[29..33].copy_from_slice(&((c.szx % l) as u32).to_le_bytes());
        f.extend_from_slice(&z);
        let _ = e.load_snapshot(rustzx_core::host::Snapshot::Szx(VAsset::new(f)));
        while e.next_audio_sample().is_some() {}
        // a zero-length bus wait lets the mixer catch up with the restored frame position, as the first cycle of the
        // loaded program would
        e.verif_wait(0);
        fc = e.verif_frame_clocks();
        // the model is told where the frame stands: time passes without a sample being due before that point
        // only if the real mixer agrees; a plain wait of that length describes it
    }
    // speaker timeline of the current frame, for the edge spec (always policy)
    let mut frame_init = 0usize;
    let mut cur_level = 0usize;
    let mut frame_writes: Vec<(usize, usize)> = vec![];
    if c.szx > 0 && fc > 1 {
        let che = [0x00u8, 0x10, 0x18, 0x08, 0x1F][(c.szx / 3) % 5];
        lines.push(format!("w 1 {:x}", pos_f64(spf, 1, l)));
        chks.push(Chk::None);
        lines.push(format!("o {:x}", che));
        chks.push(Chk::None);
        cur_level = level_code(che);
        frame_writes.push((1, cur_level));
        lines.push(format!("w {:x} {:x}", fc - 1, pos_f64(spf, fc, l)));
        chks.push(Chk::None);
    }
    let mut total_popped = 0usize;
    let mut total_frames = 0usize;
    let mut frames_with_writes = 0usize;

    let pop_real = |e: &mut Emu, n: usize| -> (Vec<usize>, Option<(f32, f32)>) {
        let mut codes = vec![];
        let mut bad = None;
        for _ in 0..n {
            match e.next_audio_sample() {
                None => break,
                Some(s) => match decode(s.left, s.right, c.vol, c.beeper) {
                    Some(code) => codes.push(code),
                    None => {
                        if bad.is_none() {
                            bad = Some((s.left, s.right));
                        }
                        codes.push(9);
                    }
                },
            }
        }
        (codes, bad)
    };

    for (i, ev) in c.evs.iter().enumerate() {
        let mut waits: Vec<usize> = vec![];
        let mut out: Option<u8> = None;
        match ev {
            Ev::Wait(n) => {
                if catch_unwind(AssertUnwindSafe(|| e.verif_wait(*n))).is_err() {
                    return Some(dis(Kind::SpecViolated, "C19/panic", Some(i), format!("wait_internal({}) panicked", n), "panic".into(), "no panic".into()));
                }
                waits.push(*n);
            }
            Ev::Out(v) => {
                let t0 = e.verif_frame_clocks();
                if catch_unwind(AssertUnwindSafe(|| e.verif_write_io(c.port, *v))).is_err() {
                    return Some(dis(Kind::SpecViolated, "C19/panic", Some(i), "write_io(0xFE) panicked".into(), "panic".into(), "no panic".into()));
                }
                let t1 = e.verif_frame_clocks();
                let total = if t1 >= t0 { t1 - t0 } else { (t1 + l).saturating_sub(t0) };
                // write_io: [ULA delay if the port's high byte is contended] wait_internal(1); beeper.change_state;
                // the rest of the port pattern; wait_internal(1). The level changes after the first part.
                let hi_contended = (0x40..0x80).contains(&(c.port >> 8));
                let first = 1 + if hi_contended { ula_delay(c.m128, t0 % l) } else { 0 };
                if !(4..=16).contains(&total) || total < first + 1 {
                    return Some(dis(Kind::ModelMismatch, "C19/write-io-length", Some(i), "clocks taken by OUT to the ULA port".into(), format!("{}", total), format!("4..16 and at least {} (ULA delay + 1, then the level changes)", first + 1)));
                }
                waits = vec![first, total - first - 1, 1];
                out = Some(*v);
            }
            Ev::Pop(n) => {
                let (codes, bad) = pop_real(&mut e, *n);
                total_popped += codes.len();
                lines.push(format!("p {:x}", n));
                chks.push(Chk::Pop { ev: i, codes, bad_value: bad, spec: None });
            }
            Ev::Drain => {
                let (codes, bad) = pop_real(&mut e, usize::MAX);
                total_popped += codes.len();
                lines.push("d".into());
                chks.push(Chk::Pop { ev: i, codes, bad_value: bad, spec: None });
            }
            Ev::Ay(b) => {
                if catch_unwind(AssertUnwindSafe(|| e.set_ay_enabled(*b))).is_err() {
                    return Some(dis(Kind::SpecViolated, "C19/panic", Some(i), "set_ay_enabled panicked".into(), "panic".into(), "no panic".into()));
                }
            }
        }
        // the frame that ended during this event: (level at its start, its writes)
        let mut ended: Option<(usize, Vec<(usize, usize)>)> = None;
        for (k, w) in waits.iter().enumerate() {
            if k == 1 {
                if let Some(v) = out {
                    lines.push(format!("o {:x}", v));
                    chks.push(Chk::None);
                    cur_level = level_code(v);
                    frame_writes.push((fc, cur_level));
                }
            }
            let t = fc + w;
            lines.push(format!("w {:x} {:x}", w, pos_f64(spf, t, l)));
            if t >= l {
                fc = t - l;
                total_frames += 1;
                if !frame_writes.is_empty() {
                    frames_with_writes += 1;
                }
                ended = Some((frame_init, std::mem::take(&mut frame_writes)));
                frame_init = cur_level;
            } else {
                fc = t;
            }
            if k + 1 == waits.len() {
                chks.push(Chk::Wait { ev: i, frames: e.verif_frames_count() - frames0, fc: e.verif_frame_clocks() });
            } else {
                chks.push(Chk::None);
            }
        }
        if let (Some((init, writes)), Policy::Always) = (ended, c.policy) {
            // the always-drain host empties the queue as soon as it sees that a frame has ended
            let (codes, bad) = pop_real(&mut e, usize::MAX);
            total_popped += codes.len();
            lines.push("d".into());
            let line = format!(
                "sf {:x} {:x} {} {} {}",
                l,
                spf,
                init,
                if writes.is_empty() { "-".to_string() } else { writes.iter().map(|(t, c)| format!("{:x}:{}", t, c)).collect::<Vec<_>>().join(",") },
                rle(&codes)
            );
            chks.push(Chk::Pop { ev: i, codes, bad_value: bad, spec: Some(line) });
        }
    }
    // drain at the very end so that the final queue is compared too
    let (codes, bad) = pop_real(&mut e, usize::MAX);
    let final_len = codes.len();
    lines.push("d".into());
    chks.push(Chk::Pop { ev: c.evs.len(), codes, bad_value: bad, spec: None });

    let ans = model.ask_many(&lines);
    let bound_units = usize::from_str_radix(&model.ask(&format!("sv {:x}", c.vol)), 16).unwrap();
    let bound = bound_units as f64 / 2000.0;
    let mut pending: Option<Disagreement> = None;
    for (chk, a) in chks.iter().zip(ans.iter()) {
        match chk {
            Chk::None => {}
            Chk::Wait { ev, frames, fc } => {
                let t: Vec<&str> = a.split(' ').collect();
                let mf = usize::from_str_radix(t[0], 16).unwrap();
                let mfc = usize::from_str_radix(t[1], 16).unwrap();
                if let Some(r) = rep.as_deref_mut() {
                    r.eval();
                }
                if t[4] != "1" {
                    return Some(dis(
                        Kind::ModelMismatch,
                        "C19/frame-pos-hypothesis",
                        Some(*ev),
                        format!("event #{}: the f64 sample index is not within [q-1, q] of the rational index or not capped at spf", ev),
                        a.clone(),
                        "PosOk".into(),
                    ));
                }
                if mfc != *fc || mf != *frames {
                    return Some(dis(
                        Kind::ModelMismatch,
                        "C19/frame-clocks",
                        Some(*ev),
                        format!("event #{}: (frames passed, frame_clocks) after the event", ev),
                        format!("({}, {})", frames, fc),
                        format!("({}, {})", mf, mfc),
                    ));
                }
            }
            Chk::Pop { ev, codes, bad_value, spec } => {
                let t: Vec<&str> = a.split(' ').collect();
                let got = rle(codes);
                // with volume 0 every level is the same sample: only the number of samples can be compared
                let silent = c.vol == 0 || !c.beeper;
                let model_text = if silent { collapse(t[0]) } else { t[0].to_string() };
                if let Some(r) = rep.as_deref_mut() {
                    r.eval();
                    let runs = got.split(',').count();
                    r.class(format!(
                        "pop rate={} {:?} {} len={} level-runs={}",
                        c.rate,
                        c.policy,
                        if spec.is_some() { "frame-batch" } else { "host-pop" },
                        match codes.len() {
                            0 => "0",
                            n if n < spf => "<spf",
                            n if n == spf => "spf",
                            _ => ">spf",
                        },
                        match runs {
                            0 | 1 => "1",
                            2 => "2",
                            3..=6 => "3-6",
                            _ => ">6",
                        }
                    ));
                }
                if let Some((lv, rv)) = bad_value {
                    let over = !(lv.is_finite() && rv.is_finite()) || lv.abs() as f64 > bound + 1e-6 || rv.abs() as f64 > bound + 1e-6;
                    return Some(dis(
                        if over { Kind::SpecViolated } else { Kind::ModelMismatch },
                        if over { "C19/bounded" } else { "C19/sample-value" },
                        Some(*ev),
                        format!("event #{}: a popped sample is not one of the four beeper levels times volume/200", ev),
                        format!("left={:e} right={:e}", lv, rv),
                        format!("one of 0, 0.1, 0.5, 0.6 times {}/200 (|sample| <= {})", c.vol, bound),
                    ));
                }
                if spec.is_some() && codes.len() != spf {
                    return Some(dis(
                        Kind::SpecViolated,
                        "C19/count",
                        Some(*ev),
                        format!("event #{}: samples delivered for the frame that just ended (host drains at every boundary)", ev),
                        format!("{}", codes.len()),
                        format!("{} = floor({}/50)", spf, c.rate),
                    ));
                }
                if let (Some(line), false) = (spec, silent) {
                    let verdict = model.ask(line);
                    if verdict != "ok" {
                        return Some(dis(
                            Kind::SpecViolated,
                            "C19/edge",
                            Some(*ev),
                            format!("event #{}: frame batch vs speaker timeline [{}]: verdict {} (index of the first sample that is not a level the speaker had within one sample period of k/spf)", ev, line, verdict),
                            got,
                            format!("model: {}", t[0]),
                        ));
                    }
                }
                if got != model_text {
                    // keep looking: a spec clause (queue bound) may be violated by the same cause
                    if pending.is_none() {
                        pending = Some(dis(
                            Kind::ModelMismatch,
                            if spec.is_some() { "C19/frame-contents" } else { "C19/pop-contents" },
                            Some(*ev),
                            format!("event #{}: samples popped differ from the Lean model", ev),
                            got,
                            model_text,
                        ));
                    }
                }
            }
        }
    }
    if c.policy == Policy::Never && model.ask(&format!("sq {:x} {:x}", spf, final_len)) != "1" {
        return Some(dis(
            Kind::SpecViolated,
            "C19/queue-bound",
            None,
            format!("queue length after {} frames without draining", total_frames),
            format!("{}", final_len),
            format!("< {}", 2 * spf),
        ));
    }
    if pending.is_some() {
        return pending;
    }
    if let Some(r) = rep {
        r.class(format!(
            "{} rate={} policy={:?} vol={} beeper={} ay={} frames-with-writes={}",
            if c.m128 { "128K" } else { "48K" },
            c.rate,
            c.policy,
            match c.vol {
                0 => "0",
                100 => "100",
                255 => "255",
                _ => "other",
            },
            c.beeper as u8,
            c.ay as u8,
            frames_with_writes.min(3)
        ));
        r.count("rates", format!("{}", c.rate));
        r.count("policies", format!("{:?}", c.policy));
        r.count_n("frames", if c.m128 { "128K" } else { "48K" }, total_frames as u64);
        r.count_n("samples_popped", "samples", total_popped as u64);
    }
    None
}

fn gen_case(r: &mut Rng, m128: bool, rate: usize, policy: Policy, frames: usize) -> Case {
    let l = if m128 { 70908 } else { 69888 };
    let spf = rate / 50;
    let vol = match r.below(6) {
        0 => 0,
        1 => 255,
        2 => r.u8(),
        _ => 100,
    };
    let beeper = !r.chance(1, 8);
    let ay = r.chance(1, 4);
    let mut evs = vec![];
    let mut fc = 0usize;
    let mut done = 0usize;
    let mut level = 0u8;
    let style = r.below(3);
    while done < frames {
        let x = r.below(100);
        if x < 8 {
            // speaker / MIC write; sometimes a burst inside one sample period
            let n = if r.chance(1, 5) { r.range(2, 4) } else { 1 };
            for _ in 0..n {
                level = match r.below(4) {
                    0 => level ^ 0x10,
                    1 => level ^ 0x08,
                    2 => level ^ 0x18,
                    _ => (r.u8() & 0x18) | (r.u8() & 7),
                };
                evs.push(Ev::Out(level));
                // 4..12 clocks; the mirror of frame_clocks is kept by check_case, here an estimate is enough
                fc += 8;
                if n > 1 {
                    let w = r.range(1, 20) as usize;
                    evs.push(Ev::Wait(w));
                    fc += w;
                }
            }
        } else if x < 12 && policy == Policy::Sometimes {
            evs.push(if r.bool() { Ev::Pop(r.range(0, (spf as u64 * 3) / 2) as usize) } else { Ev::Drain });
        } else {
            let w = match style {
                0 => r.range(1, 30),
                1 => r.range(1, 400),
                _ => match r.below(10) {
                    0 => r.range(400, 3000),
                    1..=3 => r.range(30, 400),
                    _ => r.range(1, 30),
                },
            } as usize;
            // land exactly on the boundary now and then
            let w = if fc < l && l - fc <= 3000 && r.chance(1, 4) { l - fc } else { w };
            evs.push(Ev::Wait(w));
            fc += w;
        }
        if fc >= l {
            fc -= l;
            done += 1;
            if r.chance(1, 6) {
                evs.push(Ev::Ay(r.bool()));
            }
            if policy == Policy::Sometimes {
                match r.below(4) {
                    0 => evs.push(Ev::Drain),
                    1 => evs.push(Ev::Pop(r.range(0, spf as u64) as usize)),
                    2 => evs.push(Ev::Pop(r.range(spf as u64, 2 * spf as u64) as usize)),
                    _ => {}
                }
            }
        }
    }
    // a third of the schedules write the speaker through a port whose high byte lies in contended RAM
    let port = *r.pick(&[0x00FEu16, 0xBFFE, 0x7FFE]);
    Case { m128, rate, vol, beeper, ay, policy, port, tape: r.chance(1, 4), szx: if r.chance(1, 5) { 2000 + r.below(60000) as usize } else { 0 }, evs }
}

fn shrink(model: &mut Model, c: &Case, key: &str) -> Case {
    let fails = |model: &mut Model, q: &Case| matches!(check_case(model, q, None), Some(d) if d.key == key);
    let mut cur = c.clone();
    if let Some(Disagreement { at: Some(i), key: k, .. }) = check_case(model, &cur, None) {
        if k == key && i + 1 < cur.evs.len() {
            let mut a = cur.clone();
            a.evs.truncate(i + 1);
            if fails(model, &a) {
                cur = a;
            }
        }
    }
    // merge runs of waits, drop events
    let mut budget = 300;
    let mut chunk = (cur.evs.len() / 2).max(1);
    loop {
        let mut i = 0;
        let mut changed = false;
        while i < cur.evs.len() && budget > 0 {
            let end = (i + chunk).min(cur.evs.len());
            // replace the chunk by one wait of the same total length (keeps later frame clocks roughly in place)
            let total: usize = cur.evs[i..end]
                .iter()
                .map(|e| match e {
                    Ev::Wait(n) => *n,
                    Ev::Out(_) => 8,
                    _ => 0,
                })
                .sum();
            let mut cand = cur.clone();
            cand.evs.splice(i..end, if total > 0 && end - i > 1 { vec![Ev::Wait(total)] } else { vec![] });
            budget -= 1;
            if cand.evs.len() < cur.evs.len() && fails(model, &cand) {
                cur = cand;
                changed = true;
            } else {
                i = end;
            }
        }
        if budget == 0 || (chunk == 1 && !changed) {
            break;
        }
        if !changed || chunk > 1 {
            chunk = (chunk / 2).max(1);
        }
    }
    for (f, v) in [(0usize, 0u8), (1, 0), (2, 0)] {
        let mut a = cur.clone();
        match f {
            0 => { a.ay = false; a.tape = false; a.szx = 0; }
            1 => a.beeper = true,
            _ => a.vol = 100,
        }
        let _ = v;
        if a != cur && fails(model, &a) {
            cur = a;
        }
    }
    cur
}

// ------------------------------------------------------------------ part B: real Z80 programs

#[derive(Clone, Debug, PartialEq)]
struct ProgCase {
    m128: bool,
    rate: usize,
    /// delay loop count between speaker toggles (B register of DJNZ, outer loop count)
    delay: u8,
    frames: usize,
}

impl ProgCase {
    fn text(&self) -> String {
        format!("prog m128={} rate={} delay={} frames={}", self.m128 as u8, self.rate, self.delay, self.frames)
    }
    fn parse(s: &str) -> Option<ProgCase> {
        let mut it = s.split_whitespace();
        if it.next()? != "prog" {
            return None;
        }
        let mut c = ProgCase { m128: false, rate: 44100, delay: 100, frames: 6 };
        for kv in it {
            let (k, v) = kv.split_once('=')?;
            match k {
                "m128" => c.m128 = v == "1",
                "rate" => c.rate = v.parse().ok()?,
                "delay" => c.delay = v.parse().ok()?,
                "frames" => c.frames = v.parse().ok()?,
                _ => return None,
            }
        }
        Some(c)
    }
}

/// Runs the toggling program for `frames` calls of emulate_frames, draining after each; returns per call
/// (count, edge sample indices, frame clock at return).
fn run_prog(c: &ProgCase) -> Result<Vec<(usize, Vec<usize>, usize)>, String> {
    let mut cfg = Cfg::new(c.m128);
    cfg.sound = true;
    cfg.rate = c.rate;
    let res = catch_unwind(AssertUnwindSafe(|| {
        let mut e = emu(&cfg);
        // 0x8000: LD A,0x10 ; loop: OUT (0xFE),A ; XOR 0x10 ; LD B,delay ; d: DJNZ d ; LD B,delay ; d2: DJNZ d2 ; JR loop
        let prog = [0x3E, 0x10, 0xD3, 0xFE, 0xEE, 0x10, 0x06, c.delay, 0x10, 0xFE, 0x06, c.delay, 0x10, 0xFE, 0x18, 0xF2];
        for (i, b) in prog.iter().enumerate() {
            e.verif_write_mem(0x8000 + i as u16, *b, 0);
        }
        let cpu = e.verif_cpu();
        cpu.regs.set_pc(0x8000);
        cpu.regs.set_sp(0xFF00);
        cpu.regs.set_iff1(false);
        // start every run at frame clock 0 with an empty queue
        let rest = if c.m128 { 70908 } else { 69888 } - e.verif_frame_clocks();
        e.verif_wait(rest);
        while e.next_audio_sample().is_some() {}
        assert!(e.have_sound());
        let mut out = vec![];
        let mut prev = 0usize;
        for _ in 0..c.frames {
            let _ = e.emulate_frames(std::time::Duration::from_secs(1));
            let mut n = 0usize;
            let mut edges = vec![];
            while let Some(s) = e.next_audio_sample() {
                let code = decode(s.left, s.right, 100, true).unwrap_or(9);
                if code != prev {
                    edges.push(n);
                    prev = code;
                }
                n += 1;
            }
            out.push((n, edges, e.verif_frame_clocks()));
        }
        out
    }));
    res.map_err(|_| "panic".to_string())
}

fn check_prog(model: &mut Model, c: &ProgCase, reference: Option<&Vec<(usize, Vec<usize>, usize)>>, mut rep: Option<&mut Report>) -> Option<Disagreement> {
    let _ = model;
    let spf = c.rate / 50;
    let l = if c.m128 { 70908 } else { 69888 } as f64;
    let got = match run_prog(c) {
        Ok(g) => g,
        Err(e) => return Some(dis(Kind::SpecViolated, "C19/panic", None, "emulate_frames panicked".into(), e, "no panic".into())),
    };
    for (i, (n, edges, _)) in got.iter().enumerate() {
        if let Some(r) = rep.as_deref_mut() {
            r.eval();
        }
        if *n != spf {
            return Some(dis(
                Kind::SpecViolated,
                "C19/count",
                Some(i),
                format!("emulate_frames call #{} (FrameCount(1), host drains after every call): samples delivered", i),
                format!("{}", n),
                format!("{} = floor({}/50)", spf, c.rate),
            ));
        }
        if let Some(rf) = reference {
            // the same program at 384 kHz gives the write times with 9-clock resolution
            let ref_spf = 384000 / 50;
            let ref_times: Vec<f64> = rf[i].1.iter().map(|k| *k as f64 * l / ref_spf as f64).collect();
            let tol = l / spf as f64 + l / ref_spf as f64 + 40.0;
            let pulse = ref_times.windows(2).map(|w| w[1] - w[0]).fold(f64::MAX, f64::min);
            for k in edges {
                let t = *k as f64 * l / spf as f64;
                if !ref_times.iter().any(|rt| (rt - t).abs() <= tol) {
                    return Some(dis(
                        Kind::SpecViolated,
                        "C19/edge",
                        Some(i),
                        format!("call #{}: speaker edge at sample {} of {} (frame clock {:.0}) has no port write within one sample period", i, k, spf, t),
                        format!("edge at clock {:.0}", t),
                        format!("a write at one of {:?} (±{:.0})", ref_times.iter().map(|x| *x as usize).take(12).collect::<Vec<_>>(), tol),
                    ));
                }
            }
            // pulses longer than two sample periods must all show
            if pulse > 2.0 * l / spf as f64 + 80.0 && edges.len() != rf[i].1.len() {
                return Some(dis(
                    Kind::SpecViolated,
                    "C19/edge",
                    Some(i),
                    format!("call #{}: number of speaker edges in the frame", i),
                    format!("{}", edges.len()),
                    format!("{} (as at 384 kHz; shortest pulse {:.0} clocks)", rf[i].1.len(), pulse),
                ));
            }
        }
    }
    if let Some(r) = rep {
        let e: usize = got.iter().map(|g| g.1.len()).sum();
        r.class(format!("prog {} rate={} delay={} edges>0={}", if c.m128 { "128K" } else { "48K" }, c.rate, c.delay, (e > 0) as u8));
    }
    None
}

// ------------------------------------------------------------------ part C: AY sounding through the emulator

#[derive(Clone, Debug, PartialEq)]
struct AyCase {
    rate: usize,
    frames: usize,
}

fn check_ay(model: &mut Model, c: &AyCase, rep: Option<&mut Report>) -> Option<Disagreement> {
    let _ = model;
    let mut cfg = Cfg::new(true);
    cfg.sound = true;
    cfg.ay = true;
    cfg.rate = c.rate;
    let spf = c.rate / 50;
    let res = catch_unwind(AssertUnwindSafe(|| {
        let mut e = emu(&cfg);
        for (r, v) in [(0u8, 0x7Du8), (1, 0), (7, 0x3E), (8, 0x0F)] {
            e.verif_write_io(0xFFFD, r);
            e.verif_write_io(0xBFFD, v);
        }
        let mut worst = 0.0f32;
        let mut finite = true;
        let mut counts = vec![];
        for _ in 0..c.frames {
            let rest = 70908 - e.verif_frame_clocks();
            e.verif_wait(rest);
            let mut n = 0;
            while let Some(s) = e.next_audio_sample() {
                finite &= s.left.is_finite() && s.right.is_finite();
                worst = worst.max(s.left.abs()).max(s.right.abs());
                n += 1;
            }
            counts.push(n);
        }
        (worst, finite, counts)
    }));
    let (worst, finite, counts) = match res {
        Ok(x) => x,
        Err(_) => return Some(dis(Kind::SpecViolated, "C19/panic", None, "panic with the AY sounding".into(), "panic".into(), "no panic".into())),
    };
    if let Some(r) = rep {
        r.eval();
        r.class(format!("ay-sounding rate={}", c.rate));
    }
    // beeper 0.6 + AY: 16 is the bound of the rational analysis of the AY filter chain incl. the DC filter (see C18)
    let bound = (0.6 + 16.0) * 100.0 / 200.0;
    let low = 1_773_400 >= c.rate * 64;
    if !finite || worst as f64 > bound {
        return Some(dis(
            Kind::SpecViolated,
            if low { "C19/bounded.ay-low-rate" } else { "C19/bounded" },
            None,
            format!("128K, AY tone A (TP=125, volume 15) at {} Hz, {} frames drained at every boundary", c.rate, c.frames),
            format!("max |sample| = {:e}, finite = {}", worst, finite),
            format!("finite and |sample| <= {} (volume 100/200 x (beeper 0.6 + AY chain bound 16))", bound),
        ));
    }
    if counts.iter().any(|n| *n != spf) {
        return Some(dis(Kind::SpecViolated, "C19/count", None, "frames with the AY sounding".into(), format!("{:?}", counts), format!("{} each", spf)));
    }
    None
}

fn record(model: &mut Model, rep: &mut Report, text: String, d: Disagreement) {
    if rep.has_key(&d.key) {
        rep.count("repeat_violations", d.key.clone());
        return;
    }
    let _ = model;
    rep.violation(Violation {
        kind: d.kind,
        key: d.key.clone(),
        what: format!("[{}] {}: real code {} / expected {}", if text.len() > 600 { format!("{}…", &text[..600]) } else { text.clone() }, d.what, d.implementation, d.expected),
        correspondence: "corr.C19 (Model.Mixer process/newFrame/pop + Machine.wait/out vs ZXMixer + wait_internal/write_io; Spec.Mixer adjudicating)".into(),
        case: J::obj(vec![("text", J::s(text))]),
        implementation: d.implementation.clone(),
        expected: d.expected.clone(),
    });
}

pub fn run(o: &Opts) -> Report {
    let mut rep = Report::new("C19");
    rep.rule = "(A) hook-driven schedules on a real Emulator (48K and 128K, sound on): random waits (1..30 CPU-like, up to 400, up to 3000, \
some landing exactly on the frame end) interleaved with OUTs to port 0xFE (ear/mic toggles, bursts inside one sample period) at 10 sample \
rates (three of them with a power-of-two number of samples per frame) x 3 host policies (drain at every boundary / random pops and drains / never) x volumes 0..255 x beeper on/off x AY enabled (silent), the host switching the AY contribution on/off at frame boundaries (set_ay_enabled); \
every popped sample is decoded to its beeper level and compared with the Lean model; the spec adjudicates: exactly floor(rate/50) samples \
per frame (always), queue < 2*spf (never), every sample equals a speaker level within one sample period of k/spf, |sample| <= 0.6*vol/200. \
(B) a real Z80 program toggling the speaker, run by emulate_frames (FrameCount(1)) and drained after every call: counts exactly, edge times \
against the same program at 384 kHz. (C) AY tone sounding at 8000/44100 Hz: finite, bounded, counts. \
distinct = (machine, rate, policy, volume class, beeper, ay, frames with writes) classes"
        .into();
    let mut model = Model::spawn(&o.model, "C19");

    if let Some(text) = &o.replay {
        rep.sample(J::s(text.clone()));
        if let Some(c) = Case::parse(text) {
            if let Some(d) = check_case(&mut model, &c, Some(&mut rep)) {
                let small = shrink(&mut model, &c, &d.key.clone());
                let d2 = check_case(&mut model, &small, None).filter(|x| x.key == d.key).unwrap_or(d);
                record(&mut model, &mut rep, small.text(), d2);
            }
        } else if let Some(c) = ProgCase::parse(text) {
            let reference = run_prog(&ProgCase { rate: 384000, ..c.clone() }).ok();
            if let Some(d) = check_prog(&mut model, &c, reference.as_ref(), Some(&mut rep)) {
                record(&mut model, &mut rep, c.text(), d);
            }
        } else if let Some(rest) = text.strip_prefix("aysound rate=") {
            let c = AyCase { rate: rest.trim().parse().unwrap_or(8000), frames: 6 };
            if let Some(d) = check_ay(&mut model, &c, Some(&mut rep)) {
                record(&mut model, &mut rep, text.clone(), d);
            }
        } else {
            rep.notes.push("unparsable replay case".into());
        }
        return rep;
    }

    // (A)
    let mut rng = Rng::new(o.seed);
    let mut pending: Option<(Case, Disagreement)> = None;
    let reps = o.n(1, 20);
    let mut first = true;
    for rep_i in 0..reps {
        for rate in RATES {
            for policy in [Policy::Always, Policy::Sometimes, Policy::Never] {
                for m128 in [false, true] {
                    let mut r = rng.fork();
                    let frames = if rate >= 96000 { 3 } else { 5 } + rep_i as usize % 2;
                    let c = gen_case(&mut r, m128, rate, policy, frames);
                    if first {
                        let t = c.text();
                        rep.sample(J::s(if t.len() > 400 { format!("{}…", &t[..400]) } else { t }));
                        first = false;
                    }
                    if let Some(d) = check_case(&mut model, &c, Some(&mut rep)) {
                        if d.kind == Kind::ModelMismatch {
                            rep.count("undecided_mismatches", d.key.clone());
                            if pending.is_none() {
                                pending = Some((c.clone(), d));
                            }
                        } else if !rep.has_key(&d.key) {
                            let small = shrink(&mut model, &c, &d.key.clone());
                            let d2 = check_case(&mut model, &small, None).filter(|x| x.key == d.key).unwrap_or(d);
                            record(&mut model, &mut rep, small.text(), d2);
                        } else {
                            rep.count("repeat_violations", d.key.clone());
                        }
                    }
                }
            }
        }
    }
    // (A2) speaker writes placed around the frame end (the OUT begins 12..1 T before it, at it, after it), host
    // draining at every boundary: the write that lands just behind the boundary finds a queue holding a whole frame
    for m128 in [false, true] {
        let l = if m128 { 70908 } else { 69888 };
        for rate in [8000usize, 44100, 48000] {
            for k in 0..=14usize {
                let c = Case {
                    m128, rate, vol: 100, beeper: true, ay: false, policy: Policy::Always, port: 0x00FE, tape: k % 5 == 4, szx: if k % 7 == 3 { 20000 + 1500 * k } else { 0 },
                    evs: vec![Ev::Wait(l + 2 - k), Ev::Out(0x10), Ev::Wait(l), Ev::Out(0x00), Ev::Wait(l + k), Ev::Out(0x18), Ev::Wait(2 * l)],
                };
                if let Some(d) = check_case(&mut model, &c, Some(&mut rep)) {
                    if !rep.has_key(&d.key) {
                        record(&mut model, &mut rep, c.text(), d);
                    }
                }
            }
        }
    }
    // (B)
    for m128 in [false, true] {
        for delay in [40u8, 150] {
            let reference = run_prog(&ProgCase { m128, rate: 384000, delay, frames: 6 }).ok();
            for rate in RATES {
                let c = ProgCase { m128, rate, delay, frames: 6 };
                if let Some(d) = check_prog(&mut model, &c, reference.as_ref(), Some(&mut rep)) {
                    record(&mut model, &mut rep, c.text(), d);
                }
            }
        }
    }
    rep.sample(J::s(ProgCase { m128: false, rate: 44100, delay: 150, frames: 6 }.text()));
    // (C)
    for rate in [8000usize, 44100, 384000] {
        let c = AyCase { rate, frames: 6 };
        if let Some(d) = check_ay(&mut model, &c, Some(&mut rep)) {
            record(&mut model, &mut rep, format!("aysound rate={}", rate), d);
        }
    }
    if let Some((c, d)) = pending {
        // only a spec violation of the mixer itself explains a mixer mismatch (not the AY low-rate finding)
        if rep.violations.iter().any(|v| v.kind == Kind::SpecViolated && ["C19/count", "C19/edge", "C19/queue-bound", "C19/bounded"].contains(&v.key.as_str())) {
            rep.notes.push(format!("code/model mismatch {} attributed to the spec violation(s) reported", d.key));
        } else {
            let small = shrink(&mut model, &c, &d.key.clone());
            let d2 = check_case(&mut model, &small, None).filter(|x| x.key == d.key).unwrap_or(d);
            record(&mut model, &mut rep, small.text(), d2);
        }
    }
    rep.extra.push(("model_requests".into(), J::I(model.requests as i64)));
    rep
}
