//! C20 — VTX playback is frame-accurate and independent of play() chunking.
//! Real code: `vtx::player::Player<B>` over (a) a recording `AymBackend` implemented here (its call log
//! and the buffers `play` fills are compared with the Lean model and the schedule spec for every single
//! `play` call) and (b) the real `aym::AymPrecise` (bit-exact stream equality between chunkings);
//! `vtx::Vtx::load` on files built here (header + literal-only LH5 stream) for the transposition.
use crate::util::*;
use aym::{AyMode, AymBackend, SoundChip, StereoSample};
use std::cell::RefCell;
use std::panic::{catch_unwind, AssertUnwindSafe};
use vtx::player::Player;

#[derive(Clone, Copy, PartialEq, Eq, Debug)]
enum Call {
    W(u8, u8),
    S,
}

#[derive(Default)]
struct RecShared {
    log: Vec<Call>,
    samples: u64,
    ctor: Option<(String, String, usize, usize)>,
}

thread_local! {
    static REC: RefCell<RecShared> = RefCell::new(RecShared::default());
}

/// The recording backend. `Player` owns it privately, so the log lives in a thread-local.
struct RecBackend;

fn left_of(k: u64) -> f64 {
    k as f64
}
fn right_of(k: u64) -> f64 {
    -(k as f64) - 0.5
}

impl AymBackend for RecBackend {
    type SoundSample = f64;
    fn new(chip: SoundChip, mode: AyMode, frequency: usize, sample_rate: usize) -> Self {
        REC.with(|r| {
            let mut r = r.borrow_mut();
            *r = RecShared::default();
            r.ctor = Some((format!("{:?}", chip), format!("{:?}", mode), frequency, sample_rate));
        });
        RecBackend
    }
    fn write_register(&mut self, address: u8, value: u8) {
        REC.with(|r| r.borrow_mut().log.push(Call::W(address, value)));
    }
    fn next_sample(&mut self) -> StereoSample<f64> {
        let k = REC.with(|r| {
            let mut r = r.borrow_mut();
            r.log.push(Call::S);
            r.samples += 1;
            r.samples - 1
        });
        StereoSample { left: left_of(k), right: right_of(k) }
    }
}

fn encode_calls(cs: &[Call]) -> String {
    let mut toks: Vec<String> = vec![];
    let mut pending = 0u64;
    for c in cs {
        match c {
            Call::S => pending += 1,
            Call::W(a, v) => {
                if pending > 0 {
                    toks.push(format!("s{:x}", pending));
                    pending = 0;
                }
                toks.push(format!("w{:02x}{:02x}", a, v));
            }
        }
    }
    if pending > 0 {
        toks.push(format!("s{:x}", pending));
    }
    if toks.is_empty() {
        "-".into()
    } else {
        toks.join(",")
    }
}

const MODES: [&str; 7] = ["Mono", "ABC", "ACB", "BAC", "BCA", "CAB", "CBA"];

fn vtx_stereo(i: u8) -> vtx::Stereo {
    match i {
        0 => vtx::Stereo::Mono,
        1 => vtx::Stereo::ABC,
        2 => vtx::Stereo::ACB,
        3 => vtx::Stereo::BAC,
        4 => vtx::Stereo::BCA,
        5 => vtx::Stereo::CAB,
        _ => vtx::Stereo::CBA,
    }
}

#[derive(Clone, Debug, PartialEq)]
struct Case {
    stereo: bool,
    vs: u8,
    ym: bool,
    rate: usize,
    pf: u8,
    data: Vec<u8>,
    chunks: Vec<usize>,
}

impl Case {
    fn text(&self) -> String {
        format!(
            "play stereo={} vs={} ym={} rate={} pf={} data={} chunks={}",
            self.stereo as u8,
            self.vs,
            self.ym as u8,
            self.rate,
            self.pf,
            if self.data.is_empty() { "-".to_string() } else { hex(&self.data) },
            self.chunks.iter().map(|c| c.to_string()).collect::<Vec<_>>().join(",")
        )
    }
    fn parse(s: &str) -> Option<Case> {
        let mut c = Case { stereo: false, vs: 0, ym: false, rate: 0, pf: 0, data: vec![], chunks: vec![] };
        let mut it = s.split_whitespace();
        if it.next()? != "play" {
            return None;
        }
        for kv in it {
            let (k, v) = kv.split_once('=')?;
            match k {
                "stereo" => c.stereo = v == "1",
                "vs" => c.vs = v.parse().ok()?,
                "ym" => c.ym = v == "1",
                "rate" => c.rate = v.parse().ok()?,
                "pf" => c.pf = v.parse().ok()?,
                "data" => c.data = if v == "-" { vec![] } else { unhex(v) },
                "chunks" => {
                    c.chunks = v.split(',').filter(|x| !x.is_empty()).filter_map(|x| x.parse().ok()).collect()
                }
                _ => return None,
            }
        }
        Some(c)
    }
    fn vtx(&self) -> vtx::Vtx {
        vtx::Vtx {
            chip: if self.ym { vtx::SoundChip::YM } else { vtx::SoundChip::AY },
            stereo: vtx_stereo(self.vs),
            frequency: 1_773_400,
            player_frequency: self.pf,
            loop_start_frame: 0,
            year: 0,
            title: String::new(),
            author: String::new(),
            from: String::new(),
            tracker: String::new(),
            comment: String::new(),
            frame_data: self.data.clone(),
        }
    }
}

struct Disagreement {
    kind: Kind,
    /// index of the play call at which it showed (if any)
    at: Option<usize>,
    key: &'static str,
    what: String,
    implementation: String,
    expected: String,
}

const SENTINEL: f64 = 1.0e300;

/// What one `play` call of the real player did.
struct PlayObs {
    ret: usize,
    first: u64,
    calls: String,
    buffer_ok: Result<(), String>,
}

/// Runs the case on the real `Player<RecBackend>`; `Err` = panic message class.
fn run_real(c: &Case) -> Result<(String, Vec<PlayObs>), String> {
    let res = catch_unwind(AssertUnwindSafe(|| {
        let mut p = Player::<RecBackend>::new(c.vtx(), c.rate, c.stereo);
        let ctor = REC.with(|r| r.borrow().ctor.clone()).unwrap();
        let mut obs = vec![];
        for (ci, &n) in c.chunks.iter().enumerate() {
            let (before_len, before_samples) = REC.with(|r| {
                let r = r.borrow();
                // whatever the constructor sent to the chip counts into the first call: nothing may reach
                // the chip before frame 0's registers
                (if ci == 0 { 0 } else { r.log.len() }, r.samples)
            });
            let mut buf = vec![SENTINEL; n];
            let ret = p.play(&mut buf);
            let calls = REC.with(|r| encode_calls(&r.borrow().log[before_len..]));
            let mut ok = Ok(());
            if ret > n {
                ok = Err(format!("returned {} for a buffer of {}", ret, n));
            } else {
                for (i, v) in buf.iter().enumerate() {
                    let want = if i >= ret {
                        SENTINEL
                    } else if c.stereo {
                        let k = before_samples + (i / 2) as u64;
                        if i % 2 == 0 {
                            left_of(k)
                        } else {
                            right_of(k)
                        }
                    } else {
                        left_of(before_samples + i as u64)
                    };
                    if *v != want {
                        ok = Err(format!("slot {} holds {} instead of {}", i, v, want));
                        break;
                    }
                }
            }
            obs.push(PlayObs { ret, first: before_samples, calls, buffer_ok: ok });
        }
        (format!("{} {}", ctor.0, ctor.1), obs)
    }));
    res.map_err(|e| {
        if let Some(s) = e.downcast_ref::<String>() {
            s.clone()
        } else if let Some(s) = e.downcast_ref::<&str>() {
            s.to_string()
        } else {
            "panic".to_string()
        }
    })
}

fn chunk_class(n: usize) -> &'static str {
    match n {
        0 => "0",
        1 => "1",
        2 => "2",
        n if n % 2 == 1 && n < 64 => "odd<64",
        n if n < 64 => "even<64",
        n if n % 2 == 1 => "odd>=64",
        _ => "even>=64",
    }
}

/// Runs the case on the real code and on the model; first disagreement, adjudicated by the spec.
fn check_case(model: &mut Model, c: &Case, mut rep: Option<&mut Report>) -> Option<Disagreement> {
    let real = run_real(c);
    let mut lines = vec![format!(
        "new {} {:x} {:x} {:x} {}",
        c.stereo as u8,
        c.vs,
        c.rate,
        c.pf,
        if c.data.is_empty() { "-".to_string() } else { hex(&c.data) }
    )];
    for n in &c.chunks {
        lines.push(format!("play {:x}", n));
    }
    let ans = model.ask_many(&lines);
    if let Some(r) = rep.as_deref_mut() {
        r.eval();
    }
    if ans[0] == "panic" {
        return match real {
            Err(_) => {
                if let Some(r) = rep.as_deref_mut() {
                    r.class("new: player frequency 0 panics (division by zero), as modelled");
                }
                None
            }
            Ok(_) => Some(Disagreement {
                at: None,
                kind: Kind::ModelMismatch,
                key: "new.panic",
                what: "Player::new with player_frequency 0".into(),
                implementation: "returned".into(),
                expected: "panic (division by zero)".into(),
            }),
        };
    }
    let (ctor, obs) = match real {
        Ok(x) => x,
        Err(msg) => {
            return Some(Disagreement {
                at: None,
                kind: Kind::SpecViolated,
                key: "panic",
                what: "the player panicked".into(),
                implementation: format!("panic: {}", msg),
                expected: "no panic".into(),
            })
        }
    };
    let head: Vec<&str> = ans[0].split(' ').collect();
    let spf = usize::from_str_radix(head[1], 16).unwrap();
    let mode = MODES[usize::from_str_radix(head[2], 16).unwrap()];
    let want_ctor = format!("{} {}", if c.ym { "YM" } else { "AY" }, mode);
    if ctor != want_ctor {
        return Some(Disagreement {
            at: None,
            kind: Kind::ModelMismatch,
            key: "new.mode",
            what: "chip/stereo mode handed to the backend".into(),
            implementation: ctor,
            expected: want_ctor,
        });
    }
    for (i, o) in obs.iter().enumerate() {
        let t: Vec<&str> = ans[i + 1].split(' ').collect();
        // <returned> <first ordinal> <model calls> <spec calls> <spec returned>
        let m_ret = usize::from_str_radix(t[0], 16).unwrap();
        let m_first = u64::from_str_radix(t[1], 16).unwrap();
        let (m_calls, s_calls, s_ret) = (t[2], t[3], t[4]);
        let n = c.chunks[i];
        if let Some(r) = rep.as_deref_mut() {
            r.eval();
            r.count("buffer_length", chunk_class(n));
            if spf > 0 {
                let has_w = o.calls.contains('w');
                let skip = o.calls.contains('w') && !o.calls.contains("w0d");
                let ended = o.ret < if c.stereo { n / 2 * 2 } else { n };
                r.class(format!(
                    "{} len={} frame-start-inside={} r13-skipped={} end-reached={} spf={}",
                    if c.stereo { "stereo" } else { "mono" },
                    chunk_class(n),
                    has_w as u8,
                    skip as u8,
                    ended as u8,
                    match spf {
                        1 => "1",
                        2..=9 => "2-9",
                        10..=99 => "10-99",
                        _ => ">=100",
                    }
                ));
            }
        }
        let decided = spf > 0;
        let at = format!("play call #{} (buffer length {})", i, n);
        let at_idx = Some(i);
        if decided && (o.calls != s_calls || format!("{:x}", o.ret) != s_ret) {
            let (key, imp, exp) = if o.calls != s_calls {
                ("play.calls", o.calls.clone(), s_calls.to_string())
            } else {
                ("play.returned", format!("{:x}", o.ret), s_ret.to_string())
            };
            return Some(Disagreement {
                at: at_idx,
                kind: Kind::SpecViolated,
                key,
                what: format!("{}: backend calls / returned count differ from the schedule spec", at),
                implementation: imp,
                expected: exp,
            });
        }
        if let Err(e) = &o.buffer_ok {
            return Some(Disagreement {
                at: at_idx,
                kind: Kind::SpecViolated,
                key: "play.buffer",
                what: format!("{}: buffer contents are not the samples of the corresponding next_sample calls", at),
                implementation: e.clone(),
                expected: "slot i = i-th sample (pairs in stereo), the rest untouched".into(),
            });
        }
        if o.calls != m_calls || o.ret != m_ret || o.first != m_first {
            return Some(Disagreement {
                at: at_idx,
                kind: Kind::ModelMismatch,
                key: "play.model",
                what: format!("{}: differs from the Lean model", at),
                implementation: format!("{:x} {:x} {}", o.ret, o.first, o.calls),
                expected: format!("{:x} {:x} {}", m_ret, m_first, m_calls),
            });
        }
    }
    None
}

fn gen_r13(r: &mut Rng) -> u8 {
    match r.below(8) {
        0..=2 => 0xFF,
        3 => 0xF0 + r.below(15) as u8,
        4 => 0xFE,
        5 => 0x7F,
        _ => r.u8(),
    }
}

fn gen_data(r: &mut Rng, frames: usize) -> Vec<u8> {
    let mut d: Vec<u8> = Vec::with_capacity(frames * 14 + 13);
    let style = r.below(4);
    for f in 0..frames {
        // real tunes repeat frames: the same fourteen bytes again (every write must still be made,
        // a repeated R13 restarts the envelope), or all but one byte the same
        if f > 0 && style >= 2 && r.chance(1, 2) {
            let prev: Vec<u8> = d[(f - 1) * 14..f * 14].to_vec();
            d.extend_from_slice(&prev);
            if r.chance(1, 3) {
                let k = r.below(14) as usize;
                d[f * 14 + k] = r.u8();
            }
            continue;
        }
        for reg in 0..14 {
            d.push(if reg == 13 { gen_r13(r) } else if r.chance(1, 6) { 0xFF } else { r.u8() });
        }
    }
    if r.chance(1, 5) {
        let extra = r.range(1, 13) as usize;
        d.extend(r.bytes(extra));
    }
    d
}

fn gen_chunks(r: &mut Rng, stereo: bool, total: usize) -> Vec<usize> {
    // `total` = samples per channel the log yields; offer a bit more so that the end is crossed
    let mut chunks = vec![];
    let mut offered = 0usize;
    let style = r.below(5);
    while offered <= total && chunks.len() < 400 {
        let n = match style {
            0 => 1,
            1 => r.range(0, 3) as usize,
            2 => r.range(0, 40) as usize,
            3 => [1usize, 3, 5, 7, 2, 9][r.below(6) as usize],
            _ => r.range(0, (total as u64).max(4)) as usize,
        };
        let n = if style == 0 && stereo { r.range(1, 3) as usize } else { n };
        chunks.push(n);
        offered += if stereo { n / 2 } else { n };
    }
    // two more calls after the end
    chunks.push(r.range(0, 9) as usize);
    chunks.push(r.range(1, 64) as usize);
    chunks
}

fn gen_case(r: &mut Rng) -> Case {
    let stereo = r.bool();
    let frames = match r.below(8) {
        0 => 0,
        1 => 1,
        _ => r.range(1, 10) as usize,
    };
    let pf = match r.below(10) {
        0 => 50,
        1 => 1,
        2 => 255,
        3 => 0,
        _ => r.range(1, 255) as u8,
    };
    let spf = match r.below(10) {
        0 => 0,
        1 => 1,
        2 | 3 => r.range(2, 5),
        4..=7 => r.range(2, 40),
        _ => r.range(40, 900),
    } as usize;
    let pfz = pf as usize;
    let rate = if pfz == 0 {
        r.range(0, 48000) as usize
    } else if spf == 0 {
        r.below(pfz as u64) as usize
    } else {
        spf * pfz + r.below(pfz as u64) as usize
    };
    let data = gen_data(r, frames);
    let total = if spf == 0 { 12 } else { (data.len() / 14) * spf };
    let chunks = gen_chunks(r, stereo, total);
    Case { stereo, vs: r.below(7) as u8, ym: r.bool(), rate, pf, data, chunks }
}

/// Frames of 65536 samples and more (a slow player frequency at a high sample rate): the frame length
/// and the position inside the frame do not fit sixteen bits.
fn gen_big(r: &mut Rng) -> Case {
    let stereo = r.bool();
    let (rate, pf) = *r.pick(&[(96000usize, 1u8), (192000, 2), (210000, 3), (65535, 1), (65536, 1), (65537, 1), (131077, 2), (200000, 1), (384000, 5)]);
    let frames = r.range(1, 3) as usize;
    let data = gen_data(r, frames);
    let spf = rate / pf as usize;
    let total = (data.len() / 14) * spf;
    let mut chunks = vec![];
    let mut offered = 0usize;
    while offered <= total && chunks.len() < 40 {
        let n = match r.below(4) {
            0 => r.range(1, 70000) as usize,
            1 => spf * if stereo { 2 } else { 1 },
            2 => r.range(60000, 140000) as usize,
            _ => r.range(0, 300000) as usize,
        };
        chunks.push(n);
        offered += if stereo { n / 2 } else { n };
    }
    chunks.push(r.range(1, 64) as usize);
    Case { stereo, vs: r.below(7) as u8, ym: r.bool(), rate, pf, data, chunks }
}

/// Greedy shrinking; every candidate is re-run on the real code and re-adjudicated.
fn shrink(model: &mut Model, c: &Case, key: &str) -> Case {
    let fails = |model: &mut Model, c: &Case| matches!(check_case(model, c, None), Some(d) if d.key == key);
    let mut cur = c.clone();
    // cut the call list right after the call at which the disagreement shows
    if let Some(Disagreement { at: Some(i), key: k, .. }) = check_case(model, &cur, None) {
        if k == key && i + 1 < cur.chunks.len() {
            let mut a = cur.clone();
            a.chunks.truncate(i + 1);
            if fails(model, &a) {
                cur = a;
            }
        }
    }
    let mut progress = true;
    let mut budget = 1500;
    while progress && budget > 0 {
        progress = false;
        let mut cands: Vec<Case> = vec![];
        // fewer frames (drop from the end, then from the start)
        if cur.data.len() >= 14 {
            let mut a = cur.clone();
            a.data.truncate((cur.data.len() / 14 - 1) * 14);
            cands.push(a);
            let mut b = cur.clone();
            b.data.drain(0..14);
            cands.push(b);
        }
        if cur.data.len() % 14 != 0 {
            let mut a = cur.clone();
            a.data.truncate(cur.data.len() / 14 * 14);
            cands.push(a);
        }
        // smaller spf
        if cur.pf > 0 && cur.rate / cur.pf as usize > 1 {
            let spf = cur.rate / cur.pf as usize;
            for s in [1usize, 2, spf / 2, spf - 1] {
                if s >= 1 && s < spf {
                    let mut a = cur.clone();
                    a.rate = s * cur.pf as usize;
                    cands.push(a);
                }
            }
        }
        if cur.pf > 1 {
            let mut a = cur.clone();
            let spf = cur.rate / cur.pf as usize;
            a.pf = 1;
            a.rate = spf;
            cands.push(a);
        }
        // fewer / merged / smaller chunks
        if cur.chunks.len() > 1 {
            let mut a = cur.clone();
            a.chunks.pop();
            cands.push(a);
            let mut b = cur.clone();
            b.chunks.remove(0);
            cands.push(b);
            let mut m = cur.clone();
            let x = m.chunks.remove(0);
            m.chunks[0] += x;
            cands.push(m);
        }
        for i in 0..cur.chunks.len().min(8) {
            if cur.chunks[i] > 1 {
                let mut a = cur.clone();
                a.chunks[i] /= 2;
                cands.push(a);
                let mut b = cur.clone();
                b.chunks[i] -= 1;
                cands.push(b);
            }
        }
        // simpler bytes
        if cur.data.iter().any(|b| *b != 0) {
            let mut a = cur.clone();
            for (i, b) in a.data.iter_mut().enumerate() {
                if i % 14 != 13 {
                    *b = 0;
                }
            }
            if a != cur {
                cands.push(a);
            }
        }
        if cur.stereo {
            let mut a = cur.clone();
            a.stereo = false;
            cands.push(a);
        }
        if cur.stereo && cur.vs != 0 {
            let mut a = cur.clone();
            a.vs = 0;
            cands.push(a);
        }
        if cur.ym {
            let mut a = cur.clone();
            a.ym = false;
            cands.push(a);
        }
        for cand in cands {
            budget -= 1;
            if fails(model, &cand) {
                cur = cand;
                progress = true;
                break;
            }
            if budget == 0 {
                break;
            }
        }
    }
    cur
}

fn report(model: &mut Model, rep: &mut Report, c: &Case, d: Disagreement) {
    let key = format!("C20/{}", d.key);
    if rep.has_key(&key) {
        rep.count("repeat_violations", key);
        return;
    }
    let small = shrink(model, c, d.key);
    let d2 = check_case(model, &small, None).unwrap_or(d);
    rep.violation(Violation {
        kind: d2.kind,
        key,
        what: format!("{} — {}: real code {} / expected {}", small.text(), d2.what, d2.implementation, d2.expected),
        correspondence: "corr.C20.player (Model.Vtx.play over the recording backend vs vtx::player::Player::play)".into(),
        case: J::obj(vec![("text", J::s(small.text()))]),
        implementation: d2.implementation.clone(),
        expected: d2.expected.clone(),
    });
}

// ---------------------------------------------------------------- real AymPrecise: stream equality

fn precise_stream(c: &Case, chunks: &[usize]) -> Result<(Vec<u64>, Vec<usize>), String> {
    catch_unwind(AssertUnwindSafe(|| {
        let mut p = Player::<aym::AymPrecise>::new(c.vtx(), c.rate, c.stereo);
        let mut out = vec![];
        let mut rets = vec![];
        for &n in chunks {
            let mut buf = vec![SENTINEL; n];
            let ret = p.play(&mut buf);
            rets.push(ret);
            out.extend(buf[..ret.min(n)].iter().map(|x| x.to_bits()));
        }
        (out, rets)
    }))
    .map_err(|_| "panic".to_string())
}

/// The schedule spec executed on a chip of its own: a fresh `AymPrecise` that receives frame k's registers
/// (R13 = 0xFF left out) right before output sample k*spf and nothing else.
fn reference_stream(c: &Case) -> Result<Vec<u64>, String> {
    catch_unwind(AssertUnwindSafe(|| {
        let mode = if !c.stereo {
            AyMode::Mono
        } else {
            match c.vs {
                0 => AyMode::Mono,
                1 => AyMode::ABC,
                2 => AyMode::ACB,
                3 => AyMode::BAC,
                4 => AyMode::BCA,
                5 => AyMode::CAB,
                _ => AyMode::CBA,
            }
        };
        let mut ay = aym::AymPrecise::new(if c.ym { SoundChip::YM } else { SoundChip::AY }, mode, 1_773_400, c.rate);
        let spf = c.rate / c.pf as usize;
        let mut out = vec![];
        for k in 0..c.data.len() / 14 {
            for idx in 0..14 {
                let v = c.data[k * 14 + idx];
                if idx == 13 && v == 0xFF {
                    continue;
                }
                ay.write_register(idx as u8, v);
            }
            for _ in 0..spf {
                let s = ay.next_sample();
                out.push(s.left.to_bits());
                if c.stereo {
                    out.push(s.right.to_bits());
                }
            }
        }
        out
    }))
    .map_err(|_| "panic".to_string())
}

/// One-shot run vs. the chunked run on the real AymPrecise; total length against the spec.
fn check_precise(model: &mut Model, c: &Case, mut rep: Option<&mut Report>) -> Option<Disagreement> {
    let spf = c.rate / c.pf as usize;
    let total_units = (c.data.len() / 14) * spf;
    let ch = if c.stereo { 2 } else { 1 };
    let one = precise_stream(c, &[total_units * ch + 7]);
    let many = precise_stream(c, &c.chunks);
    // what the spec says the total is (driver: one big play)
    let lines = vec![
        format!("new {} {:x} {:x} {:x} {}", c.stereo as u8, c.vs, c.rate, c.pf, if c.data.is_empty() { "-".to_string() } else { hex(&c.data) }),
        format!("play {:x}", total_units * ch + 7),
    ];
    let ans = model.ask_many(&lines);
    let spec_total = usize::from_str_radix(ans[1].split(' ').nth(4).unwrap(), 16).unwrap();
    if let Some(r) = rep.as_deref_mut() {
        r.eval();
    }
    let (one, many) = match (one, many) {
        (Ok(a), Ok(b)) => (a, b),
        _ => {
            return Some(Disagreement {
                at: None,
                kind: Kind::SpecViolated,
                key: "precise.panic",
                what: "PrecisePlayer panicked".into(),
                implementation: "panic".into(),
                expected: "no panic".into(),
            })
        }
    };
    if one.0.len() != spec_total {
        return Some(Disagreement {
            at: None,
            kind: Kind::SpecViolated,
            key: "precise.total",
            what: "total number of samples of a one-shot PrecisePlayer run".into(),
            implementation: format!("{}", one.0.len()),
            expected: format!("{}", spec_total),
        });
    }
    // frame k's registers exactly at sample k*spf, nothing else: the stream of the reference chip
    if spf > 0 {
        if let Ok(reference) = reference_stream(c) {
            if reference != one.0 {
                let first = reference.iter().zip(one.0.iter()).position(|(a, b)| a != b);
                return Some(Disagreement {
                    at: None,
                    kind: Kind::SpecViolated,
                    key: "precise.schedule",
                    what: "sample stream of the PrecisePlayer differs from a fresh AymPrecise that is given frame k's registers at sample k*spf (R13=0xFF left out) and nothing else".into(),
                    implementation: format!("length {} first difference at slot {:?} (frame {:?})", one.0.len(), first, first.map(|x| x / ch / spf)),
                    expected: format!("the reference stream ({} slots), bit for bit", reference.len()),
                });
            }
        }
    }
    // the chunked run offers at least as much; it must produce the same stream
    let offered: usize = c.chunks.iter().map(|n| if c.stereo { n / 2 * 2 } else { *n }).sum();
    let expect_len = offered.min(spec_total);
    if many.0.len() != expect_len || many.0[..] != one.0[..expect_len] {
        let first = many.0.iter().zip(one.0.iter()).position(|(a, b)| a != b);
        return Some(Disagreement {
            at: None,
            kind: Kind::SpecViolated,
            key: "precise.chunking",
            what: "sample stream of the chunked PrecisePlayer run differs from the one-shot run".into(),
            implementation: format!("length {} first difference at {:?}", many.0.len(), first),
            expected: format!("the first {} samples of the one-shot stream, bit for bit", expect_len),
        });
    }
    if let Some(r) = rep.as_deref_mut() {
        let nonsilent = one.0.iter().any(|b| f64::from_bits(*b).abs() > 1e-6);
        if nonsilent {
            r.class(format!(
                "precise {} rate={} chunks={}",
                if c.stereo { "stereo" } else { "mono" },
                c.rate,
                match c.chunks.len() {
                    0..=3 => "<=3",
                    4..=30 => "4-30",
                    _ => ">30",
                }
            ));
        }
        r.count("precise_rates", format!("{}", c.rate));
    }
    None
}

fn gen_precise(r: &mut Rng) -> Case {
    let stereo = r.bool();
    let frames = r.range(1, 5) as usize;
    let rate = *r.pick(&[44100usize, 48000, 22050, 32000, 96000, 8000]);
    let pf = *r.pick(&[50u8, 100, 60, 200]);
    let mut data: Vec<u8> = vec![];
    for fi in 0..frames {
        // a repeated frame (the envelope restarts again when R13 is not 0xFF)
        if fi > 0 && r.chance(1, 3) {
            let prev: Vec<u8> = data[(fi - 1) * 14..fi * 14].to_vec();
            data.extend_from_slice(&prev);
            continue;
        }
        // audible settings: tone periods, mixer, volumes / envelope
        let tp = [r.range(20, 600) as u16, r.range(20, 600) as u16, r.range(20, 4000) as u16];
        let f = [
            tp[0] as u8, (tp[0] >> 8) as u8, tp[1] as u8, (tp[1] >> 8) as u8, tp[2] as u8, (tp[2] >> 8) as u8,
            r.below(32) as u8, r.below(64) as u8, r.below(32) as u8, r.below(32) as u8, r.below(32) as u8,
            r.range(1, 40) as u8, 0,
            if r.bool() { 0xFF } else { r.below(16) as u8 },
        ];
        data.extend_from_slice(&f);
    }
    let spf = rate / pf as usize;
    let chunks = gen_chunks(r, stereo, frames * spf);
    Case { stereo, vs: r.below(7) as u8, ym: r.bool(), rate, pf, data, chunks }
}

fn shrink_precise(model: &mut Model, c: &Case, key: &str) -> Case {
    let fails = |model: &mut Model, c: &Case| matches!(check_precise(model, c, None), Some(d) if d.key == key);
    let mut cur = c.clone();
    let mut budget = 120;
    loop {
        let mut cands = vec![];
        if !cur.chunks.is_empty() {
            let mut a = cur.clone();
            a.chunks.clear();
            cands.push(a);
        }
        if cur.data.len() > 14 {
            let mut a = cur.clone();
            a.data.truncate(cur.data.len() - 14);
            cands.push(a);
        }
        if cur.chunks.len() > 1 {
            let mut a = cur.clone();
            a.chunks.pop();
            cands.push(a);
            let mut m = cur.clone();
            let x = m.chunks.remove(0);
            m.chunks[0] += x;
            cands.push(m);
        }
        if cur.pf < 200 {
            let mut a = cur.clone();
            a.pf = 200;
            cands.push(a);
        }
        let mut moved = false;
        for cand in cands {
            if budget == 0 {
                return cur;
            }
            budget -= 1;
            if fails(model, &cand) {
                cur = cand;
                moved = true;
                break;
            }
        }
        if !moved {
            return cur;
        }
    }
}

fn report_precise(model: &mut Model, rep: &mut Report, c: &Case, d: Disagreement) {
    let key = format!("C20/{}", d.key);
    if rep.has_key(&key) {
        rep.count("repeat_violations", key);
        return;
    }
    let small = shrink_precise(model, c, d.key);
    let d2 = check_precise(model, &small, None).unwrap_or(d);
    let text = small.text().replacen("play", "precise", 1);
    rep.violation(Violation {
        kind: d2.kind,
        key,
        what: format!("{} — {}: {} / expected {}", text, d2.what, d2.implementation, d2.expected),
        correspondence: "corr.C20.precise-stream (PrecisePlayer one-shot vs chunked; total vs Spec.totalSamples)".into(),
        case: J::obj(vec![("text", J::s(text))]),
        implementation: d2.implementation.clone(),
        expected: d2.expected.clone(),
    });
}

// ---------------------------------------------------------------- Vtx::load transposition

struct BitW {
    out: Vec<u8>,
    acc: u64,
    n: u32,
}
impl BitW {
    fn put(&mut self, v: u32, bits: u32) {
        self.acc = (self.acc << bits) | v as u64;
        self.n += bits;
        while self.n >= 8 {
            self.out.push((self.acc >> (self.n - 8)) as u8);
            self.n -= 8;
        }
        self.acc &= (1u64 << self.n) - 1;
    }
    fn finish(mut self) -> Vec<u8> {
        if self.n > 0 {
            let pad = 8 - self.n;
            self.put(0, pad);
        }
        self.out.extend_from_slice(&[0, 0, 0, 0]);
        self.out
    }
}

/// A valid -lh5- stream that stores `data` as literals only: per block the code-length tree is the single
/// symbol 10 (= length 8), so the 256 literal codes are the byte values themselves; no match offsets.
fn lh5_literal(data: &[u8]) -> Vec<u8> {
    let mut w = BitW { out: vec![], acc: 0, n: 0 };
    for block in data.chunks(0x4000) {
        w.put(block.len() as u32, 16);
        w.put(0, 5);
        w.put(10, 5);
        w.put(256, 9);
        w.put(0, 4);
        w.put(0, 4);
        for b in block {
            w.put(*b as u32, 8);
        }
    }
    w.finish()
}

fn vtx_file(ym: bool, stereo: u8, pf: u8, reg_major: &[u8]) -> Vec<u8> {
    let mut f = vec![];
    f.extend_from_slice(if ym { b"ym" } else { b"ay" });
    f.push(stereo);
    f.extend_from_slice(&0u16.to_le_bytes());
    f.extend_from_slice(&1_773_400u32.to_le_bytes());
    f.push(pf);
    f.extend_from_slice(&1999u16.to_le_bytes());
    f.extend_from_slice(&(reg_major.len() as u32).to_le_bytes());
    // five NUL-terminated strings (title, author, from, tracker, comment); their total length varies with the data —
    // a few bytes, just below / at / just above 256 bytes, several hundred — the compressed data starts right after
    let k = reg_major.len() + reg_major.first().copied().unwrap_or(0) as usize;
    let comment_len = [1usize, 7, 100, 246, 247, 248, 249, 300, 600, 1][k % 10];
    f.extend_from_slice(b"t\0a\0f\0k\0");
    f.extend((0..comment_len).map(|i| b'a' + (i % 26) as u8));
    f.push(0);
    f.extend_from_slice(&lh5_literal(reg_major));
    f
}

fn check_transpose(model: &mut Model, reg_major: &[u8], rep: Option<&mut Report>) -> Option<Disagreement> {
    let file = vtx_file(false, 1, 50, reg_major);
    let loaded = catch_unwind(AssertUnwindSafe(|| vtx::Vtx::load(std::io::Cursor::new(file))));
    let got = match loaded {
        Ok(Ok(v)) => v.frame_data,
        Ok(Err(e)) => {
            return Some(Disagreement {
                at: None,
                kind: Kind::SpecViolated,
                key: "load.error",
                what: "Vtx::load rejected a well-formed file built by the harness (header strings of any length, literal-only LH5 data): the register log is lost".into(),
                implementation: format!("{}", e),
                expected: "Ok".into(),
            })
        }
        Err(_) => {
            return Some(Disagreement {
                at: None,
                kind: Kind::SpecViolated,
                key: "load.panic",
                what: "Vtx::load panicked on a well-formed file".into(),
                implementation: "panic".into(),
                expected: "Ok".into(),
            })
        }
    };
    let ans = model.ask(&format!("transpose {}", if reg_major.is_empty() { "-".to_string() } else { hex(reg_major) }));
    let t: Vec<&str> = ans.split(' ').collect();
    let got_hex = if got.is_empty() { "-".to_string() } else { hex(&got) };
    if let Some(r) = rep {
        r.eval();
        let n = reg_major.len() / 14;
        if n >= 2 && got != reg_major {
            r.class(format!("transpose frames={}", if n < 16 { n.to_string() } else { format!("{}x", n / 16 * 16) }));
        }
        r.count("transpose_frames", match n {
            0 => "0",
            1 => "1",
            2..=15 => "2-15",
            16..=255 => "16-255",
            _ => ">=256",
        });
    }
    if got_hex != t[1] {
        return Some(Disagreement {
            at: None,
            kind: Kind::SpecViolated,
            key: "load.transpose",
            what: format!("frame-major data after Vtx::load of {} frames", reg_major.len() / 14),
            implementation: got_hex,
            expected: t[1].to_string(),
        });
    }
    if got_hex != t[0] {
        return Some(Disagreement {
            at: None,
            kind: Kind::ModelMismatch,
            key: "load.transpose.model",
            what: "frame-major data differs from the Lean model".into(),
            implementation: got_hex,
            expected: t[0].to_string(),
        });
    }
    None
}

fn report_transpose(model: &mut Model, rep: &mut Report, reg_major: &[u8], d: Disagreement) {
    let key = format!("C20/{}", d.key);
    if rep.has_key(&key) {
        rep.count("repeat_violations", key);
        return;
    }
    // shrink: fewer frames, then simpler bytes (index pattern makes the misplaced byte visible)
    let mut cur = reg_major.to_vec();
    loop {
        let n = cur.len() / 14;
        if n <= 1 {
            break;
        }
        let cand: Vec<u8> = (0..(n - 1) * 14).map(|i| i as u8).collect();
        if matches!(check_transpose(model, &cand, None), Some(ref x) if x.key == d.key) {
            cur = cand;
        } else {
            break;
        }
    }
    let d2 = check_transpose(model, &cur, None).unwrap_or(d);
    let text = format!("transpose data={}", if cur.is_empty() { "-".to_string() } else { hex(&cur) });
    rep.violation(Violation {
        kind: d2.kind,
        key,
        what: format!("{} frames: {}: real {} / expected {}", cur.len() / 14, d2.what, d2.implementation, d2.expected),
        correspondence: "corr.C20.transpose (Model.Vtx.transpose vs Vtx::load)".into(),
        case: J::obj(vec![("text", J::s(text))]),
        implementation: d2.implementation.clone(),
        expected: d2.expected.clone(),
    });
}

/// Logs of 65536 frames and more played in several calls: the total number of samples and of register writes is
/// that of the schedule (frames x spf samples, fourteen writes per frame less the skipped R13 = 0xFF) whatever the
/// lengths of the play buffers — the spec's count, no model run (the Lean list model is quadratic here).
fn long_play(rep: &mut Report, only: Option<(usize, bool)>) {
    for (frames, stereo) in [(65536usize, false), (65543, true), (70001, false)] {
        if let Some((f, st)) = only {
            if f != frames || st != stereo {
                continue;
            }
        }
        let mut data = vec![0u8; frames * 14];
        for f in 0..frames {
            data[f * 14] = f as u8;
            data[f * 14 + 7] = 0x38;
            data[f * 14 + 13] = if f % 3 == 0 { 0x0A } else { 0xFF };
        }
        let c = Case { stereo, vs: 1, ym: false, rate: 100, pf: 50, data, chunks: vec![] };
        let spf = 2usize;
        let per = if stereo { 2 } else { 1 };
        let res = catch_unwind(AssertUnwindSafe(|| {
            let mut p = Player::<RecBackend>::new(c.vtx(), c.rate, c.stereo);
            let mut total = 0usize;
            let mut calls = 0usize;
            for n in [1000usize, 7, 120_000, 3, 50_000, 200_000, 200_000, 64, 64].iter().cycle().take(60) {
                let mut buf = vec![SENTINEL; *n];
                total += p.play(&mut buf);
                calls += 1;
            }
            let (samples, writes) = REC.with(|r| {
                let r = r.borrow();
                (r.samples as usize, r.log.iter().filter(|c| matches!(c, Call::W(..))).count())
            });
            (total, samples, writes, calls)
        }));
        rep.eval();
        rep.class(format!("long play frames={} stereo={}", frames, stereo));
        let want_samples = frames * spf;
        let want_writes = frames * 13 + (frames + 2) / 3;
        let bad = match res {
            Err(_) => Some("Player panicked".to_string()),
            Ok((total, samples, writes, _)) => {
                if total != want_samples * per || samples != want_samples || writes != want_writes {
                    Some(format!("{} buffer slots filled, {} samples taken from the chip, {} register writes", total, samples, writes))
                } else {
                    None
                }
            }
        };
        if let Some(b) = bad {
            rep.violation(Violation {
                kind: Kind::SpecViolated,
                key: "C20/play.long".into(),
                what: format!("a log of {} frames ({}), 2 samples per frame, played in buffers of 1000, 7, 120000, 3, 50000, 200000, …: {}", frames, if stereo { "stereo" } else { "mono" }, b),
                correspondence: "corr.C20.play (Player::play vs Spec.Vtx schedule: frames*spf samples, writes of every frame)".into(),
                case: J::obj(vec![("text", J::s(format!("longplay frames={} stereo={}", frames, stereo as u8)))]),
                implementation: b.clone(),
                expected: format!("{} buffer slots, {} samples, {} register writes", want_samples * per, want_samples, want_writes),
            });
        }
    }
}

fn long_vtx(rep: &mut Report, longs: &[usize]) {
    // long recordings (32768 frames = a decoded size of exactly seven 64 KiB blocks, more than 65536 frames = over 20 minutes at 50 Hz): the Lean model's list transposition is
    // quadratic, so here the frame-major order is checked against the spec's index formula directly:
    // frame f, register r  <-  byte r*frames + f of the register-major data
    for &n in longs {
        let reg_major: Vec<u8> = (0..n * 14).map(|k| ((k * 31 + k / 251 + k / 65536 * 7) & 0xFF) as u8).collect();
        let file = vtx_file(true, 2, 50, &reg_major);
        let loaded = catch_unwind(AssertUnwindSafe(|| vtx::Vtx::load(std::io::Cursor::new(file))));
        rep.eval();
        rep.class(format!("transpose long frames={}", n));
        rep.count("transpose_frames", if n > 65535 { ">65535" } else { "32767-65535" });
        let bad: Option<String> = match loaded {
            Err(_) => Some("Vtx::load panicked".into()),
            Ok(Err(e)) => Some(format!("Vtx::load rejected the file: {}", e)),
            Ok(Ok(v)) => {
                if v.frame_data.len() != n * 14 {
                    Some(format!("{} bytes of frame data instead of {}", v.frame_data.len(), n * 14))
                } else {
                    (0..n * 14).find(|idx| v.frame_data[*idx] != reg_major[(idx % 14) * n + idx / 14]).map(|idx| {
                        format!(
                            "frame {} register {} holds {:02x}, the register-major data says {:02x}",
                            idx / 14,
                            idx % 14,
                            v.frame_data[idx],
                            reg_major[(idx % 14) * n + idx / 14]
                        )
                    })
                }
            }
        };
        if let Some(what) = bad {
            rep.violation(Violation {
                kind: Kind::SpecViolated,
                key: "C20/load.transpose.long".into(),
                what: format!("Vtx::load of a well-formed file with {} frames: {}", n, what),
                correspondence: "corr.C20.load (Vtx::load vs Spec.Vtx frame-major listing)".into(),
                case: J::obj(vec![("text", J::s(format!("longvtx frames={}", n)))]),
                implementation: what.clone(),
                expected: "frame f, register r = byte r*frames + f of the register-major data; no byte lost or reordered".into(),
            });
        }
    }
}

pub fn run(o: &Opts) -> Report {
    let mut rep = Report::new("C20");
    rep.rule = "random register logs (0-10 frames, R13 biased to 0xFF / 0xF0-0xFE, sometimes a trailing partial frame) x \
(rate, player frequency) giving spf 0..900 (and, one case in a hundred, 65535..200000) x mono/stereo x random lists of play() buffer lengths (styles: all 1, 0-3, \
0-40, small odd, large; two more calls after the end) on vtx::player::Player over a recording AymBackend: every play \
call's backend call log, returned count and buffer contents are compared with the Lean model and the schedule spec; \
plus PrecisePlayer (real AymPrecise) one-shot vs chunked streams compared bit for bit and its total against the spec; \
plus Vtx::load of harness-built files (literal-only LH5) against the transposition model/spec. \
distinct = (mono/stereo, buffer-length class, frame start inside the call, R13 skipped, end reached, spf class) per \
play call with spf>0, non-silent precise stream classes, transposition frame counts"
        .into();
    let mut model = Model::spawn(&o.model, "C20");

    if let Some(text) = &o.replay {
        if let Some(rest) = text.trim().strip_prefix("longplay frames=") {
            let t: Vec<&str> = rest.split_whitespace().collect();
            let f = t.first().and_then(|x| x.parse::<usize>().ok()).unwrap_or(65536);
            let st = t.get(1).map_or(false, |x| x.ends_with('1'));
            long_play(&mut rep, Some((f, st)));
            return rep;
        }
        if let Some(rest) = text.trim().strip_prefix("longvtx frames=") {
            if let Ok(n) = rest.trim().parse::<usize>() {
                long_vtx(&mut rep, &[n]);
            }
            return rep;
        }
        rep.sample(J::s(text.clone()));
        if let Some(rest) = text.strip_prefix("transpose data=") {
            let d = if rest.trim() == "-" { vec![] } else { unhex(rest) };
            if let Some(x) = check_transpose(&mut model, &d, Some(&mut rep)) {
                report_transpose(&mut model, &mut rep, &d, x);
            }
        } else if text.starts_with("precise ") {
            if let Some(c) = Case::parse(&text.replacen("precise", "play", 1)) {
                if let Some(d) = check_precise(&mut model, &c, Some(&mut rep)) {
                    report_precise(&mut model, &mut rep, &c, d);
                }
            }
        } else if let Some(c) = Case::parse(text) {
            if let Some(d) = check_case(&mut model, &c, Some(&mut rep)) {
                report(&mut model, &mut rep, &c, d);
            }
        } else {
            rep.notes.push("unparsable replay case".into());
        }
        return rep;
    }

    // 1. recording backend
    let mut rng = Rng::new(o.seed);
    let logs = o.n(1500, 60_000);
    let mut pending: Option<(Case, Disagreement)> = None;
    for i in 0..logs {
        let mut r = rng.fork();
        let c = if i % (if o.thorough() { 1000 } else { 100 }) == 99 { gen_big(&mut r) } else { gen_case(&mut r) };
        let spf = if c.pf == 0 { 0 } else { c.rate / c.pf as usize };
        rep.count("channels", if c.stereo { "stereo" } else { "mono" });
        rep.count("spf", match spf {
            0 => "0",
            1 => "1",
            2..=9 => "2-9",
            10..=99 => "10-99",
            100..=65534 => "100-65534",
            _ => ">=65535",
        });
        rep.count("frames", format!("{}", c.data.len() / 14));
        if c.pf == 0 {
            rep.count("player_frequency", "0 (panic)");
        }
        if i < 2 {
            rep.sample(J::s(c.text()));
        }
        if let Some(d) = check_case(&mut model, &c, Some(&mut rep)) {
            if d.kind == Kind::ModelMismatch {
                // the spec does not decide this input (spf = 0 or constructor details): keep it aside and go
                // on looking for an input on which the real code contradicts the spec
                rep.count("undecided_mismatches", d.key);
                if pending.is_none() {
                    pending = Some((c.clone(), d));
                }
            } else {
                report(&mut model, &mut rep, &c, d);
            }
        }
    }
    if let Some((c, d)) = pending {
        if rep.violations.iter().any(|v| v.kind == Kind::SpecViolated && v.key.starts_with("C20/play.")) {
            rep.notes.push(format!(
                "code/model mismatches on inputs the spec does not decide ({}) are attributed to the spec violation(s) reported",
                d.key
            ));
        } else {
            report(&mut model, &mut rep, &c, d);
        }
    }
    // 2. real AymPrecise
    let mut rng = Rng::new(o.seed ^ 0x20);
    for i in 0..o.n(60, 3000) {
        let mut r = rng.fork();
        let c = gen_precise(&mut r);
        if i == 0 {
            rep.sample(J::s(c.text().replacen("play", "precise", 1)));
        }
        if let Some(d) = check_precise(&mut model, &c, Some(&mut rep)) {
            report_precise(&mut model, &mut rep, &c, d);
        }
    }
    // 3. transposition through Vtx::load
    let mut rng = Rng::new(o.seed ^ 0x2020);
    let mut sizes: Vec<usize> = (0..=20).collect();
    sizes.extend_from_slice(&[31, 32, 33, 64, 100, 255, 256, 257, 1000, 1171, 2500]);
    for _ in 0..o.n(40, 2000) {
        sizes.push(rng.range(0, 400) as usize);
    }
    for (i, n) in sizes.iter().enumerate() {
        let d: Vec<u8> = if i % 2 == 0 { (0..n * 14).map(|k| (k * 7 + k / 256) as u8).collect() } else { rng.bytes(n * 14) };
        if let Some(x) = check_transpose(&mut model, &d, Some(&mut rep)) {
            report_transpose(&mut model, &mut rep, &d, x);
        }
    }
    long_play(&mut rep, None);
    long_vtx(&mut rep, &if o.thorough() { vec![32767, 32768, 32769, 65535, 65536, 65537, 70001, 98304, 100000] } else { vec![32768, 65537] });
    rep.extra.push(("logs".into(), J::I(logs as i64)));
    rep.extra.push(("model_requests".into(), J::I(model.requests as i64)));
    rep
}
