//! A host for the real `rustzx_core::Emulator`: recording frame buffers, scriptable extender,
//! breakpoint interface, scripted stopwatch and a fault-injecting asset.
use rustzx_core::{
    error::IoError,
    host::{
        DataRecorder, DebugInterface, FrameBuffer, FrameBufferSource, Host, HostContext,
        IoExtender, LoadableAsset, SeekFrom, SeekableAsset, Stopwatch,
    },
    zx::{
        machine::ZXMachine,
        sound::ay::ZXAYMode,
        video::colors::{ZXBrightness, ZXColor},
    },
    EmulationMode, Emulator, RustzxSettings,
};
use std::cell::RefCell;
use std::collections::{HashSet, VecDeque};
use std::time::Duration;

/// One byte per pixel: colour in bits 0-2, brightness in bit 3; 0xFF = never painted.
pub struct Fb {
    pub w: usize,
    pub h: usize,
    pub px: Vec<u8>,
    pub writes: u64,
    pub border: bool,
}

impl FrameBuffer for Fb {
    type Context = ();
    fn new(width: usize, height: usize, source: FrameBufferSource, _: ()) -> Self {
        Fb {
            w: width,
            h: height,
            px: vec![0xFF; width * height],
            writes: 0,
            border: matches!(source, FrameBufferSource::Border),
        }
    }
    fn set_color(&mut self, x: usize, y: usize, color: ZXColor, brightness: ZXBrightness) {
        self.writes += 1;
        self.px[y * self.w + x] = (color as u8) | ((brightness as u8) << 3);
    }
}

pub struct Ctx;
impl HostContext<VHost> for Ctx {
    fn frame_buffer_context(&self) {}
}

/// Extender claiming ports with `(port & mask) == val`; logs every access it receives.
#[derive(Default)]
pub struct Ext {
    pub mask: u16,
    pub val: u16,
    pub read_value: u8,
    pub log: Vec<(bool, u16, u8)>,
}

impl IoExtender for Ext {
    fn write(&mut self, port: u16, data: u8) {
        self.log.push((true, port, data));
    }
    fn read(&mut self, port: u16) -> u8 {
        self.log.push((false, port, self.read_value));
        self.read_value
    }
    fn extends_port(&self, port: u16) -> bool {
        (port & self.mask) == self.val
    }
}

#[derive(Default)]
pub struct Dbg {
    pub break_all: bool,
    pub bps: HashSet<u16>,
    pub last_hit: Option<u16>,
    pub hits: u64,
}

impl DebugInterface for Dbg {
    fn check_pc_breakpoint(&mut self, addr: u16) -> bool {
        if self.break_all || self.bps.contains(&addr) {
            self.last_hit = Some(addr);
            self.hits += 1;
            return true;
        }
        false
    }
}

thread_local! {
    /// Answers for `Stopwatch::measure`, consumed one per call; empty => zero duration.
    pub static SW_SCRIPT: RefCell<VecDeque<Duration>> = RefCell::new(VecDeque::new());
}

pub struct Sw;
impl Stopwatch for Sw {
    fn new() -> Self {
        Sw
    }
    fn measure(&self) -> Duration {
        SW_SCRIPT.with(|s| s.borrow_mut().pop_front().unwrap_or(Duration::ZERO))
    }
}

/// In-memory asset with optional short reads and injected failures.
#[derive(Clone, Default)]
pub struct VAsset {
    pub data: Vec<u8>,
    pub pos: usize,
    /// 0 = deliver as much as asked; otherwise at most this many bytes per read
    pub max_chunk: usize,
    /// the n-th call of `read` (0-based) fails with HostAssetImplFailed
    pub fail_read_at: Option<usize>,
    /// the n-th call of `seek` (0-based) fails
    pub fail_seek_at: Option<usize>,
    /// at end of data: false => Err(UnexpectedEof) like BufferCursor, true => Ok(0) like std files
    pub eof_zero: bool,
    pub reads: usize,
    pub seeks: usize,
}

impl VAsset {
    pub fn new(data: Vec<u8>) -> Self {
        VAsset {
            data,
            ..Default::default()
        }
    }
}

impl LoadableAsset for VAsset {
    fn read(&mut self, buf: &mut [u8]) -> Result<usize, IoError> {
        let n = self.reads;
        self.reads += 1;
        if self.fail_read_at == Some(n) {
            return Err(IoError::HostAssetImplFailed);
        }
        if self.pos >= self.data.len() {
            return if self.eof_zero {
                Ok(0)
            } else {
                Err(IoError::UnexpectedEof)
            };
        }
        let mut k = buf.len().min(self.data.len() - self.pos);
        if self.max_chunk > 0 {
            k = k.min(self.max_chunk);
        }
        buf[..k].copy_from_slice(&self.data[self.pos..self.pos + k]);
        self.pos += k;
        Ok(k)
    }
}

impl SeekableAsset for VAsset {
    fn seek(&mut self, pos: SeekFrom) -> Result<usize, IoError> {
        let n = self.seeks;
        self.seeks += 1;
        if self.fail_seek_at == Some(n) {
            return Err(IoError::HostAssetImplFailed);
        }
        let new_pos = match pos {
            SeekFrom::Start(p) => p as isize,
            SeekFrom::End(p) => self.data.len() as isize + p,
            SeekFrom::Current(p) => self.pos as isize + p,
        };
        if new_pos < 0 {
            return Err(IoError::SeekBeforeStart);
        }
        self.pos = new_pos as usize;
        Ok(self.pos)
    }
}

/// In-memory recorder for save_snapshot
#[derive(Default)]
pub struct Rec {
    pub data: Vec<u8>,
    pub max_chunk: usize,
}

impl DataRecorder for Rec {
    fn write(&mut self, buf: &[u8]) -> Result<usize, IoError> {
        let k = if self.max_chunk > 0 {
            buf.len().min(self.max_chunk)
        } else {
            buf.len()
        };
        self.data.extend_from_slice(&buf[..k]);
        Ok(k)
    }
}

pub struct VHost;
impl Host for VHost {
    type Context = Ctx;
    type TapeAsset = VAsset;
    type FrameBuffer = Fb;
    type EmulationStopwatch = Sw;
    type IoExtender = Ext;
    type DebugInterface = Dbg;
}

pub type Emu = Emulator<VHost>;

#[derive(Clone, Copy)]
pub struct Cfg {
    pub m128: bool,
    pub kempston: bool,
    pub mouse: bool,
    pub fastload: bool,
    pub rom: bool,
    pub sound: bool,
    pub ay: bool,
    pub rate: usize,
    pub volume: u8,
    pub beeper: bool,
    pub ay_mode: ZXAYMode,
}

impl Cfg {
    pub fn new(m128: bool) -> Cfg {
        Cfg {
            m128,
            kempston: false,
            mouse: false,
            fastload: false,
            rom: false,
            sound: false,
            ay: false,
            rate: 44100,
            volume: 100,
            beeper: true,
            ay_mode: ZXAYMode::ABC,
        }
    }
}

pub fn settings(c: &Cfg) -> RustzxSettings {
    RustzxSettings {
        machine: if c.m128 {
            ZXMachine::Sinclair128K
        } else {
            ZXMachine::Sinclair48K
        },
        emulation_mode: EmulationMode::FrameCount(1),
        tape_fastload_enabled: c.fastload,
        kempston_enabled: c.kempston,
        mouse_enabled: c.mouse,
        ay_mode: c.ay_mode,
        ay_enabled: c.ay,
        beeper_enabled: c.beeper,
        sound_enabled: c.sound,
        sound_volume: c.volume,
        sound_sample_rate: c.rate,
        load_default_rom: c.rom,
        autoload_enabled: false,
    }
}

pub fn emu(c: &Cfg) -> Emu {
    match Emulator::new(settings(c), Ctx) {
        Ok(e) => e,
        Err(_) => panic!("Emulator::new failed"),
    }
}
